"""Framework core: obligations, task pool, evidence, known findings, replay, verdict protocol.

Exit codes of ./check:  0 held / 1 violation (VIOLATION line printed) / 2 undecided / 3 checker crash.
`unknown`, timeouts and tracebacks are never mapped to 1.
"""
import importlib
import json
import multiprocessing as mp
import os
import sys
import time
import traceback

ROOT = os.path.dirname(os.path.dirname(os.path.abspath(__file__)))
REPO = os.environ.get('VERIF_REPO', '/repo')
OUT = os.environ.get('VERIF_OUT', ROOT)      # tools/seed_matrix.sh redirects evidence and replays of mutated runs to a scratch directory
EVID = os.path.join(OUT, 'evidence')
REPL = os.path.join(OUT, 'replays')
KNOWN = os.path.join(ROOT, 'KNOWN_FINDINGS.txt')

OK, FAIL, UNDEC, ERR = 'ok', 'fail', 'undecided', 'error'


class Ob(dict):
    """One obligation result.  Keys: name, backend (E1/E2/T3), status, sig, detail, case, nontrivial, t."""

    def __init__(self, name, backend, status, sig='', detail='', case=None, nontrivial=True, t=0.0, **kw):
        super().__init__(name=name, backend=backend, status=status, sig=sig, detail=str(detail)[:4000],
                         case=case, nontrivial=bool(nontrivial), t=float(t), **kw)


class _TaskTimeout(Exception):
    pass


def _alarm(signum, frame):
    raise _TaskTimeout()


def _run_task(task):
    """task = (modname, funcname, case).  Returns list[Ob]; never raises.  A task that exceeds VERIF_TASK_TIMEOUT_S or the
    address-space limit of its worker ends as a checker error (exit 3), never as a verdict."""
    modname, funcname, case = task
    t0 = time.time()
    limit = int(os.environ.get('VERIF_TASK_TIMEOUT_S', '2400'))
    armed = False
    try:
        import signal
        import threading
        if limit > 0 and threading.current_thread() is threading.main_thread():
            signal.signal(signal.SIGALRM, _alarm)
            signal.alarm(limit)
            armed = True
    except Exception:
        armed = False
    try:
        mod = importlib.import_module(modname)
        out = getattr(mod, funcname)(case)
        obs = list(out) if out is not None else []
        for o in obs:
            if o.get('case') is None:
                o['case'] = case
            if not o.get('t'):
                o['t'] = (time.time() - t0) / max(1, len(obs))
        return obs
    except BaseException as e:
        if isinstance(e, KeyboardInterrupt):
            raise
        what = 'timeout after %d s' % limit if isinstance(e, _TaskTimeout) else 'crash'
        return [Ob('%s.%s' % (modname, funcname), case.get('backend', 'T3') if isinstance(case, dict) else 'T3', ERR,
                   sig=what, detail=traceback.format_exc()[-3000:], case=case, t=time.time() - t0)]
    finally:
        if armed:
            signal.alarm(0)


def _init_worker():
    """Per-worker address-space cap: a runaway case raises MemoryError inside the task (reported as a checker error)
    instead of being OOM-killed, which would lose the task silently."""
    try:
        import resource
        gb = float(os.environ.get('VERIF_WORKER_MEM_GB', '10'))
        if gb > 0:
            lim = int(gb * (1 << 30))
            soft, hard = resource.getrlimit(resource.RLIMIT_AS)
            # (soft limit only: a child that needs a large address space - lean maps the Mathlib .olean files - may lift it again)
            resource.setrlimit(resource.RLIMIT_AS, (lim if hard == resource.RLIM_INFINITY else min(lim, hard), hard))
    except Exception:
        pass


def _isolated_child(task, conn):
    _init_worker()
    try:
        conn.send(_run_task(task))
    finally:
        conn.close()


def _run_isolated(task):
    """One task in its own forked process; a process that dies without an answer is a checker error for that task."""
    ctx = mp.get_context('fork')
    a, b = ctx.Pipe(duplex=False)
    p = ctx.Process(target=_isolated_child, args=(task, b))
    p.start()
    b.close()
    res = None
    try:
        res = a.recv()
    except EOFError:
        res = None
    p.join()
    if res is None:
        case = task[2]
        res = [Ob('%s.%s' % (task[0], task[1]), case.get('backend', 'T3') if isinstance(case, dict) else 'T3', ERR,
                  sig='worker-died', detail='worker process exited with code %s without a result (killed?)' % p.exitcode,
                  case=case)]
    return res


def run_tasks(tasks, procs=None):
    """Runs the tasks on a fork pool.  A worker that dies abruptly (e.g. OOM kill) breaks the pool: the unfinished tasks are
    then re-run one process per task so that exactly the offending task is reported as a checker error and nothing hangs."""
    from concurrent.futures import ProcessPoolExecutor, ThreadPoolExecutor, as_completed
    from concurrent.futures.process import BrokenProcessPool
    procs = procs or int(os.environ.get('VERIF_PROCS', '16'))
    if not tasks:
        return []
    if procs <= 1 or len(tasks) == 1:
        res = [_run_task(t) for t in tasks]
        return [o for r in res for o in r]
    results = [None] * len(tasks)
    broken = False
    with ProcessPoolExecutor(max_workers=min(procs, len(tasks)), mp_context=mp.get_context('fork'),
                             initializer=_init_worker) as ex:
        futs = {ex.submit(_run_task, t): i for i, t in enumerate(tasks)}
        for f in as_completed(futs):
            i = futs[f]
            try:
                results[i] = f.result()
            except BrokenProcessPool:
                broken = True
            except Exception:
                case = tasks[i][2]
                results[i] = [Ob('%s.%s' % (tasks[i][0], tasks[i][1]), 'T3', ERR, sig='crash',
                                 detail=traceback.format_exc()[-3000:], case=case)]
    pending = [i for i, r in enumerate(results) if r is None]
    if pending:
        print('pool broken=%s: re-running %d unfinished task(s) in isolated processes' % (broken, len(pending)), file=sys.stderr)
        with ThreadPoolExecutor(max_workers=min(procs, len(pending))) as tp:
            for i, r in zip(pending, tp.map(lambda i: _run_isolated(tasks[i]), pending)):
                results[i] = r
    return [o for r in results for o in r]


# ----------------------------------------------------------------------------------------------------------------------
# known findings

def load_known():
    opens, fixed = [], []
    if os.path.exists(KNOWN):
        for line in open(KNOWN):
            line = line.strip()
            if line.startswith('open:'):
                d = {}
                body = line[5:].strip()
                head, _, text = body.partition(' -- ')
                for tok in head.split():
                    if '=' in tok:
                        k, v = tok.split('=', 1)
                        d[k] = v
                d['text'] = text.strip()
                opens.append(d)
            elif line.startswith('fixed:'):
                fixed.append(line)
    return opens, fixed


def match_known(pid, ob, opens):
    for k in opens:
        if k.get('property') == pid and k.get('obligation') == ob['name'] and k.get('witness') == ob['sig']:
            return k
    return None


# ----------------------------------------------------------------------------------------------------------------------
# replay files

def write_replay(pid, idx, ob, native):
    d = os.path.join(REPL, pid)
    os.makedirs(d, exist_ok=True)
    path = os.path.join(d, '%03d_%s.json' % (idx, ''.join(c if c.isalnum() else '_' for c in ob['name'])[:80]))
    json.dump({'property': pid, 'obligation': ob['name'], 'backend': ob['backend'], 'sig': ob['sig'],
               'detail': ob['detail'], 'case': ob['case'], 'replay': native,
               'note': 'native replay reproduces on the real code' if native and native.get('reproduced')
               else 'no-failing-input-found: obligation refuted by the verifier; see detail for its output'},
              open(path, 'w'), indent=1, default=str)
    return os.path.relpath(path, OUT)


def do_replay(path):
    r = json.load(open(path))
    case = r['case']
    task = r.get('replay', {}).get('task') if r.get('replay') else None
    if not task:
        print('replay: no native input recorded for obligation %s' % r['obligation'])
        print(r['detail'])
        return 1
    obs = _run_task(tuple(task))
    bad = [o for o in obs if o['status'] == FAIL]
    for o in obs:
        print('%-5s %s [%s] %s' % (o['status'], o['name'], o['sig'], o['detail'][:300]))
    if bad:
        print('VIOLATION property=%s replay=%s' % (r['property'], path))
        return 1
    return 0


# ----------------------------------------------------------------------------------------------------------------------
# property driver

def run_property(pid, tier, seed):
    t0 = time.time()
    pmod = importlib.import_module('vt.props.%s' % pid.lower())
    meta = pmod.META
    try:
        tasks = pmod.tasks(tier, seed)
    except Exception:
        traceback.print_exc()
        return 3
    obs = run_tasks(tasks)
    opens, _ = load_known()
    viol, known_hits, undec, errs = [], {}, [], []
    for o in obs:
        if o['status'] == FAIL:
            k = match_known(pid, o, opens)
            if k:
                known_hits.setdefault((o['name'], o['sig']), (k, 0))
                known_hits[(o['name'], o['sig'])] = (k, known_hits[(o['name'], o['sig'])][1] + 1)
            else:
                viol.append(o)
        elif o['status'] == UNDEC:
            undec.append(o)
        elif o['status'] == ERR:
            errs.append(o)

    # vacuity guards
    vac = []
    if not obs:
        vac.append('no obligations generated')
    for be, need in getattr(pmod, 'MIN_OBLIGATIONS', {}).items():
        n = sum(1 for o in obs if o['backend'] == be)
        if n < need:
            vac.append('backend %s produced %d obligations, expected >= %d' % (be, n, need))

    lines = []
    # one VIOLATION line per distinct (obligation, sig)
    seen = {}
    for o in viol:
        seen.setdefault((o['name'], o['sig']), o)
    vcount = 0
    if os.path.isdir(os.path.join(REPL, pid)):
        for f in os.listdir(os.path.join(REPL, pid)):
            os.remove(os.path.join(REPL, pid, f))
    for (name, sig), o in sorted(seen.items()):
        native = o.get('native')
        if native is None and o['backend'] in ('T3', 'E2') and o.get('task'):
            native = {'task': o['task'], 'reproduced': o['backend'] == 'T3'}
        path = write_replay(pid, vcount, o, native)
        vcount += 1
        suffix = '' if (native and native.get('reproduced')) else ' no-failing-input-found'
        lines.append('VIOLATION property=%s replay=%s obligation=%s witness=%s%s' % (pid, path, name, sig, suffix))
    for (name, sig), (k, n) in sorted(known_hits.items()):
        lines.append('KNOWN-FINDING: property=%s %s [obligation=%s witness=%s, %d case(s)]' % (pid, k['text'], name, sig, n))

    # evidence
    by_backend = {}
    for o in obs:
        b = by_backend.setdefault(o['backend'], {'obligations': 0, 'discharged': 0, 'failed': 0, 'undecided': 0,
                                                 'error': 0, 'time_s': 0.0})
        b['obligations'] += 1
        b['discharged'] += o['status'] == OK
        b['failed'] += o['status'] == FAIL
        b['undecided'] += o['status'] == UNDEC
        b['error'] += o['status'] == ERR
        b['time_s'] = round(b['time_s'] + o['t'], 3)
    e1 = by_backend.get('E1', {'obligations': 0, 'discharged': 0})
    distinct = set()
    for o in obs:
        if o['nontrivial']:
            distinct.add((o['name'], json.dumps(o['case'], sort_keys=True, default=str)))
    samples = []
    per_name = {}
    for o in obs:
        per_name.setdefault((o['backend'], o['name']), o)
    for (be, name), o in list(sorted(per_name.items()))[:40]:
        samples.append({'backend': be, 'obligation': name, 'status': o['status'], 'case': o['case'],
                        'detail': o['detail'][:200]})
    extra = {}
    e1_funcs = sorted({o['sig'] for o in obs if o['backend'] == 'E1' and o['sig']})
    e1_names = {f.split('[')[0] for f in e1_funcs}
    e1_names |= {n.split('(')[0] for n in e1_names}                                    # TT.__init__(array) is a branch of TT.__init__
    e1_names |= {'fn:' + n.split('.', 1)[1] for n in e1_names if n.startswith('fn:') and '.' in n}      # fn:evp.als is evp:als
    def _short(f):
        m, _, q = f.partition(':')
        return q if q.startswith('TT.') else 'fn:' + q
    extra['e1_functions_verified'] = e1_funcs
    extra['e1_vacuity_inconclusive'] = sorted({o['name'] for o in obs if o['backend'] == 'E1' and 'INCONCLUSIVE vacuity guard' in (o.get('detail') or '')})
    extra['e1_unverified_functions'] = sorted(f for f in meta.get('functions', []) if _short(f) not in e1_names and not f.endswith('.*') and not f.endswith(':*'))
    if hasattr(pmod, 'evidence_extra'):
        try:
            extra.update(pmod.evidence_extra(obs, tier))
        except Exception:
            extra['evidence_extra_error'] = traceback.format_exc()[-500:]
    ev = {
        'property_id': pid, 'tier': tier, 'seed': seed, 'level': meta['level'],
        'coverage': dict({
            'explanation': meta['explanation'],
            'obligations': e1['obligations'], 'discharged': e1['discharged'],
            'checker_cmd': './check %s --tier %s' % (pid, tier),
            'trusted_base': meta.get('trusted_base', []),
            'evaluations': len(obs), 'distinct_nontrivial': len(distinct),
            'rule': meta.get('rule', ''), 'samples': samples,
            'exhaustive': bool(meta.get('exhaustive', False)),
            'by_backend': by_backend,
            'obligation_names': sorted({o['backend'] + ':' + o['name'] for o in obs}),
            'bounded_clauses': sorted({o['name'] for o in obs if o['backend'] != 'E1'}),
            'proved_clauses': sorted({o['name'] for o in obs if o['backend'] == 'E1' and o['status'] == OK}),
            'functions_under_contract': meta.get('functions', []),
            'unverified_functions': extra['e1_unverified_functions'],
            'solver_time_s': by_backend.get('E1', {}).get('time_s', 0.0),
            'known_findings_hit': [k['text'] for (k, n) in known_hits.values()],
            'undecided': [o['name'] + ' [' + o['sig'] + ']' for o in undec][:50],
            'vacuity_failures': vac,
        }, **extra),
        'assumptions': meta.get('assumptions', []),
        'wall_s': round(time.time() - t0, 2),
        'violations': len(seen),
    }
    os.makedirs(EVID, exist_ok=True)
    json.dump(ev, open(os.path.join(EVID, pid + '.json'), 'w'), indent=1, default=str)

    for ln in lines:
        print(ln)
    print('%s tier=%s: %d obligations (%s); violations=%d known=%d undecided=%d errors=%d; %.1fs' % (
        pid, tier, len(obs), ', '.join('%s %d/%d' % (b, v['discharged'], v['obligations']) for b, v in sorted(by_backend.items())),
        len(seen), len(known_hits), len(undec), len(errs), time.time() - t0))
    if seen:
        return 1
    if errs:
        for o in errs[:5]:
            print('CHECKER-ERROR %s: %s' % (o['name'], o['detail'][-1500:]), file=sys.stderr)
        return 3
    if undec or vac:
        for o in undec[:10]:
            print('UNDECIDED %s [%s] %s' % (o['name'], o['sig'], o['detail'][:300]), file=sys.stderr)
        for v in vac:
            print('VACUITY %s' % v, file=sys.stderr)
        return 2
    return 0


def main(argv):
    import argparse
    ap = argparse.ArgumentParser()
    ap.add_argument('pid', nargs='?')
    ap.add_argument('--tier', default=os.environ.get('VERIF_TIER', 'quick'))
    ap.add_argument('--replay')
    ap.add_argument('--selftest', action='store_true')
    a = ap.parse_args(argv)
    if a.replay:
        return do_replay(a.replay)
    seed = int(os.environ.get('VERIF_SEED', '0') or 0)
    tier = a.tier if a.tier in ('quick', 'thorough') else 'quick'
    return run_property(a.pid, tier, seed)
