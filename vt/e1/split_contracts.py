"""Sidecar contracts for the splitting integrators of scikit_tt/solvers/ode.py and utils.truncated_svd (structural part: E1)
- C10: every einsum / reshape / SVD of a splitting stage is shape-consistent for all orders, dimensions and ranks, a stage
keeps the working tensor train valid with unchanged dimensions, the trajectory has number_of_steps + 1 valid states whose
head is the initial value; C06: the initial value, the propagators and every stored state are never written."""
import z3
from vt.e1.values import (SArr, SList, STT, SNum, SMaxRank, SInf, INF, SNone, NONE, SOpt, Unsupported, fresh, zi, zb)
from vt.e1.symexec import FA, sym_elem_fn
from vt.e1.contract import (Contract, wf, positive_dims, lists_distinct, cores_fresh, meta_fresh, same_ints, lst_get, mk_tt,
                            mk_int_list, valid)
from vt.e1.tt_contracts import boundary_one
from vt.e1 import heap
from vt.e1.ode1_contracts import trajectory, state_ok
from vt.e1.sle_contracts import opt


def mat_entry(lst, j, n0, n1, mark=None):
    """slot j of a list of Optional matrices is defined and has the given shape (optionally: allocated after `mark`)"""
    df, a = opt(lst_get(lst, j))
    if a is None or len(a.shape) != 2:
        return z3.BoolVal(False)
    c = [df, a.shape[0] == zi(n0), a.shape[1] == zi(n1)]
    if mark is not None:
        c.append(a.buf >= mark)
    return z3.And(*c)

REG = {}
FILE = 'scikit_tt/solvers/ode.py'


def register(c):
    inst = c()
    REG[inst.name] = inst
    return c


def cap_dom(mr):
    if isinstance(mr, SMaxRank):
        return z3.Or(mr.is_inf, mr.val >= 1)
    if isinstance(mr, SInf):
        return z3.BoolVal(True)
    return zi(mr) >= 1


def cap_ok(rank, mr):
    if isinstance(mr, SMaxRank):
        return z3.Or(mr.is_inf, zi(rank) <= mr.val)
    if isinstance(mr, SInf):
        return z3.BoolVal(True)
    return zi(rank) <= zi(mr)


@register
class TruncatedSvd(Contract):
    name, func, file, cls = 'fn:truncated_svd', 'truncated_svd', 'scikit_tt/utils.py', None
    props = ('C10', 'C05', 'C04', 'C18')

    def defaults(self):
        return {'threshold': 0, 'max_rank': INF, 'rel_truncation': True}

    def setup(self, ex, state, inst):
        m0 = ex.ctx.mark0
        a = SArr([fresh('m'), fresh('n')], fresh('acx', 'bool'), fresh('abuf'), fresh('act', 'bool'))
        return {'matrix': a, 'threshold': SNum('threshold', nonneg=z3.BoolVal(True)), 'max_rank': SMaxRank('max_rank'), 'rel_truncation': True}

    def call_inst(self, A):
        if A.get('rel_truncation', True) is not True:
            raise Unsupported('truncated_svd with an absolute threshold')
        return {}

    def domain_extra(self, S):
        a = S.a['matrix']
        yield 'matrix-nonempty', z3.And(a.shape[0] >= 1, a.shape[1] >= 1)
        yield 'max_rank>=1', cap_dom(S.a.get('max_rank', INF))

    def modifies(self, S):
        a = S.o['matrix']
        return [], [(z3.IntVal(0), z3.IntVal(0), lambda j: a.buf)]      # LAPACK overwrite_a=True

    def ensures(self, S, res):
        a = S.o['matrix']
        ok = isinstance(res, (tuple, SList)) and len(res if isinstance(res, tuple) else res.items) == 3
        yield 'returns-(u,s,v)', ok
        if not ok:
            return
        u, s, v = res if isinstance(res, tuple) else res.items
        k = u.shape[1]
        mn = z3.If(a.shape[0] < a.shape[1], a.shape[0], a.shape[1])
        yield 'shapes', z3.And(u.shape[0] == a.shape[0], s.shape[0] == k, v.shape[0] == k, v.shape[1] == a.shape[1])
        yield '1<=rank<=min(m,n)', z3.And(k >= 1, k <= mn)
        yield 'rank<=max_rank', cap_ok(k, S.o['max_rank'])
        yield 'orthonormal-factors', z3.And(u.flags['isocols'], v.flags['isorows'])
        yield 'fresh-or-views-of-fresh', z3.And(u.buf >= S.mark0, s.buf >= S.mark0, v.buf >= S.mark0)

    def canary(self, S, res):
        u = (res if isinstance(res, tuple) else res.items)[0]
        return u.shape[1] == 0

    def effect(self, ex, state, A, inst, line):
        from vt.e1 import npmodel
        a = A['matrix']
        k = fresh('tk')
        u = npmodel.new_arr(state, [a.shape[0], k], a.cplx, flags={'isocols': True})
        s = npmodel.new_arr(state, [k], False)
        v = npmodel.new_arr(state, [k, a.shape[1]], a.cplx, flags={'isorows': True})
        s.descending_nonneg = True
        return (u, s, v)


def propagators_ok(K, t):
    """K[i] acts on the pair of modes (i, i+1) of the vector-type tensor train t, the last entry on the last mode"""
    d = zi(t.order)

    def ent(j):
        n2 = z3.If(j < d - 1, lst_get(t.row_dims, j) * lst_get(t.row_dims, j + 1), lst_get(t.row_dims, j))
        return mat_entry(K, j, n2, n2)
    return z3.And(zi(K.len_term()) == d, FA(0, d, ent))


def vec_tt(t):
    d = zi(t.order)
    return z3.And(valid(t), FA(0, d, lambda j: lst_get(t.col_dims, j) == 1), boundary_one(t))


@register
class SplittingStage(Contract):
    name, func, file, cls = 'fn:__splitting_stage', '__splitting_stage', FILE, None
    props = ('C10',)
    KEY = 'i in indices'
    loop_ordinals = {0: KEY}

    def instances(self):
        return [{'start': 0}, {'start': 1}]

    def call_inst(self, A):
        ar = getattr(A['indices'], 'arange', None)
        if ar is None or ar[2] != 2:
            raise Unsupported('__splitting_stage over indices that are not np.arange(a, order, 2)')
        return {}

    def mutated(self, A):
        return [A['tmp'].cores, A['tmp'].ranks]

    def setup(self, ex, state, inst):
        m0 = ex.ctx.mark0
        from vt.e1.sle_contracts import tag_tt, tag_list, ROLES_SOL
        t = tag_tt(mk_tt(state, 'tmp', m0), ROLES_SOL)
        d = zi(t.order)
        # a propagator maps the physical index of the state: (row, column) of an operator
        K = tag_list(SList(fresh('K_ref'), d, fn=sym_elem_fn('optarr2', state), kind='optarr2'), ('r', 'c'))
        idx = SArr([fresh('nidx')], False, fresh('idx_buf'), True, kind='int')
        idx.arange = (z3.IntVal(inst['start']), d, 2)
        state.assume(idx.shape[0] == z3.If(d > inst['start'], (d - inst['start'] + 1) / 2, 0))
        return {'K': K, 'indices': idx, 'tmp': t, 'threshold': SNum('threshold', nonneg=z3.BoolVal(True)), 'max_rank': SMaxRank('max_rank')}

    def domain_extra(self, S):
        idx, t = S.a['indices'], S.a['tmp']
        lo, hi, step = idx.arange
        yield 'indices==arange(a, order, 2)', z3.And(lo >= 0, hi == zi(t.order), step == 2,
                                                      idx.shape[0] == z3.If(hi > lo, (hi - lo + 1) / 2, 0))
        yield 'max_rank>=1', cap_dom(S.a['max_rank'])

    def requires(self, S):
        K, t = S.a['K'], S.a['tmp']
        yield 'vector-type-tt', vec_tt(t)
        yield 'propagators-match-modes', propagators_ok(K, t)

    def modifies(self, S):
        t = S.o['tmp']
        return [t.cores.ref, t.ranks.ref], []

    def ensures(self, S, res):
        t, t0 = S.a['tmp'], S.o['tmp']
        d = zi(t0.order)
        yield 'returns-tmp', isinstance(res, STT) and res is t
        yield 'identity', z3.And(t.ref == t0.ref, t.cores.ref == t0.cores.ref, t.ranks.ref == t0.ranks.ref, t.row_dims.ref == t0.row_dims.ref, t.col_dims.ref == t0.col_dims.ref)
        yield 'vector-type-tt', vec_tt(t)
        yield 'order-and-dims-unchanged', z3.And(zi(t.order) == d, same_ints(t.row_dims, t0.row_dims, d))
        yield 'new-cores-fresh-or-own-slot', FA(0, d, lambda j: z3.Or(lst_get(t.cores, j).buf >= S.mark0, lst_get(t.cores, j).buf == lst_get(t0.cores, j).buf))
        yield 'interior-ranks<=max(max_rank, old)', FA(1, d, lambda j: z3.Or(cap_ok(lst_get(t.ranks, j), S.o['max_rank']), lst_get(t.ranks, j) == lst_get(t0.ranks, j)))

    def lemmas(self, S, res):
        # core buffers never get older: whatever watermark bounded them from below before the stage still does afterwards
        t, t0 = S.a['tmp'], S.o['tmp']
        d = zi(t0.order)
        marks = [S.state.ctx.mark0] + list(getattr(S.state, 'loop_marks', []))[-2:]
        for q, m in enumerate(marks):
            yield 'core-buffers-not-older[%d]' % q, z3.Implies(z3.And(m <= S.mark0, FA(0, d, lambda j: lst_get(t0.cores, j).buf >= m)),
                                                             FA(0, d, lambda j: lst_get(t.cores, j).buf >= m))

    def canary(self, S, res):
        return lst_get(S.a['tmp'].ranks, 0) == 2

    def invariant(self, key, inst):
        if key != self.KEY:
            return None

        def inv(V, i, k):
            t, t0 = V['tmp'], V.old('tmp')
            d = zi(t0.order)
            yield 'identity', z3.And(t.ref == t0.ref, t.cores.ref == t0.cores.ref, t.ranks.ref == t0.ranks.ref, t.row_dims.ref == t0.row_dims.ref, t.col_dims.ref == t0.col_dims.ref)
            yield 'vector-type-tt', vec_tt(t)
            yield 'order-and-dims-unchanged', z3.And(zi(t.order) == d, same_ints(t.row_dims, t0.row_dims, d))
            yield 'new-cores-fresh-or-own-slot', FA(0, d, lambda j: z3.Or(lst_get(t.cores, j).buf >= V.mark0, lst_get(t.cores, j).buf == lst_get(t0.cores, j).buf))
            yield 'interior-ranks', FA(1, d, lambda j: z3.Or(cap_ok(lst_get(t.ranks, j), V.old('max_rank')), lst_get(t.ranks, j) == lst_get(t0.ranks, j)))
        return inv

    def effect(self, ex, state, A, inst, line):
        t = A['tmp']
        d = zi(t.order)
        for l, kind in ((t.cores, 'arr'), (t.ranks, 'int')):
            l.items = None
            l.transients = {}
            l.fn = sym_elem_fn(kind, state)
        t.cores.length, t.ranks.length = d, d + 1
        return t


@register
class SplittingPropagators(Contract):
    """__splitting_propagators: one matrix exponential per bond (homogeneous components given as arrays; the
    site-dependent variant with lists of components is used through this contract but its body is not verified)."""
    name, func, file, cls = 'fn:__splitting_propagators', '__splitting_propagators', FILE, None
    props = ('C10',)
    KEY = 'i in range(order - 1)'

    def instances(self):
        return [{'components': 'arrays', 'L': 2}, {'components': 'arrays', 'L': 3}]

    def call_inst(self, A):
        if isinstance(A['S'], SArr):
            return {'components': 'arrays', 'L': len(A['L'].shape)}
        return {'components': 'lists', 'L': 0}

    def setup(self, ex, state, inst):
        n, q = fresh('n'), fresh('q')
        mk = lambda nm, shp: SArr(shp, fresh(nm + '_cx', 'bool'), fresh(nm + '_buf'), fresh(nm + '_ct', 'bool'))   # noqa
        S, I = mk('S', [n, n]), mk('I', [n, n])
        L, M = (mk('L', [n, n]), mk('M', [n, n])) if inst['L'] == 2 else (mk('L', [n, n, q]), mk('M', [q, n, n]))
        co = SList(fresh('coefficients_ref'), None, items=[SNum('c0'), SNum('c1')], kind='num')
        return {'S': S, 'L': L, 'I': I, 'M': M, 'order': fresh('order'), 'step_size': SNum('step_size'), 'coefficients': co}

    def domain_extra(self, S):
        a = S.a
        yield 'order>=1', zi(a['order']) >= 1
        co = a['coefficients']
        yield 'two-coefficients', isinstance(co, SList) and co.items is not None and len(co.items) == 2
        if isinstance(a['S'], SArr):
            s, l, i_, m = a['S'], a['L'], a['I'], a['M']
            n = s.shape[0]
            ok = [len(s.shape) == 2, len(i_.shape) == 2, len(l.shape) == len(m.shape), len(l.shape) in (2, 3)]
            if not all(ok):
                yield 'component-ranks', False
                return
            yield 'site-dimension>=1', n >= 1
            yield 'square-components', z3.And(s.shape[1] == n, i_.shape[0] == n, i_.shape[1] == n)
            if len(l.shape) == 2:
                yield 'two-site-components', z3.And(l.shape[0] == n, l.shape[1] == n, m.shape[0] == n, m.shape[1] == n)
            else:
                yield 'two-site-components', z3.And(l.shape[0] == n, l.shape[1] == n, m.shape[1] == n, m.shape[2] == n, l.shape[2] == m.shape[0], l.shape[2] >= 1)

    def ensures(self, S, res):
        ok = isinstance(res, SList)
        yield 'returns-list', ok
        if ok and isinstance(S.o['S'], SArr):
            n, d = S.o['S'].shape[0], zi(S.o['order'])

            def ent(j):
                n2 = z3.If(j < d - 1, n * n, n)
                return mat_entry(res, j, n2, n2, S.mark0)
            yield 'one-propagator-per-bond', z3.And(zi(res.len_term()) == d, FA(0, d, ent), res.ref >= S.mark0)

    def canary(self, S, res):
        return zi(res.len_term()) == zi(S.o['order']) + 1 if isinstance(res, SList) else None

    list_kinds = {'K': 'optarr2'}
    loop_ordinals = {0: KEY}

    def invariant(self, key, inst):
        if key != self.KEY:
            return None

        def inv(V, i, k):
            K, d, n = V['K'], zi(V.old('order')), V.old('S').shape[0]

            def ent(j):
                return z3.Implies(j < zi(i), mat_entry(K, j, n * n, n * n, V.mark0))
            yield 'K', z3.And(zi(K.len_term()) == d, K.ref >= V.mark0, FA(0, d, ent))
            kh = V['K_hom']
            yield 'K_hom', z3.And(kh.shape[0] == n * n, kh.shape[1] == n * n)
        return inv

    def effect(self, ex, state, A, inst, line):
        d = zi(A['order'])
        return SList(state.alloc(), d, fn=sym_elem_fn('optarr2', state), kind='optarr2')


def state_like(ref, x0):
    """the stored state behind `ref` is a valid vector-type TT with the row dimensions of the initial value"""
    t = heap.tt_at(ref)
    d = zi(x0.order)
    return z3.And(zi(t.order) == d, vec_tt(t), same_ints(t.row_dims, x0.row_dims, d))


class _SplitDriver(Contract):
    file, cls = FILE, None
    props = ('C10',)
    uses_heap = True
    list_kinds = {'solution': 'ttref'}
    KEY = 'i in range(number_of_steps)'
    has_K = False

    def instances(self):
        out = [{'normalize': nz, 'L': l, 'K': 'None'} for nz in (0, 1, 2) for l in (2, 3)]
        if self.has_K:
            out += [{'normalize': nz, 'L': 2, 'K': 'given'} for nz in (0, 1, 2)]
        return out

    def quick_instances(self):
        return [i for i in self.instances() if (i['normalize'], i['L']) in ((0, 2), (2, 3)) or (i['K'] == 'given' and i['normalize'] == 1)]

    def state_pred(self, ref, state):
        return state_like(ref, state.old['initial_value'])

    def setup(self, ex, state, inst):
        m0 = ex.ctx.mark0
        n, q = fresh('n'), fresh('q')
        mk = lambda nm, shp: SArr(shp, fresh(nm + '_cx', 'bool'), fresh(nm + '_buf'), fresh(nm + '_ct', 'bool'))   # noqa
        S, I = mk('S', [n, n]), mk('I', [n, n])
        L, M = (mk('L', [n, n]), mk('M', [n, n])) if inst['L'] == 2 else (mk('L', [n, n, q]), mk('M', [q, n, n]))
        x0 = mk_tt(state, 'initial_value', m0)
        p = {'S': S, 'L': L, 'I': I, 'M': M, 'initial_value': x0, 'step_size': SNum('step_size'), 'number_of_steps': fresh('number_of_steps'),
             'threshold': SNum('threshold', nonneg=z3.BoolVal(True)), 'max_rank': fresh('max_rank'), 'normalize': inst['normalize']}
        if self.has_K:
            p['K'] = SList(fresh('K_ref'), zi(x0.order), fn=sym_elem_fn('optarr2', state), kind='optarr2') if inst['K'] == 'given' else NONE
        return p

    def domain_extra(self, S):
        a = S.a
        mr = a['max_rank']
        if isinstance(mr, (SMaxRank, SInf)):
            raise Unsupported('splitting with a non-integer max_rank (2 * max_rank is computed)')
        yield 'max_rank>=1', zi(mr) >= 1
        if not (self.has_K and isinstance(a.get('K'), SList)):
            yield from REG['fn:__splitting_propagators'].domain_extra(type(S)({'S': a['S'], 'L': a['L'], 'I': a['I'], 'M': a['M'], 'order': a['initial_value'].order,
                                                                              'coefficients': SList(0, None, items=[SNum('c0'), SNum('c1')], kind='num')}, {}, S.mark0, {}, S.state))

    def requires(self, S):
        a = S.a
        x0 = a['initial_value']
        d = zi(x0.order)
        yield 'vector-type-initial-value', vec_tt(x0)
        yield 'steps>=0', zi(a['number_of_steps']) >= 0
        if self.has_K and isinstance(a.get('K'), SList):
            yield 'propagators-match-modes', propagators_ok(a['K'], x0)
        else:
            # homogeneous components: every mode has the site dimension of S
            yield 'row-dims==site-dimension', FA(0, d, lambda j: lst_get(x0.row_dims, j) == a['S'].shape[0])
        jx = fresh('jx')
        yield 'state-dimension>=2', z3.Exists([jx], z3.And(0 <= jx, jx < d, lst_get(x0.row_dims, jx) >= 2))

    def ensures(self, S, res):
        ok = isinstance(res, SList) and res.kind == 'ttref'
        yield 'returns-list-of-TT', ok
        if ok:
            yield from (('trajectory:' + a, b) for a, b in trajectory(self, res, zi(S.o['number_of_steps']) + 1, S.o['initial_value'], S.mark0, None))

    def canary(self, S, res):
        return zi(res.len_term()) == zi(S.o['number_of_steps']) if isinstance(res, SList) else None

    def invariant(self, key, inst):
        me = self
        if key != self.KEY:
            return None

        def inv(V, i, k):
            yield from trajectory(me, V['solution'], zi(i) + 1, V.old('initial_value'), V.mark0, V.state.mark)
        return inv

    loop_ordinals = {0: KEY}


@register
class LieSplitting(_SplitDriver):
    name, func = 'fn:lie_splitting', 'lie_splitting'
    has_K = True

    def defaults(self):
        return {'threshold': SNum('thr', nonneg=z3.BoolVal(True)), 'max_rank': 50, 'normalize': 1, 'K': NONE, 'tmp_rank': 0}

    def setup(self, ex, state, inst):
        p = _SplitDriver.setup(self, ex, state, inst)
        p['tmp_rank'] = 0
        return p


@register
class StrangSplitting(_SplitDriver):
    name, func = 'fn:strang_splitting', 'strang_splitting'
    has_K = True

    def defaults(self):
        return {'threshold': SNum('thr', nonneg=z3.BoolVal(True)), 'max_rank': 50, 'normalize': 0, 'K': NONE}


@register
class YoshidaSplitting(_SplitDriver):
    name, func = 'fn:yoshida_splitting', 'yoshida_splitting'

    def defaults(self):
        return {'threshold': SNum('thr', nonneg=z3.BoolVal(True)), 'max_rank': 50, 'normalize': 0}


@register
class KahanLiSplitting(_SplitDriver):
    name, func = 'fn:kahan_li_splitting', 'kahan_li_splitting'

    def defaults(self):
        return {'threshold': SNum('thr', nonneg=z3.BoolVal(True)), 'max_rank': 50, 'normalize': 0}
