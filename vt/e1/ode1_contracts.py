"""Sidecar contracts for the one-step schemes of scikit_tt/solvers/ode.py (structural part: E1) - C09 (trajectory length,
head identity, every state a well-formed TT of the operator's row dimensions, every call inside the callee's
precondition) and C06 (operator / initial value / guess never written, later states fresh and pairwise distinct, no
state written after it has been stored)."""
import z3
from vt.e1.values import (SArr, SList, STT, SNum, SMaxRank, SInf, INF, SNone, NONE, SOpt, Unsupported, fresh, zi, zb)
from vt.e1.symexec import FA, sym_elem_fn
from vt.e1.contract import (Contract, wf, positive_dims, lists_distinct, cores_fresh, meta_fresh, same_ints, lst_get, mk_tt,
                            mk_int_list)
from vt.e1.tt_contracts import boundary_one
from vt.e1.sle_contracts import square
from vt.e1 import heap

REG = {}
FILE = 'scikit_tt/solvers/ode.py'


def register(c):
    inst = c()
    REG[inst.name] = inst
    return c


def state_ok(ref, op):
    """the frozen state behind `ref` is a well-formed TT vector on the operator's row dimensions with boundary ranks 1"""
    t = heap.tt_at(ref)
    d = zi(op.order)
    return z3.And(zi(t.order) == d, wf(t), positive_dims(t), lists_distinct(t), same_ints(t.row_dims, op.row_dims, d),
                  FA(0, d, lambda j: lst_get(t.col_dims, j) == 1), boundary_one(t))


def trajectory(c, sol, n, x0, mark0, mark):
    """first n states of the trajectory list `sol` (invariant and postcondition share this predicate).  heap.OK(c, r) is the
    contract's state predicate `state_ok(r, operator)`; heap.TOP / heap.BOT bound every id of a stored state."""
    r = lambda j: heap.ref_at(sol, j)       # noqa
    j1, j2 = fresh('j1'), fresh('j2')
    yield 'length', z3.And(zi(sol.len_term()) == n, n >= 1)
    yield 'list-fresh', sol.ref >= mark0
    yield 'head-is-initial-value', r(0) == x0.ref
    yield 'states-well-formed', FA(0, n, lambda j: heap.OK(c, r(j)))
    yield 'later-states-fresh', FA(1, n, lambda j: heap.BOT(r(j)) >= mark0)
    yield 'states-pairwise-distinct-objects', z3.ForAll([j1, j2], z3.Implies(z3.And(0 <= j1, j1 < j2, j2 < n), r(j1) != r(j2)))
    if mark is not None:
        yield 'states-allocated-before-now', FA(0, n, lambda j: heap.TOP(r(j)) <= mark)


class _OneStep(Contract):
    file, cls = FILE, None
    props = ('C09',)        # the frame / freshness clauses also belong to C06; verified once, under C09
    list_kinds = {'solution': 'ttref'}
    uses_heap = True

    def instances(self):
        return [{'normalize': 0}, {'normalize': 1}, {'normalize': 2}]

    def state_pred(self, ref, state):
        return state_ok(ref, state.old['operator'])

    def base_setup(self, ex, state, inst):
        m0 = ex.ctx.mark0
        op = mk_tt(state, 'operator', m0)
        init = mk_tt(state, 'initial_value', m0, order=op.order)
        n = fresh('nsteps')
        state.assume(n >= 0)
        hs = SList(fresh('step_sizes_ref'), n, fn=sym_elem_fn('num', state), kind='num')
        state.assume(z3.And(hs.ref >= 0, hs.ref < m0))
        mr = SMaxRank('max_rank')
        state.assume(z3.Or(mr.is_inf, mr.val >= 1))
        return {'operator': op, 'initial_value': init, 'step_sizes': hs, 'threshold': SNum('threshold', nonneg=z3.BoolVal(True)),
                'max_rank': mr, 'normalize': inst['normalize'], 'progress': False}

    def requires(self, S):
        op, x = S.a['operator'], S.a['initial_value']
        d = zi(op.order)
        yield 'orders-equal', zi(x.order) == d
        yield 'square-operator', square(op)
        yield 'dims-match', z3.And(same_ints(x.row_dims, op.col_dims, d), FA(0, d, lambda j: lst_get(x.col_dims, j) == 1))
        yield 'boundary-ranks-1', z3.And(boundary_one(op), boundary_one(x))
        yield 'distinct-operands', z3.And(op.ref != x.ref)
        # derived from the code: for a state space of dimension 1 `TT.dot` returns a scalar, not a TT
        jx = fresh('jx')
        yield 'state-dimension>=2', z3.Exists([jx], z3.And(0 <= jx, jx < d, lst_get(x.row_dims, jx) >= 2))

    def domain_extra(self, S):
        mr = S.a.get('max_rank')
        if isinstance(mr, SMaxRank):
            yield 'max_rank>=1', z3.Or(mr.is_inf, mr.val >= 1)
        elif mr is not None and not isinstance(mr, SInf):
            yield 'max_rank>=1', zi(mr) >= 1

    def ensures(self, S, res):
        ok = isinstance(res, SList) and res.kind == 'ttref'
        yield 'returns-list-of-TT', ok
        if ok:
            n = self.nstates(S)
            yield from (('trajectory:' + a, b) for a, b in trajectory(self, res, n, S.o['initial_value'], S.mark0, None))

    def nstates(self, S):
        return zi(S.o['step_sizes'].len_term()) + 1

    def canary(self, S, res):
        return zi(res.len_term()) == self.nstates(S) - 1 if isinstance(res, SList) else None

    def loop_inv(self, V, i):
        yield from trajectory(self, V['solution'], zi(i) + 1, V.old('initial_value'), V.mark0, V.state.mark)


@register
class ExplicitEuler(_OneStep):
    name, func = 'fn:explicit_euler', 'explicit_euler'
    loop_ordinals = {0: 'i in range(len(step_sizes))'}

    def defaults(self):
        return {'threshold': SNum('thr', nonneg=z3.BoolVal(True)), 'max_rank': 50, 'normalize': 1, 'progress': True}

    def setup(self, ex, state, inst):
        return self.base_setup(ex, state, inst)

    def invariant(self, key, inst):
        me = self
        if key != 'i in range(len(step_sizes))':
            return None

        def inv(V, i, k):
            yield from me.loop_inv(V, i)
        return inv


class _Implicit(_OneStep):
    def instances(self):
        return [{'normalize': nz, 'tt_solver': s} for nz in (0, 1, 2) for s in ('als', 'mals')]

    def defaults(self):
        return {'repeats': 1, 'tt_solver': 'als', 'threshold': SNum('thr', nonneg=z3.BoolVal(True)), 'max_rank': INF, 'micro_solver': 'solve',
                'normalize': 1, 'progress': True}

    def setup(self, ex, state, inst):
        p = self.base_setup(ex, state, inst)
        g = mk_tt(state, 'initial_guess', ex.ctx.mark0, order=p['operator'].order)
        rep = fresh('repeats')
        p.update({'initial_guess': g, 'repeats': rep, 'tt_solver': inst['tt_solver'], 'micro_solver': 'solve'})
        return p

    def requires(self, S):
        yield from _OneStep.requires(self, S)
        op, g = S.a['operator'], S.a['initial_guess']
        d = zi(op.order)
        yield 'guess', z3.And(zi(g.order) == d, same_ints(g.row_dims, op.col_dims, d), FA(0, d, lambda j: lst_get(g.col_dims, j) == 1), boundary_one(g))
        yield 'repeats>=0', zi(S.a['repeats']) >= 0
        if S.inst['tt_solver'] == 'mals':
            yield 'order>=2', d >= 2

    def invariant(self, key, inst):
        me = self
        if key != 'i in range(len(step_sizes))':
            return None

        def inv(V, i, k):
            yield from me.loop_inv(V, i)
            t, op = V['tt_tmp'], V.old('operator')
            d = zi(op.order)
            yield 'guess', z3.And(zi(t.order) == d, wf(t), positive_dims(t), lists_distinct(t), same_ints(t.row_dims, op.col_dims, d),
                                  FA(0, d, lambda j: lst_get(t.col_dims, j) == 1), boundary_one(t))
        return inv


@register
class ImplicitEuler(_Implicit):
    name, func = 'fn:implicit_euler', 'implicit_euler'
    loop_ordinals = {0: 'i in range(len(step_sizes))'}


@register
class TrapezoidalRule(_Implicit):
    name, func = 'fn:trapezoidal_rule', 'trapezoidal_rule'
    loop_ordinals = {0: 'i in range(len(step_sizes))'}


def operator_like(t, op, mark0=None):
    """t is a valid TT operator with the dimensions of `op` and boundary ranks 1 (optionally: allocated by this call)"""
    from vt.e1.contract import valid
    d = zi(op.order)
    c = [zi(t.order) == d, valid(t), same_ints(t.row_dims, op.row_dims, d), same_ints(t.col_dims, op.col_dims, d), boundary_one(t)]
    if mark0 is not None:
        c += [meta_fresh(t, mark0), cores_fresh(t, mark0)]
    return z3.And(*c)


@register
class Hod(_OneStep):
    name, func = 'fn:hod', 'hod'
    K0, K1, K2 = 'k in range(2, order // 2 + 1)#0', 'i in range(number_of_steps)', 'k in range(2, order // 2 + 1)#2'
    loop_ordinals = {0: K0, 1: K1, 2: K2}

    def instances(self):
        return [{'normalize': nz, 'previous_value': p, 'op_hod': o} for nz in (0, 1, 2) for p in ('None', 'TT') for o in ('None', 'TT')]

    def quick_instances(self):
        return [i for i in self.instances() if i['normalize'] == 1 or (i['previous_value'], i['op_hod']) == ('None', 'None')]

    def defaults(self):
        return {'order': 2, 'previous_value': NONE, 'op_hod': NONE, 'threshold': SNum('thr', nonneg=z3.BoolVal(True)), 'max_rank': 50,
                'normalize': 1, 'progress': True}

    def setup(self, ex, state, inst):
        m0 = ex.ctx.mark0
        op = mk_tt(state, 'operator', m0)
        init = mk_tt(state, 'initial_value', m0, order=op.order)
        mr = SMaxRank('max_rank')
        p = {'operator': op, 'initial_value': init, 'step_size': SNum('step_size'), 'number_of_steps': fresh('number_of_steps'), 'order': fresh('order'),
             'previous_value': mk_tt(state, 'previous_value', m0, order=op.order) if inst['previous_value'] == 'TT' else NONE,
             'op_hod': mk_tt(state, 'op_hod', m0, order=op.order) if inst['op_hod'] == 'TT' else NONE,
             'threshold': SNum('threshold', nonneg=z3.BoolVal(True)), 'max_rank': mr, 'normalize': inst['normalize'], 'progress': False}
        return p

    def nstates(self, S):
        return zi(S.o['number_of_steps']) + 1

    def requires(self, S):
        yield from _OneStep.requires(self, S)
        op, x = S.a['operator'], S.a['initial_value']
        d = zi(op.order)
        yield 'steps>=0', zi(S.a['number_of_steps']) >= 0
        pv, oh = S.a['previous_value'], S.a['op_hod']
        if isinstance(pv, STT):
            yield 'previous_value', z3.And(zi(pv.order) == d, same_ints(pv.row_dims, x.row_dims, d), FA(0, d, lambda j: lst_get(pv.col_dims, j) == 1), boundary_one(pv))
        if isinstance(oh, STT):
            yield 'op_hod', z3.And(zi(oh.order) == d, same_ints(oh.row_dims, op.row_dims, d), same_ints(oh.col_dims, op.col_dims, d), boundary_one(oh))

    def invariant(self, key, inst):
        me = self

        def series(first):
            def inv(V, k, _):
                op = V.old('operator')
                yield 'op_tmp', operator_like(V['op_tmp'], op, V.mark0)
                yield first, operator_like(V[first], op, V.mark0)
            return inv

        def main(V, i, _):
            yield from me.loop_inv(V, i)
        return {self.K0: series('op_hod'), self.K1: main, self.K2: series('op_first')}.get(key)


# ----------------------------------------------------------------------------------------------------------------------
# error estimators: read-only over a given trajectory

class _Errors(Contract):
    file, cls = FILE, None
    props = ('C09',)
    uses_heap = True
    list_kinds = {'errors': 'num'}

    def state_pred(self, ref, state):
        return state_ok(ref, state.old['operator'])

    def setup(self, ex, state, inst):
        m0 = ex.ctx.mark0
        op = mk_tt(state, 'operator', m0)
        n = fresh('nstates')
        sol = SList(fresh('solution_ref'), n, fn=sym_elem_fn('ttref', state), kind='ttref')
        hs = SList(fresh('step_sizes_ref'), fresh('nsteps'), fn=sym_elem_fn('num', state), kind='num')
        ex.ctx.heap_params = [sol]
        return {'operator': op, 'solution': sol, 'step_sizes': hs}

    def domain_extra(self, S):
        sol, op, m0 = S.a['solution'], S.a['operator'], S.mark0
        n = zi(sol.len_term())
        # every state of the given trajectory is a valid TT vector on the operator's row dimensions, allocated before the call
        yield 'states-well-formed', FA(0, n, lambda j: state_ok(heap.ref_at(sol, j), op))
        yield 'alloc:states', FA(0, n, lambda j: z3.And(heap.TOP(heap.ref_at(sol, j)) <= m0, heap.BOT(heap.ref_at(sol, j)) >= 0))

    def requires(self, S):
        op, sol, hs = S.a['operator'], S.a['solution'], S.a['step_sizes']
        d = zi(op.order)
        yield 'square-operator', square(op)
        yield 'boundary-ranks-1', boundary_one(op)
        # derived from the loop: step_sizes[i] is read for every i < len(solution) - 1
        yield 'enough-step-sizes', zi(hs.len_term()) >= zi(sol.len_term()) - 1
        jx = fresh('jx')
        yield 'state-dimension>=2', z3.Exists([jx], z3.And(0 <= jx, jx < d, lst_get(op.row_dims, jx) >= 2))

    def ensures(self, S, res):
        ok = isinstance(res, SList)
        yield 'returns-list', ok
        if ok:
            n = zi(S.o['solution'].len_term())
            yield 'one-defect-per-step', zi(res.len_term()) == z3.If(n >= 1, n - 1, 0)
            yield 'list-fresh', res.ref >= S.mark0

    def canary(self, S, res):
        return zi(res.len_term()) == zi(S.o['solution'].len_term()) if isinstance(res, SList) else None

    def invariant(self, key, inst):
        if key != 'i in range(len(solution) - 1)':
            return None

        def inv(V, i, k):
            e = V['errors']
            yield 'errors', z3.And(zi(e.len_term()) == zi(i), e.ref >= V.mark0)
        return inv

    loop_ordinals = {0: 'i in range(len(solution) - 1)'}


@register
class ErrorsExplEuler(_Errors):
    name, func = 'fn:errors_expl_euler', 'errors_expl_euler'


@register
class ErrorsImplEuler(_Errors):
    name, func = 'fn:errors_impl_euler', 'errors_impl_euler'


@register
class ErrorsTrapezoidal(_Errors):
    name, func = 'fn:errors_trapezoidal', 'errors_trapezoidal'


@register
class AdaptiveStepSize(_OneStep):
    """adaptive_step_size: (solution, time_steps); the number of accepted steps is data dependent - the contract states the
    structure: equally long lists, head identity, valid fresh pairwise distinct states, inputs never written."""
    name, func = 'fn:adaptive_step_size', 'adaptive_step_size'
    KEY = 'while time < time_end and closeness_pre > closeness_min and (step_size > step_size_min)'
    loop_ordinals = {0: KEY}
    list_kinds = {'solution': 'ttref', 'time_steps': 'num'}

    def instances(self):
        return [{'normalize': nz, 'second_method': m} for nz in (0, 1, 2) for m in ('two_step_Euler', 'trapezoidal_rule')]

    def quick_instances(self):
        return [i for i in self.instances() if i['normalize'] == 1]

    def defaults(self):
        d = {k: SNum(k) for k in ('step_size_first', 'error_tol', 'closeness_tol', 'step_size_min', 'step_size_max', 'closeness_min', 'factor_max', 'factor_safe')}
        d.update({'repeats': 1, 'solver': 'solve', 'second_method': 'two_step_Euler', 'normalize': 1, 'progress': True})
        return d

    def setup(self, ex, state, inst):
        m0 = ex.ctx.mark0
        op = mk_tt(state, 'operator', m0)
        init = mk_tt(state, 'initial_value', m0, order=op.order)
        g = mk_tt(state, 'initial_guess', m0, order=op.order)
        p = {'operator': op, 'initial_value': init, 'initial_guess': g, 'time_end': SNum('time_end'), 'repeats': fresh('repeats'), 'solver': 'solve',
             'second_method': inst['second_method'], 'normalize': inst['normalize'], 'progress': False}
        for k in ('step_size_first', 'error_tol', 'closeness_tol', 'step_size_min', 'step_size_max', 'closeness_min', 'factor_max', 'factor_safe'):
            p[k] = SNum(k)
        return p

    def requires(self, S):
        yield from _OneStep.requires(self, S)
        op, g = S.a['operator'], S.a['initial_guess']
        d = zi(op.order)
        yield 'guess', z3.And(zi(g.order) == d, same_ints(g.row_dims, op.col_dims, d), FA(0, d, lambda j: lst_get(g.col_dims, j) == 1), boundary_one(g))
        yield 'repeats>=0', zi(S.a['repeats']) >= 0

    def ensures(self, S, res):
        ok = isinstance(res, tuple) and len(res) == 2 and isinstance(res[0], SList) and res[0].kind == 'ttref' and isinstance(res[1], SList)
        yield 'returns-(solution,time_steps)', ok
        if ok:
            sol, ts = res
            n = zi(sol.len_term())
            yield 'one-time-point-per-state', zi(ts.len_term()) == n
            yield from (('trajectory:' + a, b) for a, b in trajectory(self, sol, n, S.o['initial_value'], S.mark0, None))
            yield 'time-list-fresh', ts.ref >= S.mark0

    def canary(self, S, res):
        return zi(res[0].len_term()) == 0 if isinstance(res, tuple) else None

    def invariant(self, key, inst):
        me = self
        if key != self.KEY:
            return None

        def inv(V, _i, _k):
            sol, ts = V['solution'], V['time_steps']
            yield from trajectory(me, sol, zi(sol.len_term()), V.old('initial_value'), V.mark0, V.state.mark)
            yield 'time_steps', z3.And(zi(ts.len_term()) == zi(sol.len_term()), ts.ref >= V.mark0, ts.ref != sol.ref)
            # the time list is allocated before any produced state: appending to it cannot touch a stored state
            yield 'states-allocated-after-time-list', FA(1, zi(sol.len_term()), lambda j: heap.BOT(heap.ref_at(sol, j)) > ts.ref)
            t, op = V['t_tmp'], V.old('operator')
            d = zi(op.order)
            from vt.e1.contract import valid
            yield 'guess', z3.And(zi(t.order) == d, valid(t), same_ints(t.row_dims, op.col_dims, d), FA(0, d, lambda j: lst_get(t.col_dims, j) == 1), boundary_one(t))
        return inv


# ----------------------------------------------------------------------------------------------------------------------
# Krylov method (C11): Lanczos basis kept in a list of tensor trains

@register
class Krylov(Contract):
    name, func, file, cls = 'fn:krylov', 'krylov', FILE, None
    props = ('C11',)
    uses_heap = True
    list_kinds = {'krylov_tensors': 'ttref'}
    K1, K2 = 'i in range(1, dimension)', 'j in range(1, dimension)'
    loop_ordinals = {0: K1, 1: K2}

    def instances(self):
        return [{'normalize': 0}, {'normalize': 1}, {'normalize': 2}]

    def quick_instances(self):
        return [{'normalize': 0}, {'normalize': 2}]

    def defaults(self):
        return {'threshold': SNum('thr', nonneg=z3.BoolVal(True)), 'max_rank': 50, 'normalize': 0}

    def state_pred(self, ref, state):
        return state_ok(ref, state.old['operator'])

    def on_scalar_product(self, ex, state, left, right, line):
        ct = left.__dict__.get('conjT')
        ex.ctx.oblige(state, 'sesquilinear-inner-product', line, z3.BoolVal(ct is True),
                      'the bra of this inner product is %s' % ('a plain (not conjugated) transpose' if ct is False else 'not a conjugate transpose'))

    def setup(self, ex, state, inst):
        m0 = ex.ctx.mark0
        op = mk_tt(state, 'operator', m0)
        init = mk_tt(state, 'initial_value', m0, order=op.order)
        mr = fresh('max_rank')      # a finite cap: the code computes 2 * max_rank
        return {'operator': op, 'initial_value': init, 'dimension': fresh('dimension'), 'step_size': SNum('step_size'),
                'threshold': SNum('threshold', nonneg=z3.BoolVal(True)), 'max_rank': mr, 'normalize': inst['normalize']}

    def domain_extra(self, S):
        mr = S.a.get('max_rank')
        if isinstance(mr, (SMaxRank, SInf)):
            raise Unsupported('krylov with a non-integer max_rank')
        yield 'max_rank>=1', zi(mr) >= 1

    def requires(self, S):
        op, x = S.a['operator'], S.a['initial_value']
        d = zi(op.order)
        yield 'orders-equal', zi(x.order) == d
        yield 'square-operator', square(op)
        yield 'dims-match', z3.And(same_ints(x.row_dims, op.col_dims, d), FA(0, d, lambda j: lst_get(x.col_dims, j) == 1))
        yield 'boundary-ranks-1', z3.And(boundary_one(op), boundary_one(x))
        yield 'distinct-operands', op.ref != x.ref
        # derived from the code: T[0, 0] is written before any check
        yield 'dimension>=1', zi(S.a['dimension']) >= 1
        jx = fresh('jx')
        yield 'state-dimension>=2', z3.Exists([jx], z3.And(0 <= jx, jx < d, lst_get(x.row_dims, jx) >= 2))

    def ensures(self, S, res):
        from vt.e1.contract import valid
        x0 = S.o['initial_value']
        d = zi(x0.order)
        yield 'returns-TT', isinstance(res, STT)
        if isinstance(res, STT):
            yield 'order-and-dims', z3.And(zi(res.order) == d, same_ints(res.row_dims, x0.row_dims, d), FA(0, d, lambda j: lst_get(res.col_dims, j) == 1))
            yield 'boundary-ranks-1', boundary_one(res)
            yield 'result-fresh', z3.And(meta_fresh(res, S.mark0), cores_fresh(res, S.mark0))

    def canary(self, S, res):
        return zi(res.order) == zi(S.o['initial_value'].order) + 1 if isinstance(res, STT) else None

    def invariant(self, key, inst):
        me = self

        def vec_like(t, op):
            from vt.e1.contract import valid
            d = zi(op.order)
            return z3.And(zi(t.order) == d, valid(t), same_ints(t.row_dims, op.row_dims, d), FA(0, d, lambda j: lst_get(t.col_dims, j) == 1), boundary_one(t))

        def basis(V, n):
            kt = V['krylov_tensors']
            yield from trajectory(me, kt, n, V.old('initial_value'), V.mark0, V.state.mark)

        def inv1(V, i, k):
            op = V.old('operator')
            yield from basis(V, zi(i))
            w = V['w_tmp']
            yield 'w_tmp', z3.And(vec_like(w, op), meta_fresh(w, V.mark0), cores_fresh(w, V.mark0))
            T = V['T']
            dim = zi(V.old('dimension'))
            yield 'T', z3.And(T.shape[0] == dim, T.shape[1] == dim, T.buf >= V.mark0, T.cplx)
            # the Lanczos matrix is allocated before any basis vector is produced: writing T cannot touch a stored vector
            kt = V['krylov_tensors']
            yield 'basis-allocated-after-T', FA(1, zi(i), lambda j: heap.BOT(heap.ref_at(kt, j)) > T.buf)

        def inv2(V, j, k):
            op = V.old('operator')
            dim = zi(V.old('dimension'))
            yield from basis(V, dim)
            sol, kt = V['solution'], V['krylov_tensors']
            yield 'solution', z3.And(vec_like(sol, op), meta_fresh(sol, V.mark0), cores_fresh(sol, V.mark0))
            # the accumulated sum is younger than every basis vector: orthonormalising it in place cannot touch the basis
            yield 'solution-younger-than-basis', FA(0, dim, lambda j: z3.And(*[x >= heap.TOP(heap.ref_at(kt, j)) for x in (sol.ref, sol.row_dims.ref, sol.col_dims.ref, sol.ranks.ref, sol.cores.ref)],
                                                                                FA(0, zi(sol.order), lambda q: lst_get(sol.cores, q).buf >= heap.TOP(heap.ref_at(kt, j)))))
            w = V['w_tmp']
            yield 'coefficients', z3.And(w.shape[0] == dim)
        return {self.K1: inv1, self.K2: inv2}.get(key)
