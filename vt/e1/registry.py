"""E1 task registry: which contracts are verified for which property, and the pool task that verifies one function."""
from vt.core import Ob, OK, FAIL, UNDEC, ERR


def all_contracts():
    from vt.e1 import tt_contracts
    reg = dict(tt_contracts.REG)
    from vt.e1 import sle_contracts, ode_contracts, ode1_contracts, split_contracts, evp_contracts, dd_contracts, arr_contracts
    for m in (sle_contracts, ode_contracts, ode1_contracts, split_contracts, evp_contracts, dd_contracts, arr_contracts):
        dup = set(reg) & set(m.REG)
        if dup:
            raise RuntimeError('duplicate contract names: %s' % sorted(dup))
        reg.update(m.REG)
    return reg


def tasks_for(pid, tier, seed):
    out = []
    reg = all_contracts()
    if pid == 'C06':
        out.append(('vt.lemmas.lown', 'run', {'backend': 'E1', 'pid': pid, 'lemma': 'L-own'}))
        out.append(('vt.lemmas.leanprod', 'run', {'backend': 'E1', 'pid': pid, 'lemma': 'L-prod (Lean)'}))
    for name, c in sorted(reg.items()):
        if pid not in c.props or not c.verify:
            continue
        insts = c.instances()
        if tier == 'quick' and hasattr(c, 'quick_instances'):
            insts = c.quick_instances()         # the thorough tier verifies every instance
        for inst in insts:
            out.append(('vt.e1.registry', 'run_contract', {'backend': 'E1', 'pid': pid, 'contract': name, 'inst': inst}))
    return out


def run_contract(case):
    from vt.e1.contract import verify_function
    reg = all_contracts()
    c = reg[case['contract']]
    pid = case['pid']
    res = verify_function(c, case['inst'], reg)
    fname = '%s[%s]' % (c.name, res['inst'])
    obs = []
    if res.get('unsupported'):
        status = ERR if res.get('engine_error') else UNDEC
        obs.append(Ob('%s/E1:%s/verified-subset' % (pid, fname), 'E1', status, sig=fname, detail=res['unsupported'], case=case))
        for o in res.get('obligations') or []:
            if o['status'] == FAIL:
                obs.append(Ob('%s/E1:%s/%s' % (pid, fname, o['name']), 'E1', FAIL, sig=fname, detail=(o['detail'] or '') + ' [ast %s]' % res['hash'], case=case, t=o['t'],
                              native={'reproduced': False}))
        return obs
    if not res['obligations']:
        obs.append(Ob('%s/E1:%s/obligations-generated' % (pid, fname), 'E1', UNDEC, sig=fname, detail='zero obligations (vacuity guard)', case=case))
        return obs
    for o in res['obligations']:
        obs.append(Ob('%s/E1:%s/%s' % (pid, fname, o['name']), 'E1', o['status'], sig=fname,
                      detail=(o['detail'] or '') + ' [ast %s]' % res['hash'], case=case, t=o['t'],
                      native={'reproduced': False} if o['status'] == FAIL else None))
    return obs
