"""call dispatch of the E1 executor: builtins, NumPy/SciPy contract table, list/array methods, sidecar contracts"""
import ast
import z3
from vt.e1.values import (SIndexSet, SArr, SList, STT, SNum, SMaxRank, SInf, INF, SNone, NONE, SOpt, SFunc, SModule, SExc, Unsupported,
                          fresh, zi, zb, as_conc, is_conc_int, val_ite)
from vt.e1 import npmodel
from vt.e1.values import is_tag, dtype_cplx, SDType, SArrN


def kwargs_of(ex, node, state):
    kw = {}
    for k in node.keywords:
        if k.arg is None:
            raise Unsupported('**kwargs at line %d' % node.lineno)
        kw[k.arg] = ex.ev(k.value, state)
    return kw


def call(ex, node, state):
    line = node.lineno
    f = node.func
    # ---- builtins by name ---------------------------------------------------------------------------------------------
    if isinstance(f, ast.Name):
        nm = f.id
        if nm == 'isinstance':
            return isinstance_(ex, ex.ev(node.args[0], state), ex.ev(node.args[1], state), line)
        if nm == 'len':
            v = ex.ev(node.args[0], state)
            if isinstance(v, SList):
                return v.length
            if isinstance(v, tuple):
                return len(v)
            if isinstance(v, SArr):
                return v.shape[0]
            raise Unsupported('len of %s at line %d' % (type(v).__name__, line))
        if nm in ('print', 'str', 'repr'):
            for a in node.args:
                ex.ev(a, state)
            return 'str'
        if nm == 'int':
            v = ex.ev(node.args[0], state)
            if is_conc_int(v) or isinstance(v, z3.ArithRef):
                return v
            if is_tag(v, 'intquot'):
                return v[1]
            raise Unsupported('int() of %s at line %d' % (type(v).__name__, line))
        if nm in ('max', 'min') and len(node.args) == 2 and not node.keywords:
            a, b = ex.ev(node.args[0], state), ex.ev(node.args[1], state)
            if (is_conc_int(a) or isinstance(a, z3.ArithRef)) and (is_conc_int(b) or isinstance(b, z3.ArithRef)):
                if is_conc_int(a) and is_conc_int(b):
                    return max(a, b) if nm == 'max' else min(a, b)
                return z3.If(zi(a) >= zi(b), zi(a), zi(b)) if nm == 'max' else z3.If(zi(a) <= zi(b), zi(a), zi(b))
            raise Unsupported('%s() of non-integers at line %d' % (nm, line))
        if nm in ('all', 'any'):
            v = ex.ev(node.args[0], state)
            return all_any(ex, state, v, nm, line)
        if nm == 'list':
            v = ex.ev(node.args[0], state)
            if isinstance(v, SList):
                c = v.snapshot()
                c.ref = zi(state.alloc())
                return c
            if isinstance(v, tuple):
                return SList(state.alloc(), None, items=list(v))
            raise Unsupported('list() of %s at line %d' % (type(v).__name__, line))
        if nm == 'range':
            raise Unsupported('range object outside a loop at line %d' % line)
        if nm == 'expm_multiply':
            a, v = npmodel.need_rank(ex, state, ex.ev(node.args[0], state), line), npmodel.need_rank(ex, state, ex.ev(node.args[1], state), line)
            if len(a.shape) != 2 or len(v.shape) != 1:
                raise Unsupported('expm_multiply with unexpected ranks at line %d' % line)
            ex.ctx.oblige(state, 'expm-square', line, a.shape[0] == a.shape[1], 'expected a square matrix')
            ex.ctx.oblige(state, 'expm-shape', line, a.shape[1] == v.shape[0], 'shapes of matrix and vector are not compatible')
            return npmodel.new_arr(state, [v.shape[0]], z3.simplify(z3.Or(a.cplx, v.cplx)))
        if nm == 'Object' and not node.args:
            from vt.e1.values import SObj
            return SObj(state.alloc())
        if nm == 'TT':
            args = [ex.ev(a, state) for a in node.args]
            return call_contract(ex, state, 'TT.__init__', [None] + args, kwargs_of(ex, node, state), line)
        v = state.env.get(nm)
        if isinstance(v, SFunc):
            return inline(ex, state, v, [ex.ev(a, state) for a in node.args], kwargs_of(ex, node, state), line)
        if ('fn:' + nm) in ex.ctx.registry:
            return call_contract(ex, state, 'fn:' + nm, [ex.ev(a, state) for a in node.args], kwargs_of(ex, node, state), line)
        raise Unsupported('call of %s at line %d' % (nm, line))
    if (isinstance(f, ast.Attribute) and f.attr == 'array' and isinstance(f.value, ast.Name) and f.value.id == 'np' and len(node.args) == 1
            and not node.keywords and isinstance(node.args[0], ast.ListComp) and isinstance(node.args[0].elt, ast.ListComp)):
        return array_of_nested_comprehension(ex, state, node.args[0], line)
    fv = ex.ev(f, state)
    args = [ex.ev(a, state) for a in node.args]
    kw = kwargs_of(ex, node, state)
    from vt.e1.values import SBasisFn
    if isinstance(fv, SBasisFn):
        # A-basis: psi(x) for a vector x of the state dimension is one real number
        x = npmodel.need_rank(ex, state, args[0], line) if len(args) == 1 and not kw else None
        if not isinstance(x, SArr) or len(x.shape) != 1:
            raise Unsupported('basis function called with something else than one vector at line %d' % line)
        ex.ctx.oblige(state, 'basis-function-argument', line, x.shape[0] == zi(fv.dim), 'a basis function is evaluated on a vector that is not a state (one column of the data matrix)')
        return SNum('psi', cplx=z3.BoolVal(False))
    if is_tag(fv, 'modfunc'):
        return modfunc(ex, state, fv[1], fv[2], args, kw, line)
    if is_tag(fv, 'method'):
        return method(ex, state, fv[1], fv[2], args, kw, line, node)
    if is_tag(fv, 'ttfunc'):
        return call_contract(ex, state, 'TT.' + fv[1], args, kw, line)
    raise Unsupported('call of %s at line %d' % (ast.unparse(f), line))


def lst_get_(l, j):
    from vt.e1.contract import lst_get
    return lst_get(l, j)


def array_of_nested_comprehension(ex, state, comp, line):
    """np.array([[e(k, j) for j in range(m)] for k in range(n)]) with a scalar e: an (n, m) array.  The element expression is
    evaluated once for generic indices 0 <= k < n, 0 <= j < m, so its obligations (index bounds, arguments of the basis
    functions) are proved for every entry.  The ghost role of an axis is the role of the (one) axis or list its index variable
    is used to index."""
    from vt.e1.values import index_roles_of
    inner = comp.elt
    gens = []
    for c in (comp, inner):
        if len(c.generators) != 1 or c.generators[0].ifs or not isinstance(c.generators[0].target, ast.Name):
            raise Unsupported('nested comprehension at line %d' % line)
        g = c.generators[0]
        if not (isinstance(g.iter, ast.Call) and isinstance(g.iter.func, ast.Name) and g.iter.func.id == 'range' and len(g.iter.args) == 1 and not g.iter.keywords):
            raise Unsupported('nested comprehension over something else than range(n) at line %d' % line)
        gens.append(g)
    n = zi(ex.ev(gens[0].iter.args[0], state))
    sub = state.clone()
    K = fresh(gens[0].target.id)
    sub.env[gens[0].target.id] = K
    sub.assume(z3.And(K >= 0, K < n))
    m = zi(ex.ev(gens[1].iter.args[0], sub))
    if any(t.eq(K) for t in _consts(m)):
        raise Unsupported('ragged nested comprehension at line %d' % line)
    J = fresh(gens[1].target.id)
    sub.env[gens[1].target.id] = J
    sub.assume(z3.And(J >= 0, J < m))
    m0 = sub.mark
    e = ex.ev(inner.elt, sub)
    if not z3.simplify(zi(sub.mark) == zi(m0)).eq(z3.BoolVal(True)):
        raise Unsupported('nested comprehension whose element allocates at line %d' % line)
    if isinstance(e, SNum):
        cx = e.cplx
    elif is_conc_int(e) or isinstance(e, (float, z3.ArithRef)):
        cx = z3.BoolVal(False)
    else:
        raise Unsupported('nested comprehension of %s at line %d' % (type(e).__name__, line))
    # np.array([]) of an empty outer list is one-dimensional: the two-dimensional reading needs at least one row
    ex.ctx.oblige(state, 'array-of-rows-nonempty', line, n >= 1, 'np.array of an empty list of rows is not a matrix')
    res = npmodel.new_arr(state, [n, z3.If(m > 0, m, z3.IntVal(0))], cx)
    rk, rj = index_roles_of(K), index_roles_of(J)
    if len(rk) == 1 and len(rj) == 1:
        npmodel.set_roles(res, [next(iter(rk)), next(iter(rj))])
    return res


def _consts(t):
    seen, todo, out = set(), [t], []
    while todo:
        x = todo.pop()
        if x.get_id() in seen:
            continue
        seen.add(x.get_id())
        if z3.is_const(x) and x.decl().kind() == z3.Z3_OP_UNINTERPRETED:
            out.append(x)
        todo.extend(x.children())
    return out


def isinstance_(ex, v, t, line):
    ts = t if (isinstance(t, tuple) and t and not isinstance(t[0], str)) else (t,)
    names = set()
    for x in ts:
        if is_tag(x, 'type'):
            names.add(x[1])
        elif is_tag(x, 'TTclass'):
            names.add('TT')
        elif is_tag(x, 'modfunc') and x[2] == 'ndarray':
            names.add('ndarray')
        else:
            raise Unsupported('isinstance against %r at line %d' % (x, line))
    intlike = names & {'int', 'np.int32', 'np.int64'}
    if isinstance(v, SList):
        return 'list' in names
    if isinstance(v, (SArr, SArrN)):
        return 'ndarray' in names
    if isinstance(v, STT):
        return 'TT' in names
    if isinstance(v, bool):
        return bool(intlike) or 'bool' in names
    if is_conc_int(v) or isinstance(v, z3.ArithRef):
        return bool(intlike)
    if isinstance(v, SMaxRank):
        return z3.Not(v.is_inf) if intlike else (v.is_inf if 'float' in names else False)
    if isinstance(v, SInf):
        return 'float' in names
    if isinstance(v, SNum):
        return bool(names & {'float', 'int', 'complex', 'np.float64', 'np.float32'})
    if isinstance(v, (SNone, str)):
        return 'str' in names and isinstance(v, str)
    raise Unsupported('isinstance of %s at line %d' % (type(v).__name__, line))


def all_any(ex, state, v, which, line):
    from vt.e1.symexec import FA
    if not isinstance(v, SList):
        raise Unsupported('%s() of %s at line %d' % (which, type(v).__name__, line))
    if v.items is not None:
        vals = [ex.truth(x, state) for x in v.items]
        if all(isinstance(x, bool) for x in vals):
            return all(vals) if which == 'all' else any(vals)
        vals = [zb(x) for x in vals]
        return z3.And(*vals) if which == 'all' else z3.Or(*vals)
    f, n = v.fn, zi(v.length)
    if which == 'all':
        return FA(0, n, lambda j: zb(ex.truth(f(j), state)))
    return z3.Not(FA(0, n, lambda j: z3.Not(zb(ex.truth(f(j), state)))))


def inline(ex, state, fn, args, kw, line):
    """nested function (no loops): executed in place with its own local environment"""
    node = fn.node
    names = [a.arg for a in node.args.args]
    env = dict(state.env)
    saved = state.env
    for n, v in zip(names, args):
        env[n] = v
    env.update(kw)
    state.env = env
    outs = ex.exec_block(node.body, state)
    rets = [o for o in outs if o.kind == 'return']
    if len(outs) != 1 or len(rets) != 1:
        raise Unsupported('nested function with several outcomes at line %d' % line)
    rets[0].state.env = saved
    return rets[0].value


def shape_arg(args):
    """numpy shape argument: a list/tuple of ints or separate ints"""
    if len(args) == 1 and isinstance(args[0], (SList, tuple, list)):
        a = args[0]
        if isinstance(a, SList):
            if a.items is None:
                raise Unsupported('shape list of symbolic length')
            return list(a.items)
        return list(a)
    return list(args)


def modfunc(ex, state, mod, name, args, kw, line):
    ctx = ex.ctx
    if mod == 'utl' and ('fn:' + name) in ctx.registry:
        return call_contract(ex, state, 'fn:' + name, args, kw, line)
    if mod in ('utl', '_time', 'time'):
        return SNum('t')
    if mod == 'np.random' and name == 'rand':
        for x in args:
            ctx.oblige(state, 'nonneg-dimension', line, zi(x) >= 0, 'negative dimensions are not allowed')
        return npmodel.new_arr(state, list(args), False)
    if mod == 'math' and name == 'factorial':
        n = args[0]
        ctx.oblige(state, 'factorial-domain', line, zi(n) >= 0, 'math.factorial of a negative number raises ValueError')
        return SNum('factorial', nonzero=z3.BoolVal(True), nonneg=z3.BoolVal(True))
    if mod in ('tt', 'sle') and ('fn:' + name) in ctx.registry:
        return call_contract(ex, state, 'fn:' + name, args, kw, line)
    if mod == 'np.linalg' and name == 'norm':
        return SNum('norm', nonneg=z3.BoolVal(True))
    if mod in ('lin', 'linalg', 'sp.linalg', 'splin') and name in ('eig', 'eigh', 'eigs'):
        a = npmodel.need_rank(ex, state, args[0], line)
        if len(a.shape) != 2:
            raise Unsupported('%s of a non-matrix at line %d' % (name, line))
        n = a.shape[0]
        ctx.oblige(state, 'eig-square', line, a.shape[0] == a.shape[1], 'expected a square matrix')
        b = kw.get('b', kw.get('M'))
        if isinstance(b, SOpt):
            raise Unsupported('Optional second matrix of %s at line %d' % (name, line))
        if isinstance(b, SArr):
            b = npmodel.need_rank(ex, state, b, line)
            ctx.oblige(state, 'eig-second-matrix-shape', line, z3.And(b.shape[0] == n, b.shape[1] == n) if len(b.shape) == 2 else False,
                       'the second matrix of a generalized eigenvalue problem must have the shape of the first')
        if kw.get('overwrite_a') is True:
            ex.write_buffer(a.buf, state, line, 'LAPACK overwrite_a=True')
        if kw.get('overwrite_b') is True and isinstance(b, SArr):
            ex.write_buffer(b.buf, state, line, 'LAPACK overwrite_b=True')
        if name == 'eig':
            k, cx = n, z3.BoolVal(True)
        elif name == 'eigh':
            sub = kw.get('subset_by_index')
            if sub is None:
                k = n
            else:
                lo, hi = (sub.items if isinstance(sub, SList) else sub)
                ctx.oblige(state, 'eigh-subset', line, z3.And(zi(lo) >= 0, zi(lo) <= zi(hi), zi(hi) < n), 'subset_by_index must satisfy 0 <= lo <= hi < n')
                k = z3.simplify(zi(hi) - zi(lo) + 1)
            cx = a.cplx
        else:
            k = zi(kw.get('k', 6))
            # ARPACK: 0 < k < n - 1 for a dense non-symmetric problem
            ctx.oblige(state, 'eigs-k-range', line, z3.And(k >= 1, k < n - 1), 'scipy.sparse.linalg.eigs needs 0 < k < n - 1')
            v0 = kw.get('v0')
            if isinstance(v0, SArr):
                ctx.oblige(state, 'eigs-v0-shape', line, v0.shape[0] == n if len(v0.shape) == 1 else False, 'starting vector has the wrong length')
            cx = z3.BoolVal(True)
        w = npmodel.new_arr(state, [k], False if name == 'eigh' else True)
        v = npmodel.new_arr(state, [n, k], cx)
        return SList(state.alloc(), None, items=[w, v])
    if mod in ('linalg', 'lin', 'sp.linalg') and name == 'expm':
        a = npmodel.need_rank(ex, state, args[0], line)
        if len(a.shape) != 2:
            raise Unsupported('expm of a non-matrix at line %d' % line)
        ctx.oblige(state, 'expm-square', line, a.shape[0] == a.shape[1], 'expected a square matrix')
        return npmodel.new_arr(state, list(a.shape), a.cplx)
    if mod in ('linalg', 'lin', 'sp.linalg') and name == 'svd':
        return SList(state.alloc(), None, items=list(npmodel.svd(ex, state, args[0], kw.get('full_matrices', True), kw.get('overwrite_a', False) is True, line)))
    if mod in ('linalg', 'lin') and name in ('qr', 'rq'):
        return qr_rq(ex, state, name, args[0], kw, line)
    if mod in ('linalg', 'lin') and name == 'lstsq':
        # scipy.linalg.lstsq(a, b): x (N,) or (N, K) minimising |a x - b|, residues, rank, singular values
        a, b = npmodel.need_rank(ex, state, args[0], line), npmodel.need_rank(ex, state, args[1], line)
        if len(a.shape) != 2 or len(b.shape) not in (1, 2):
            ex.ctx.oblige(state, 'lstsq-rank', line, False, 'lstsq expects a matrix and a vector or matrix')
            raise Unsupported('lstsq with unexpected ranks at line %d' % line)
        ex.ctx.oblige(state, 'lstsq-shape', line, a.shape[0] == b.shape[0], 'shape mismatch: a and b should have the same number of rows')
        # LAPACK gelss/gelsd on an empty matrix raises
        ex.ctx.oblige(state, 'lstsq-nonempty', line, z3.And(a.shape[0] >= 1, a.shape[1] >= 1), 'lstsq of an empty matrix')
        if kw.get('overwrite_a') is True:
            ex.write_buffer(a.buf, state, line, 'LAPACK overwrite_a=True')
        if kw.get('overwrite_b') is True:
            ex.write_buffer(b.buf, state, line, 'LAPACK overwrite_b=True')
        cx = z3.simplify(z3.Or(a.cplx, b.cplx))
        x = npmodel.new_arr(state, [a.shape[1]] + list(b.shape[1:]), cx)
        ra, rb = npmodel.roles_of(a), npmodel.roles_of(b)
        if ra is not None and rb is not None:
            # the rows of the system are summed over in the normal equations: they must be the same kind of leg
            ex.ctx.oblige(state, 'sesquilinear-structure', line, z3.BoolVal(ra[0] is None or rb[0] is None or ra[0] == rb[0]),
                          'lstsq: the rows of the matrix (%s) and of the right-hand side (%s) are different legs' % (ra[0], rb[0]))
        if ra is not None:
            npmodel.set_roles(x, [npmodel.dual_role(ra[1])] + (list(rb[1:]) if rb is not None else [None] * (len(b.shape) - 1)))
        kmin = fresh('k')
        state.assume(kmin == z3.If(a.shape[0] < a.shape[1], a.shape[0], a.shape[1]))
        nres = fresh('nres')
        state.assume(z3.And(nres >= 0, nres <= 1) if len(b.shape) == 1 else z3.And(nres >= 0, nres <= b.shape[1]))
        return SList(state.alloc(), None, items=[x, npmodel.new_arr(state, [nres], False), fresh('rank'), npmodel.new_arr(state, [kmin], False)])
    if (mod == 'np.linalg' and name == 'solve') or (mod in ('lin', 'linalg') and name == 'solve'):
        a, b = npmodel.need_rank(ex, state, args[0], line), npmodel.need_rank(ex, state, args[1], line)
        if len(a.shape) != 2 or len(b.shape) != 2:
            raise Unsupported('solve with non-matrix arguments at line %d' % line)
        ex.ctx.oblige(state, 'solve-square', line, a.shape[0] == a.shape[1], 'coefficient matrix must be square')
        ex.ctx.oblige(state, 'solve-shape', line, a.shape[0] == b.shape[0], 'right-hand side does not match the matrix')
        if kw.get('overwrite_a') is True:
            ex.write_buffer(a.buf, state, line, 'LAPACK overwrite_a=True')
        if kw.get('overwrite_b') is True:
            ex.write_buffer(b.buf, state, line, 'LAPACK overwrite_b=True')
        return npmodel.new_arr(state, list(b.shape), z3.simplify(z3.Or(a.cplx, b.cplx)))
    if mod in ('lin', 'linalg') and name == 'lu_factor':
        a = npmodel.need_rank(ex, state, args[0], line)
        ex.ctx.oblige(state, 'solve-square', line, a.shape[0] == a.shape[1], 'coefficient matrix must be square')
        if kw.get('overwrite_a') is True:
            ex.write_buffer(a.buf, state, line, 'LAPACK overwrite_a=True')
        return ('lu', a)
    if mod in ('lin', 'linalg') and name == 'lu_solve':
        lu, b = args[0], npmodel.need_rank(ex, state, args[1], line)
        if not is_tag(lu, 'lu'):
            raise Unsupported('lu_solve argument at line %d' % line)
        ex.ctx.oblige(state, 'solve-shape', line, lu[1].shape[0] == b.shape[0], 'right-hand side does not match the matrix')
        if kw.get('overwrite_b') is True:
            ex.write_buffer(b.buf, state, line, 'LAPACK overwrite_b=True')
        return npmodel.new_arr(state, list(b.shape), z3.simplify(z3.Or(lu[1].cplx, b.cplx)))
    if mod != 'np':
        raise Unsupported('call of %s.%s at line %d' % (mod, name, line))
    if name in ('zeros', 'ones', 'empty'):
        shp = shape_arg(args[:1])
        dt = kw.get('dtype', args[1] if len(args) > 1 else None)
        cx = False
        if dt is not None and not isinstance(dt, SNone):
            cx = dtype_cplx(dt)
            if cx is None:
                raise Unsupported('dtype %r at line %d' % (dt, line))
        for s in shp:
            ctx.oblige(state, 'nonneg-dimension', line, zi(s) >= 0, 'negative dimensions are not allowed')
        return npmodel.new_arr(state, shp, cx)
    if name == 'eye':
        n = args[0]
        m = args[1] if len(args) > 1 else n
        return npmodel.new_arr(state, [n, m], False)
    if name == 'arange':
        if len(args) == 1:
            lo, hi = 0, args[0]
        else:
            lo, hi = args[0], args[1]
        step = as_conc(args[2]) if len(args) > 2 else 1
        if step is None or step < 1:
            raise Unsupported('arange with a symbolic or non-positive step at line %d' % line)
        n = z3.If(zi(hi) > zi(lo), (zi(hi) - zi(lo) + (step - 1)) / step, z3.IntVal(0))
        a = npmodel.new_arr(state, [z3.simplify(n)], False, kind='int')
        a.ubound = hi
        a.is_prefix = as_conc(lo) == 0 and step == 1
        a.arange = (zi(lo), zi(hi), step)        # iterating over the array visits lo, lo + step, ... (< hi)
        return a
    if name == 'all':
        v = args[0]
        if isinstance(v, SList):
            return all_any(ex, state, v, 'all', line)
        if isinstance(v, (bool, z3.BoolRef)):
            return v
        raise Unsupported('np.all of %s at line %d' % (type(v).__name__, line))
    if name == 'iscomplexobj':
        v = args[0]
        if isinstance(v, SArr):
            return v.cplx
        if isinstance(v, SNum):
            return v.cplx
        raise Unsupported('iscomplexobj of %s at line %d' % (type(v).__name__, line))
    if name == 'mod':
        return ex.binop(ast.Mod(), args[0], args[1], state, line)
    if name == 'minimum' or name == 'amin' and len(args) == 2:
        a, b = args
        if isinstance(a, SNum) or isinstance(b, SNum):
            return SNum('min')
        if isinstance(b, SMaxRank) or isinstance(a, SMaxRank):
            mr, o = (b, a) if isinstance(b, SMaxRank) else (a, b)
            return z3.If(mr.is_inf, zi(o), z3.If(zi(o) < mr.val, zi(o), mr.val))
        return z3.If(zi(a) < zi(b), zi(a), zi(b))
    if name in ('amin', 'min') and len(args) == 1 and isinstance(args[0], SList) and args[0].items is not None:
        items = args[0].items
        r = items[0]
        for x in items[1:]:
            r = modfunc(ex, state, 'np', 'minimum', [r, x], {}, line)
        return r
    if name == 'argsort':
        o = npmodel.need_rank(ex, state, args[0], line)
        if len(o.shape) != 1:
            raise Unsupported('np.argsort of a non-vector at line %d' % line)
        r = npmodel.new_arr(state, [o.shape[0]], False, kind='int')
        r.ubound = o.shape[0]          # a permutation of range(n)
        return r
    if name == 'einsum':
        return npmodel.einsum(ex, state, args[0], list(args[1:]), line)
    if name == 'kron':
        a, b = npmodel.need_rank(ex, state, args[0], line), npmodel.need_rank(ex, state, args[1], line)
        if len(a.shape) != 2 or len(b.shape) != 2:
            raise Unsupported('kron of non-matrices at line %d' % line)
        return npmodel.new_arr(state, [a.shape[0] * b.shape[0], a.shape[1] * b.shape[1]], z3.simplify(z3.Or(a.cplx, b.cplx)))
    if name == 'tensordot':
        return npmodel.tensordot(ex, state, args[0], args[1], kw.get('axes', args[2] if len(args) > 2 else 2), line)
    if name == 'transpose' and isinstance(args[0], SArrN):
        # axes of symbolic number: only length and range of the axes list are checked (that it is a permutation is assumed)
        a0, axes = args[0], args[1] if len(args) > 1 else kw.get('axes')
        if isinstance(axes, SList):
            from vt.e1.symexec import FA
            ctx.oblige(state, 'transpose-axes', line, z3.And(axes.len_term() == a0.ndim, FA(0, axes.len_term(), lambda j: z3.And(zi(lst_get_(axes, j)) >= 0, zi(lst_get_(axes, j)) < a0.ndim))),
                       "axes don't match array")
        return SArrN(a0.size, a0.ndim, a0.cplx, a0.buf, None)
    if name == 'reshape' and isinstance(args[0], SArrN):
        a0 = args[0]
        shp = shape_arg(args[1:2])
        for x in shp:
            ctx.oblige(state, 'reshape-nonneg', line, zi(x) >= 0)
        for ax in getattr(a0, 'facts', lambda: [])():
            state.assume(ax, model=True)
        ctx.oblige(state, 'reshape-size', line, npmodel.prod(shp) == a0.size, 'cannot reshape array into the requested shape')
        return SArr(shp, a0.cplx, a0.buf, True, own=False)
    if name == 'transpose':
        return npmodel.transpose(ex, state, args[0], args[1] if len(args) > 1 else kw.get('axes'), line)
    if name in ('conj', 'conjugate', 'real', 'abs', 'reciprocal', 'sqrt', 'exp'):
        a = args[0]
        if isinstance(a, SArr):
            r = npmodel.conj(ex, state, a, line)
            if name in ('real', 'abs'):
                r = r.with_(cplx=z3.BoolVal(False))       # the real part / the modulus of a complex array is a real array
                npmodel.set_roles(r, npmodel.roles_of(a))
            return r
        cx = a.cplx if isinstance(a, SNum) and name not in ('real', 'abs') else z3.BoolVal(False)
        return SNum(name, cplx=cx, nonneg=z3.BoolVal(True) if name == 'abs' else None)
    if name == 'vdot':
        a, b = npmodel.need_rank(ex, state, args[0], line), npmodel.need_rank(ex, state, args[1], line)
        ctx.oblige(state, 'vdot-size', line, npmodel.prod(a.shape) == npmodel.prod(b.shape), 'cannot dot arrays of different sizes')
        return SNum('vdot', cplx=z3.simplify(z3.Or(a.cplx, b.cplx)))

    if name in ('true_divide', 'divide', 'power', 'log', 'cos', 'sin', 'floor', 'ceil') and not any(isinstance(a, SArr) for a in args):
        return SNum(name)
    if name == 'reshape':
        return npmodel.reshape(ex, state, args[0], args[1], line)
    if name == 'dot':
        return npmodel.dot(ex, state, args[0], args[1], line)
    if name == 'diag':
        return npmodel.diag(ex, state, args[0], line)
    if name == 'squeeze':
        a = args[0]
        if not all(as_conc(s) is not None for s in a.shape):
            # symbolic dims: np.squeeze removes exactly the size-1 axes -> result rank depends on data
            return ('squeezed', a)
        return SArr([s for s in a.shape if as_conc(s) != 1], a.cplx, a.buf, a.contig, own=False)
    if name == 'prod':
        return np_prod(ex, state, args[0], line)
    if name == 'isin' and isinstance(args[1], SIndexSet):
        return args[1].pred(zi(args[0]))
    if name == 'isin' and isinstance(args[1], SArr) and getattr(args[1], 'is_prefix', False) and getattr(args[1], 'ubound', None) is not None:
        return z3.And(zi(args[0]) >= 0, zi(args[0]) < zi(args[1].ubound))
    if name == 'isin':
        # membership of an index in a user-supplied index collection: an uninterpreted predicate of the index
        pred = state.env.setdefault('!isin', {})
        key = id(args[1]) if not isinstance(args[1], SArr) else 'arr%d' % id(args[1])
        if key not in pred:
            from vt.e1.values import fresh_fun
            pred[key] = fresh_fun('isin', z3.IntSort(), z3.BoolSort())
        return pred[key](zi(args[0]))
    if name == 'where':
        # np.where(s / s[0] > threshold): the kept singular values form a non-empty prefix (s descending, A-nonzero)
        c = args[0]
        if isinstance(c, SArr) and len(c.shape) == 1 and getattr(c, 'prefix_mask', False):
            k = fresh('kept')
            state.assume(z3.And(k >= 1, k <= c.shape[0]))
            idx = npmodel.new_arr(state, [k], False, kind='int')
            idx.ubound = k
            idx.is_prefix = True
            return (idx,)
        raise Unsupported('np.where at line %d' % line)
    if name == 'array':
        # only the idiom np.array([1], ndmin=k): a (1, ..., 1) array
        a0 = args[0]
        nd = as_conc(kw.get('ndmin', 1))
        if isinstance(a0, SList) and a0.items is not None and len(a0.items) == 1 and is_conc_int(a0.items[0]) and nd is not None:
            return npmodel.new_arr(state, [1] * nd, False)
        if isinstance(a0, SList) and 'ndmin' not in kw:
            # np.array(<list of numbers>): a vector of that length
            try:
                sample = a0.items[0] if a0.items else (a0.fn(z3.IntVal(0)) if a0.items is None else None)
            except Exception:
                sample = None
            if sample is None or isinstance(sample, (SNum, SInf, int, float)) or isinstance(sample, z3.ArithRef):
                return npmodel.new_arr(state, [a0.len_term()], False)
        raise Unsupported('np.array at line %d' % line)
    if name == 'sum':
        a = args[0]
        axis = kw.get('axis', args[1] if len(args) > 1 else None)
        c = as_conc(axis) if axis is not None and not isinstance(axis, SNone) else None
        if c is None:
            return SNum('sum', cplx=a.cplx)
        return npmodel.new_arr(state, [s for k, s in enumerate(a.shape) if k != c], a.cplx)
    if name in ('max', 'amax'):
        a = args[0]
        if isinstance(a, SArr) and 'axis' not in kw and len(args) == 1:
            # numpy raises ValueError for a zero-size array
            ctx.oblige(state, 'max-of-nonempty', line, z3.And(*[x >= 1 for x in npmodel.need_rank(ex, state, a, line).shape]), 'zero-size array to reduction operation maximum')
        return SNum('max')
    if name == 'vstack':
        parts = args[0].items if isinstance(args[0], SList) else list(args[0])
        rows, cols, cx = z3.IntVal(0), None, z3.BoolVal(False)
        for x in parts:
            x = npmodel.need_rank(ex, state, x, line)
            r, c = (x.shape[0], x.shape[1]) if len(x.shape) == 2 else (z3.IntVal(1), x.shape[0]) if len(x.shape) == 1 else (None, None)
            if r is None:
                raise Unsupported('vstack of arrays with more than two axes at line %d' % line)
            if cols is not None:
                ctx.oblige(state, 'vstack-shape', line, cols == c, 'all the input array dimensions except for the concatenation axis must match')
            cols = c if cols is None else cols
            rows, cx = rows + r, z3.Or(cx, x.cplx)
        return npmodel.new_arr(state, [z3.simplify(rows), cols], z3.simplify(cx))
    if name == 'append':
        a, b = args[0], args[1]
        axis = as_conc(kw.get('axis'))
        if axis is None:
            raise Unsupported('np.append without axis at line %d' % line)
        for k in range(len(a.shape)):
            if k != axis:
                ctx.oblige(state, 'append-shape', line, a.shape[k] == b.shape[k], 'all the input array dimensions except for the concatenation axis must match')
        shp = list(a.shape)
        shp[axis] = a.shape[axis] + b.shape[axis]
        return npmodel.new_arr(state, shp, z3.simplify(z3.Or(a.cplx, b.cplx)))
    raise Unsupported('np.%s at line %d' % (name, line))


def np_prod(ex, state, v, line):
    """np.prod of a list of dimensions: uninterpreted product with unfolding axioms (instantiated on demand)"""
    if isinstance(v, tuple):
        v = SList(state.alloc(), None, items=list(v))
    if not isinstance(v, SList):
        raise Unsupported('np.prod of %s at line %d' % (type(v).__name__, line))
    if v.items is not None:
        return npmodel.prod(v.items)
    so = getattr(v, 'slice_of', None)
    if so is not None and v.kind == 'int':
        return prod_range(ex, state, so[0], so[1], so[2], line)
    # symbolic length: p is uninterpreted except for what holds for every product of non-negative integers:
    #   p >= 0,  (p == 1  <=>  all factors == 1),  (p == 0  <=>  some factor == 0)
    from vt.e1.symexec import FA
    f, n = v.fn, zi(v.length)
    ex.ctx.oblige(state, 'prod-of-nonnegative-ints', line, FA(0, n, lambda j: zi(f(j)) >= 0))
    p = prod_range(ex, state, v.snapshot(), 0, n, line) if v.kind == 'int' else fresh('prod')
    state.assume(p >= 0)
    state.assume((p == 1) == FA(0, n, lambda j: zi(f(j)) == 1))
    state.assume((p >= 1) == FA(0, n, lambda j: zi(f(j)) >= 1))
    return p


_PROD_FUNS = {}
AXIOMS = []      # global axioms (definitions of uninterpreted spec functions); included in every solver query


def prod_fun(lst):
    """uninterpreted P(a, b) = prod(lst[a:b]) for one list *value* (keyed by the element function of its snapshot)"""
    key = id(lst.fn)
    if key not in _PROD_FUNS:
        from vt.e1.values import fresh_fun
        P = fresh_fun('prod', z3.IntSort(), z3.IntSort(), z3.IntSort())
        _PROD_FUNS[key] = (P, lst)
    return _PROD_FUNS[key][0]


def prod_instance(lst, a, b):
    """ground instances of the definition of P = prod(lst[a:b]) (no quantified axioms: they make sat-queries diverge)"""
    P = prod_fun(lst)
    a, b = zi(a), zi(b)
    from vt.e1.symexec import FA
    return [P(a, a) == 1, z3.Implies(b > a, P(a, b) == P(a, b - 1) * zi(lst.fn(b - 1))), z3.Implies(b <= a, P(a, b) == 1), P(a, b) >= 0,
            # lemma L-prod-pos (induction over the slice, not done by the solver): a product of positive integers is positive
            z3.Implies(FA(a, b, lambda j: zi(lst.fn(j)) >= 1), P(a, b) >= 1)]


def prod_range(ex, state, lst, a, b, line):
    """np.prod(lst[a:b]) with the unfolding axioms instantiated at the bounds that occur:
         P(a, a) = 1;   b > a  =>  P(a, b) = P(a, b-1) * lst[b-1];   P >= 1 for lists of positive dimensions (assumed from wf)"""
    P = prod_fun(lst)
    a, b = zi(a), zi(b)
    f = lst.fn
    state.assume(P(a, a) == 1)
    state.assume(z3.Implies(b > a, P(a, b) == P(a, b - 1) * zi(f(b - 1))))
    # lemma L-prod-front (same product, first factor split off; needs induction, assumed): used by code that peels modes from the front
    state.assume(z3.Implies(b > a, P(a, b) == zi(f(a)) * P(a + 1, b)))
    state.assume(z3.Implies(z3.And(a >= 1, b >= a), P(a - 1, b) == zi(f(a - 1)) * P(a, b)))
    state.assume(z3.Implies(b <= a, P(a, b) == 1))
    state.assume(P(a, b) >= 0)
    from vt.e1.symexec import FA
    state.assume(z3.Implies(FA(a, b, lambda j: zi(f(j)) >= 1), P(a, b) >= 1))      # lemma L-prod-pos
    return P(a, b)


def int_elem(ex, state, lst, j, line):
    """element j of a list used as a shape: an integer (a slot that may still hold None is obliged to be filled)"""
    v = lst_get_(lst, j)
    if isinstance(v, SOpt):
        ex.ctx.oblige(state, 'shape-entry-is-an-integer', line, v.defined, 'a shape entry is None')
        v = v.val
    if is_conc_int(v) or isinstance(v, z3.ArithRef):
        return zi(v)
    raise Unsupported('shape list with entries of type %s at line %d' % (type(v).__name__, line))


def interleave_view(lst):
    """(A, B) if the list was completely written by  lst[0::2] = A; lst[1::2] = B  (in either order)"""
    ws = lst.__dict__.get('stride_writes') or []
    if len(ws) == 2 and all(w[1] == 2 for w in ws) and {w[0] for w in ws} == {0, 1}:
        d = {w[0]: w[2] for w in ws}
        return d[0], d[1]
    return None


def reshape_to_symbolic_rank(ex, state, a, shape, line):
    """a.reshape(shape) with a shape list of symbolic length: an array of symbolic rank.  NumPy requires non-negative entries
    whose product is the size of the array; the product of the list is the uninterpreted slice product of the list value
    (prod_fun) with its unfolding instances - and, for a list interleaved from two lists, lemma L-prod-interleave:
    prod(p) = prod(p[0::2]) * prod(p[1::2])  (assumed; needs induction over the length)."""
    from vt.e1.symexec import FA
    a = npmodel.need_rank(ex, state, a, line)
    shp = shape.snapshot()
    shp.to_fn()
    n = zi(shp.len_term())
    j = fresh('j')
    sub = state.clone()
    sub.assume(z3.And(j >= 0, j < n))
    e = int_elem(ex, sub, shp, j, line)
    ex.ctx.oblige(sub, 'reshape-nonneg', line, e >= 0)
    clean = SList(state.alloc(), n, fn=lambda q, e=e, j=j: z3.substitute(e, (j, zi(q))), kind='int')
    P = prod_fun(clean)
    for ax in prod_instance(clean, 0, n):
        state.assume(ax, model=True)
    cn = as_conc(n)
    if cn is not None and cn <= 16:
        for k in range(1, cn):
            for ax in prod_instance(clean, 0, k):       # a list of known length: the definition is unfolded completely
                state.assume(ax, model=True)
    iv = interleave_view(shape)
    if iv is not None:
        A, B = iv
        la, lb = zi(A.len_term()), zi(B.len_term())
        state.assume(z3.Implies(z3.And(la == lb, n == 2 * la), P(0, n) == prod_fun(A)(0, la) * prod_fun(B)(0, lb)), model=True)      # L-prod-interleave
    ex.ctx.oblige(state, 'reshape-size', line, npmodel.prod(a.shape) == P(0, n), 'cannot reshape array into the requested shape')
    u, fb = fresh('rv', 'bool'), state.alloc()
    buf = z3.If(a.contig, a.buf, z3.If(u, a.buf, fb))
    r = SArrN(npmodel.prod(a.shape), n, a.cplx, buf, clean)
    r.contig = a.contig
    return r


def transpose_symbolic_rank(ex, state, a0, axes, line, check_permutation):
    """transpose of an array of symbolic rank: NumPy requires as many axes as the array has, each in range, none repeated.
    The result is a view whose shape list is the permuted one."""
    from vt.e1.symexec import FA
    ax = axes.snapshot()
    ax.to_fn()
    n = zi(ax.len_term())
    g = lambda j: zi(lst_get_(ax, j))       # noqa
    ex.ctx.oblige(state, 'transpose-axes', line, z3.And(n == a0.ndim, FA(0, n, lambda j: z3.And(g(j) >= 0, g(j) < a0.ndim))), "axes don't match array")
    if check_permutation:
        ex.ctx.oblige(state, 'transpose-axes-distinct', line, FA(0, n, lambda j: FA(0, n, lambda k: z3.Implies(j != k, g(j) != g(k)))), 'repeated axis in transpose')
    shp = None
    if a0.shape is not None:
        src = a0.shape
        shp = SList(state.alloc(), n, fn=lambda j, src=src: zi(lst_get_(src, g(j))), kind='int')
    r = SArrN(a0.size, a0.ndim, a0.cplx, a0.buf, shp)
    r.transposed_by = ax
    return r


def qr_rq(ex, state, name, a, kw, line):
    if kw.get('mode') != 'economic':
        raise Unsupported('%s without mode=economic at line %d' % (name, line))
    m, n = a.shape
    k = fresh('k')
    state.assume(k == z3.If(m < n, m, n))
    if kw.get('overwrite_a') is True:
        ex.write_buffer(a.buf, state, line, 'LAPACK overwrite_a=True may clobber the argument buffer')
    ro = npmodel.roles_of(a)
    if name == 'qr':
        q = npmodel.new_arr(state, [m, k], a.cplx, flags={'isocols': True})
        r = npmodel.new_arr(state, [k, n], a.cplx)
        for x in (q, r):
            x.contig = fresh('ct', 'bool')          # LAPACK results come back in Fortran or C order
        if ro is not None and not isinstance(ro[1], npmodel.MRole):
            # a = q r: the new bond is a rank leg of the same kind as the column leg it replaces
            npmodel.set_roles(q, [ro[0], ro[1]])
            npmodel.set_roles(r, [ro[1], ro[1]])
        return SList(state.alloc(), None, items=[q, r])
    r = npmodel.new_arr(state, [m, k], a.cplx)
    q = npmodel.new_arr(state, [k, n], a.cplx, flags={'isorows': True})
    for x in (q, r):
        x.contig = fresh('ct', 'bool')
    if ro is not None and not isinstance(ro[0], npmodel.MRole):
        npmodel.set_roles(q, [ro[0], ro[1]])
        npmodel.set_roles(r, [ro[0], ro[0]])
    return SList(state.alloc(), None, items=[r, q])


def method(ex, state, obj, name, args, kw, line, node):
    ctx = ex.ctx
    if isinstance(obj, STT):
        return call_contract(ex, state, 'TT.' + name, [obj] + args, kw, line)
    if isinstance(obj, SList):
        if name == 'append':
            ex.frame_list(obj, state, line)
            if obj.kind == 'ttref' and isinstance(args[0], STT):
                from vt.e1 import heap
                r = heap.freeze(ex, state, args[0], line)
                if obj.items is None:
                    args = [r]
            if obj.items is not None:
                obj.items.append(args[0])
                obj.length = len(obj.items)
            else:
                old, n, v = obj.fn, zi(obj.length), args[0]
                obj.fn = lambda j, old=old, n=n, v=v: val_ite(j == n, v, old(j))
                obj.length = z3.simplify(n + 1)
            if obj.kind == 'any' and isinstance(args[0], SArr):
                obj.kind = 'arr' if (obj.items is None or all(isinstance(x, SArr) for x in obj.items)) else 'any'
            return NONE
        if name == 'extend':
            ex.frame_list(obj, state, line)
            other = args[0]
            if not isinstance(other, SList):
                raise Unsupported('extend with %s at line %d' % (type(other).__name__, line))
            new = ex.list_concat(obj, other, state)
            obj.items, obj.fn, obj.length = new.items, new.fn, new.length
            if new.items is not None:
                obj.length = len(new.items)
            return NONE
        if name == 'reverse':
            ex.frame_list(obj, state, line)
            if obj.items is not None:
                obj.items.reverse()
            else:
                old, n = obj.fn, zi(obj.length)
                obj.fn = lambda j, old=old, n=n: old(n - 1 - j)
            return NONE
        if name == 'copy':
            c = obj.snapshot()
            c.ref = zi(state.alloc())
            return c
        raise Unsupported('list.%s at line %d' % (name, line))
    if isinstance(obj, SArr):
        if name == 'reshape' and len(args) == 1 and isinstance(args[0], SList) and args[0].items is None:
            return reshape_to_symbolic_rank(ex, state, obj, args[0], line)
        if name == 'reshape':
            return npmodel.reshape(ex, state, obj, shape_arg(args), line)
        if name == 'transpose':
            return npmodel.transpose(ex, state, obj, shape_arg(args) if args else None, line)
        if name == 'copy':
            return npmodel.copy(ex, state, obj, line)
        if name == 'dot':
            return npmodel.dot(ex, state, obj, args[0], line)
        if name in ('conj', 'conjugate'):
            return npmodel.conj(ex, state, obj, line)
        if name == 'flatten':
            return npmodel.new_arr(state, [npmodel.prod(obj.shape)], obj.cplx)
        if name == 'argsort':
            o = npmodel.need_rank(ex, state, obj, line)
            if len(o.shape) != 1:
                raise Unsupported('argsort of a non-vector at line %d' % line)
            r = npmodel.new_arr(state, [o.shape[0]], False, kind='int')
            r.ubound = o.shape[0]          # a permutation of range(n): every value is < n
            return r
        if name == 'astype':
            tgt = args[0] if args else kw.get('dtype')
            if is_tag(tgt, 'dtype') and isinstance(tgt[1], SArr):
                # x.astype(y.dtype): converting complex data to a real dtype silently drops the imaginary part
                ctx.oblige(state, 'no-complex-into-real', line, z3.Or(z3.Not(obj.cplx), tgt[1].cplx), 'astype to the dtype of a real array discards the imaginary part')
                r = npmodel.new_arr(state, obj.shape, tgt[1].cplx)
                npmodel.set_roles(r, npmodel.roles_of(obj))
                return r
            cx = dtype_cplx(tgt)
            return npmodel.new_arr(state, obj.shape, cx if cx is not None else obj.cplx)
        raise Unsupported('ndarray.%s at line %d' % (name, line))
    if isinstance(obj, SArrN):
        if name == 'copy':
            return SArrN(obj.size, obj.ndim, obj.cplx, state.alloc(), obj.shape)
        if name == 'transpose' and len(args) == 1 and isinstance(args[0], SList):
            return transpose_symbolic_rank(ex, state, obj, args[0], line, check_permutation=True)
        raise Unsupported('method %s of an array of symbolic rank at line %d' % (name, line))
    if is_tag(obj, 'squeezed'):
        if name == 'reshape':
            return npmodel.reshape(ex, state, obj[1], shape_arg(args), line)
    raise Unsupported('method %s of %s at line %d' % (name, type(obj).__name__, line))


def call_contract(ex, state, name, args, kw, line):
    ctx = ex.ctx
    c = ctx.registry.get(name)
    if c is None:
        raise Unsupported('no contract for callee %s (line %d)' % (name, line))
    return c.apply(ex, state, args, kw, line)
