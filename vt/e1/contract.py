"""Contract base class, spec helpers (wf, fresh, ...) and the per-function verification driver of E1."""
import ast
import hashlib
import os
import time
import traceback
import z3
from vt.e1.values import (SArr, SList, STT, SNum, SMaxRank, SInf, INF, SNone, NONE, SOpt, SModule, Unsupported,
                          fresh, fresh_fun, zi, zb, as_conc, is_conc_int)
from vt.e1.symexec import Ctx, State, Executor, View, FA, Obligation, sym_elem_fn

REPO = os.environ.get('VERIF_REPO', '/repo')
Z3_TIMEOUT_MS = int(os.environ.get('VERIF_Z3_TIMEOUT_MS', '20000'))


# ----------------------------------------------------------------------------------------------------------------------
# spec helpers over abstract values

def lst_get(l, j):
    if l.items is not None:
        s = l.snapshot()
        s.to_fn()
        return s.fn(zi(j))
    return l.fn(zi(j))


def core_shape_ok(c, r0, m, n, r1):
    return z3.And(zi(c.ndim) == 4, c.shape[0] == zi(r0), c.shape[1] == zi(m), c.shape[2] == zi(n), c.shape[3] == zi(r1))


def wf(t):
    """representation invariant of a TT value (metadata == shapes of the cores; lengths consistent)"""
    d = zi(t.order)
    rd, cd, rk, cs = t.row_dims, t.col_dims, t.ranks, t.cores
    return z3.And(d >= 1, zi(rd.length) == d, zi(cd.length) == d, zi(rk.length) == d + 1, zi(cs.length) == d,
                  FA(0, d, lambda j: core_shape_ok(lst_get(cs, j), lst_get(rk, j), lst_get(rd, j), lst_get(cd, j), lst_get(rk, j + 1))))


def positive_dims(t):
    d = zi(t.order)
    return z3.And(FA(0, d, lambda j: z3.And(lst_get(t.row_dims, j) >= 1, lst_get(t.col_dims, j) >= 1)),
                  FA(0, d + 1, lambda j: lst_get(t.ranks, j) >= 1))


def lists_distinct(t):
    refs = [t.row_dims.ref, t.col_dims.ref, t.ranks.ref, t.cores.ref]
    return z3.Distinct(*refs)


def fresh_id(x, mark):
    return zi(x) >= mark


def cores_fresh(t, mark):
    return FA(0, zi(t.order), lambda j: lst_get(t.cores, j).buf >= mark)


def meta_fresh(t, mark):
    return z3.And(t.row_dims.ref >= mark, t.col_dims.ref >= mark, t.ranks.ref >= mark, t.cores.ref >= mark, t.ref >= mark)


def same_ints(a, b, n):
    return FA(0, n, lambda j: lst_get(a, j) == lst_get(b, j))


def mk_int_list(state, name, length, pre_existing=True):
    ref = fresh(name + '_ref')
    l = SList(ref, length, fn=sym_elem_fn('int', state), kind='int')
    return l


def mk_tt(state, name, mark0, order=None):
    """a symbolic, well-formed, pre-existing TT parameter (all ids below the entry watermark)"""
    d = order if order is not None else fresh(name + '_order')
    rd = mk_int_list(state, name + '_rd', d)
    cd = mk_int_list(state, name + '_cd', d)
    rk = mk_int_list(state, name + '_rk', d + 1)
    cs = SList(fresh(name + '_cores_ref'), d, fn=sym_elem_fn('arr', state), kind='arr')
    t = STT(fresh(name + '_ref'), d, rd, cd, rk, cs)
    state.assume(wf(t))
    state.assume(positive_dims(t))
    state.assume(lists_distinct(t))
    for r in (t.ref, rd.ref, cd.ref, rk.ref, cs.ref):
        state.assume(z3.And(r >= 0, r < mark0))
    state.assume(FA(0, d, lambda j: z3.And(lst_get(cs, j).buf >= 0, lst_get(cs, j).buf < mark0)))
    return t


def mk_fresh_tt(state, name):
    """result object of a contract call: everything unknown; the callee's ensures clauses are assumed afterwards"""
    d = fresh(name + '_order')
    base, nm = state.alloc_block(name)
    mk = lambda n: SList(fresh(n + '_ref'), fresh(n + '_len'), fn=sym_elem_fn('int', state), kind='int')  # noqa
    rd, cd, rk = mk(name + '_rd'), mk(name + '_cd'), mk(name + '_rk')
    cs = SList(fresh(name + '_cores_ref'), fresh(name + '_clen'), fn=sym_elem_fn('arr', state), kind='arr')
    t = STT(fresh(name + '_ref'), d, rd, cd, rk, cs)
    t._block = (base, nm)
    return t


def in_block(x, blk):
    return z3.And(zi(x) >= blk[0], zi(x) < blk[1])


class SpecView:
    """what contract clauses see: a = current argument values, o = entry snapshots, mark0 = watermark at entry"""

    def __init__(self, a, o, mark0, inst, state=None):
        self.a, self.o, self.mark0, self.inst, self.state = a, o, mark0, inst, state


def buf_predicate(fams):
    if not fams:
        return None

    def pred(buf, state):
        alts = []
        for (lo, hi, f) in fams:
            j = fresh('jw')
            alts.append(z3.Exists([j], z3.And(zi(lo) <= j, j <= zi(hi), buf == f(j))))
        return z3.Or(*alts)
    return pred


def snapshot(v):
    if isinstance(v, (STT, SList)):
        return v.snapshot()
    return v


# ----------------------------------------------------------------------------------------------------------------------

class Contract:
    name = None            # registry key, e.g. 'TT.copy' or 'fn:zeros'
    file = 'scikit_tt/tensor_train.py'
    cls = 'TT'
    func = None            # function name in the source
    props = ()             # properties whose clause set this function belongs to
    verify = True          # False: contract is only *assumed* at call sites (listed as unverified in the evidence)

    def instances(self):
        return [{}]

    def inst_name(self, inst):
        return ','.join('%s=%s' % kv for kv in sorted(inst.items())) or '-'

    # -- specification --------------------------------------------------------------------------------------------------
    def setup(self, ex, state, inst):
        raise NotImplementedError

    def requires(self, S):
        return []

    def ensures(self, S, res):
        return []

    def exceptional(self, S):
        return {}

    def canary(self, S, res):
        return None

    def invariant(self, key, inst):
        return None

    def modifies(self, S):
        """(refs of pre-existing lists/objects the function may mutate,
            families (lo, hi_inclusive, j -> buffer id) of pre-existing array buffers it may write)"""
        return [], []

    # -- call-site semantics ----------------------------------------------------------------------------------------------
    def bind(self, args, kw):
        names = self.param_names
        A = {}
        for n, v in zip(names, args):
            A[n] = v
        for k, v in kw.items():
            A[k] = v
        for n, dflt in self.defaults().items():
            A.setdefault(n, dflt)
        return A

    def defaults(self):
        return {}

    def mutated(self, A):
        """list objects (reachable from the bound arguments) this function may mutate - used to havoc loop state"""
        return []

    def effect(self, ex, state, A, inst, line):
        raise Unsupported('contract %s cannot be used at call sites' % self.name)

    def call_inst(self, A):
        return {}

    def apply(self, ex, state, args, kw, line):
        A = self.bind(args, kw)
        inst = self.call_inst(A)
        S = SpecView(A, {k: snapshot(v) for k, v in A.items()}, state.mark, inst, state)
        for lbl, g in self.requires(S):
            ex.ctx.oblige(state, 'pre[%s]:%s' % (self.name, lbl), line, g)
        for exc, cond in self.exceptional(S).items():
            ex.ctx.oblige(state, 'pre[%s]:no-%s' % (self.name, exc), line, z3.Not(zb(cond)))
        # frame of the callee must lie inside the frame of the caller
        lists, fams = self.modifies(S)
        ctx = ex.ctx
        for r in lists:
            allowed = zi(r) >= ctx.mark0
            for r2 in ctx.modifies_lists:
                allowed = z3.Or(allowed, zi(r) == r2)
            ctx.oblige(state, 'frame:callee[%s]-mutates-object' % self.name, line, allowed)
        for (lo, hi, f) in fams:
            def ok(j, f=f):
                b = f(j)
                a = b >= ctx.mark0
                if ctx.modifies_bufs is not None:
                    a = z3.Or(a, ctx.modifies_bufs(b, state))
                return a
            ctx.oblige(state, 'frame:callee[%s]-writes-buffers' % self.name, line, FA(lo, hi + 1, ok))
        res = self.effect(ex, state, A, inst, line)
        for item in self.ensures(S, res):
            state.assume(item[1])
        return res


# ----------------------------------------------------------------------------------------------------------------------
# source access

_src_cache = {}


def load_function(file, cls, func):
    path = os.path.join(REPO, file)
    if path not in _src_cache:
        _src_cache[path] = ast.parse(open(path).read())
    tree = _src_cache[path]
    body = tree.body
    if cls:
        for n in body:
            if isinstance(n, ast.ClassDef) and n.name == cls:
                body = n.body
                break
        else:
            raise KeyError('class %s not found in %s' % (cls, file))
    for n in body:
        if isinstance(n, ast.FunctionDef) and n.name == func:
            return n
    raise KeyError('function %s not found in %s' % (func, file))


def ast_hash(node):
    return hashlib.sha256(ast.dump(node, include_attributes=False).encode()).hexdigest()[:16]


MODULE_GLOBALS = {'math': SModule('math'), 'sle': SModule('sle'), 'tt': SModule('tt'), 'np': SModule('np'), 'linalg': SModule('linalg'), 'lin': SModule('lin'), 'utl': SModule('utl'),
                  '_time': SModule('_time'), 'TT': ('TTclass',), 'sp': SModule('sp')}


def check_obligation(ctx, ob):
    """Discharges one obligation.  Wall-clock budgets are retried once with a six-fold budget when the solver gives up, so
    that a busy machine (all cores loaded) does not turn a discharged obligation into `undecided`."""
    from vt.e1 import calls as _calls
    first = Z3_TIMEOUT_MS if ob.expect != 'sat' else min(Z3_TIMEOUT_MS, 5000)
    total = 0.0
    for budget in (first, 6 * first):
        s = z3.Solver()
        s.set('timeout', budget)
        for a in list(ctx.axioms) + list(_calls.AXIOMS):
            s.add(a)
        for p in ob.pc:
            s.add(p)
        s.add(z3.Not(ob.goal))
        t0 = time.time()
        r = s.check()
        total += time.time() - t0
        if r != z3.unknown:
            break
    dt = total
    model = ''
    if r == z3.sat:
        try:
            m = s.model()
            model = '; '.join('%s=%s' % (d.name(), m[d]) for d in list(m.decls())[:40] if d.arity() == 0)
        except Exception:
            model = ''
    return str(r), dt, model


def verify_function(contract, inst, registry):
    """returns dict(status, obligations=[(name, status, time, detail)], hash, ...)"""
    from vt.core import OK, FAIL, UNDEC, ERR
    t0 = time.time()
    node = load_function(contract.file, contract.cls, contract.func)
    contract.param_names = [a.arg for a in node.args.args]
    for c in registry.values():
        if not hasattr(c, 'param_names'):
            try:
                c.param_names = [a.arg for a in load_function(c.file, c.cls, c.func).args.args]
            except KeyError:
                c.param_names = []
    ctx = Ctx(contract, inst, registry, contract.name)
    loops = [n for n in ast.walk(node) if isinstance(n, (ast.For, ast.While))]
    loops.sort(key=lambda n: (n.lineno, n.col_offset))
    ctx.loop_ordinals = {id(n): k for k, n in enumerate(loops)}
    state = State(ctx)
    ex = Executor(ctx, dict(MODULE_GLOBALS))
    res = {'function': contract.name, 'inst': contract.inst_name(inst), 'hash': ast_hash(node), 'obligations': [], 'unsupported': None}
    try:
        params = contract.setup(ex, state, inst)
        state.env.update(params)
        state.old = {k: snapshot(v) for k, v in params.items()}
        S0 = SpecView(params, state.old, ctx.mark0, inst, state)
        pre = list(contract.requires(S0))
        for lbl, g in pre:
            state.assume(g)
        # vacuity guard: the precondition must be satisfiable
        sv = z3.Solver()
        sv.set('timeout', Z3_TIMEOUT_MS)
        for p in state.pc:
            sv.add(p)
        r = sv.check()
        res['precondition'] = str(r)
        if r == z3.unsat:
            res['unsupported'] = 'precondition unsatisfiable (vacuous contract)'
            return res
        lists, fams = contract.modifies(S0)
        ctx.modifies_lists = [zi(r) for r in lists]
        ctx.modifies_bufs = buf_predicate(fams)
        outs = ex.exec_block(node.body, state)
        n_ret = 0
        for o in outs:
            st = o.state
            S = SpecView({k: st.env.get(k, v) for k, v in params.items()}, state.old, ctx.mark0, inst, st)
            exc_spec = contract.exceptional(S)
            if o.kind == 'raise':
                cond = exc_spec.get(o.value.name)
                if cond is None:
                    ctx.oblige(st, 'raises:undeclared-%s' % o.value.name, 0, z3.BoolVal(False), 'exception not declared in the contract')
                else:
                    ctx.oblige(st, 'raises:%s-only-when-specified' % o.value.name, 0, zb(cond))
                continue
            if o.kind == 'break':
                raise Unsupported('break outside loop')
            val = o.value if o.kind == 'return' else NONE
            n_ret += 1
            for exc, cond in exc_spec.items():
                ctx.oblige(st, 'raises:%s-when-specified' % exc, 0, z3.Not(zb(cond)))
            for item in contract.ensures(S, val):
                ctx.oblige(st, 'post:%s' % item[0], 0, item[1])
            can = contract.canary(S, val)
            if can is not None:
                ob = Obligation('canary#%d' % n_ret, 'canary', 0, st.pc, can, expect='sat')
                ctx.obls.append(ob)
        res['returns'] = n_ret
    except Unsupported as e:
        res['unsupported'] = str(e)
        return res
    except Exception:
        res['unsupported'] = 'engine error: ' + traceback.format_exc()[-1500:]
        res['engine_error'] = True
        return res
    canary_results = []
    for ob in ctx.obls:
        if ob.expect == 'sat' and 'sat' in canary_results:
            continue            # one refuted canary per function instance is the engine sanity check; the rest are skipped
        r, dt, model = check_obligation(ctx, ob)
        if ob.expect == 'sat':
            canary_results.append(r)
            if r == 'unknown' and ob is not [o for o in ctx.obls if o.expect == 'sat'][-1]:
                continue        # inconclusive (model search with quantifiers): try the canary of the next return path
            if r == 'unknown' and 'sat' in canary_results:
                continue
            status = OK if r == 'sat' else (FAIL if r == 'unsat' else UNDEC)
            detail = 'canary (a deliberately false postcondition) %s' % ('refuted as required' if r == 'sat' else 'NOT refuted: %s' % r)
        else:
            status = OK if r == 'unsat' else (FAIL if r == 'sat' else UNDEC)
            detail = ob.detail + ((' | counter-model: ' + model) if r == 'sat' else '') + ((' | solver: ' + r) if r not in ('sat', 'unsat') else '')
        res['obligations'].append({'name': ob.name, 'kind': ob.kind, 'line': ob.line, 'status': status, 't': dt, 'detail': detail})
    res['t'] = time.time() - t0
    return res
