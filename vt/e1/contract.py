"""Contract base class, spec helpers (wf, fresh, ...) and the per-function verification driver of E1."""
import ast
import hashlib
import os
import time
import traceback
import z3
from vt.e1.values import (SArr, SList, STT, SNum, SMaxRank, SInf, INF, SNone, NONE, SOpt, SModule, Unsupported,
                          fresh, fresh_fun, zi, zb, as_conc, is_conc_int)
from vt.e1.symexec import Ctx, State, Executor, View, FA, Obligation, sym_elem_fn
from vt.e1 import heap

REPO = os.environ.get('VERIF_REPO', '/repo')
Z3_TIMEOUT_MS = int(os.environ.get('VERIF_Z3_TIMEOUT_MS', '20000'))


# ----------------------------------------------------------------------------------------------------------------------
# spec helpers over abstract values

def lst_get(l, j):
    if l.items is not None:
        s = l.snapshot()
        s.to_fn()
        return s.fn(zi(j))
    return l.fn(zi(j))


def core_shape_ok(c, r0, m, n, r1):
    return z3.And(zi(c.ndim) == 4, c.shape[0] == zi(r0), c.shape[1] == zi(m), c.shape[2] == zi(n), c.shape[3] == zi(r1))


def wf(t):
    """representation invariant of a TT value (metadata == shapes of the cores; lengths consistent)"""
    d = zi(t.order)
    rd, cd, rk, cs = t.row_dims, t.col_dims, t.ranks, t.cores
    return z3.And(d >= 1, zi(rd.length) == d, zi(cd.length) == d, zi(rk.length) == d + 1, zi(cs.length) == d,
                  FA(0, d, lambda j: core_shape_ok(lst_get(cs, j), lst_get(rk, j), lst_get(rd, j), lst_get(cd, j), lst_get(rk, j + 1))))


def positive_dims(t):
    d = zi(t.order)
    return z3.And(FA(0, d, lambda j: z3.And(lst_get(t.row_dims, j) >= 1, lst_get(t.col_dims, j) >= 1)),
                  FA(0, d + 1, lambda j: lst_get(t.ranks, j) >= 1))


def lists_distinct(t):
    refs = [t.row_dims.ref, t.col_dims.ref, t.ranks.ref, t.cores.ref]
    return z3.Distinct(*refs)


def valid(t):
    """type invariant of every TT value passed between functions"""
    return z3.And(wf(t), positive_dims(t), lists_distinct(t))


def _tt_items(v):
    """TT values inside a returned tuple / concrete list"""
    items = v.items if isinstance(v, SList) and v.items is not None else v if isinstance(v, (tuple, list)) else []
    return [x for x in items if isinstance(x, STT) and all(isinstance(x.f.get(q), SList) for q in ('row_dims', 'col_dims', 'ranks', 'cores'))]


def type_domain(name, v, mark0):
    """what a contract's setup assumes about a parameter because of its *type*: validity (obliged at call sites) and the
    allocation model (`alloc:` - every id in existence at a call is below the callee's entry watermark) / NumPy model
    (`model:` - array dimensions are non-negative).  `alloc:` and `model:` clauses are not obliged at call sites."""
    if isinstance(v, STT):
        if not all(isinstance(v.f.get(k), SList) for k in ('row_dims', 'col_dims', 'ranks', 'cores')):
            return
        yield 'valid(%s)' % name, valid(v)
        yield 'alloc:%s' % name, z3.And(*[z3.And(zi(r) >= 0, zi(r) < mark0) for r in (v.ref, v.row_dims.ref, v.col_dims.ref, v.ranks.ref, v.cores.ref)],
                                        FA(0, zi(v.order), lambda j: z3.And(lst_get(v.cores, j).buf >= 0, lst_get(v.cores, j).buf < mark0)))
    elif isinstance(v, SList):
        if v.kind in ('int', 'num', 'bool', 'arr', 'ttref') or v.kind.startswith('optarr'):
            yield 'alloc:%s' % name, z3.And(v.ref >= 0, v.ref < mark0)
        if v.kind == 'arr' and v.items is None:
            yield 'alloc:%s[]' % name, FA(0, v.len_term(), lambda j: z3.And(lst_get(v, j).buf >= 0, lst_get(v, j).buf < mark0))
            yield 'model:%s[]' % name, FA(0, v.len_term(), lambda j: z3.And(*[x >= 0 for x in lst_get(v, j).shape]))
        yield 'model:len(%s)' % name, v.len_term() >= 0
    elif isinstance(v, SArr):
        yield 'alloc:%s' % name, z3.And(v.buf >= 0, v.buf < mark0)
        yield 'model:%s' % name, z3.And(*[x >= 0 for x in v.shape])


def fresh_id(x, mark):
    return zi(x) >= mark


def cores_fresh(t, mark):
    return FA(0, zi(t.order), lambda j: lst_get(t.cores, j).buf >= mark)


def meta_fresh(t, mark):
    return z3.And(t.row_dims.ref >= mark, t.col_dims.ref >= mark, t.ranks.ref >= mark, t.cores.ref >= mark, t.ref >= mark)


def same_ints(a, b, n):
    return FA(0, n, lambda j: lst_get(a, j) == lst_get(b, j))


def mk_int_list(state, name, length, pre_existing=True):
    ref = fresh(name + '_ref')
    l = SList(ref, length, fn=sym_elem_fn('int', state), kind='int')
    return l


def mk_tt(state, name, mark0, order=None):
    """a symbolic, well-formed, pre-existing TT parameter (all ids below the entry watermark)"""
    d = order if order is not None else fresh(name + '_order')
    rd = mk_int_list(state, name + '_rd', d)
    cd = mk_int_list(state, name + '_cd', d)
    rk = mk_int_list(state, name + '_rk', d + 1)
    cs = SList(fresh(name + '_cores_ref'), d, fn=sym_elem_fn('arr', state), kind='arr')
    t = STT(fresh(name + '_ref'), d, rd, cd, rk, cs)
    state.assume(wf(t))
    state.assume(positive_dims(t))
    state.assume(lists_distinct(t))
    for r in (t.ref, rd.ref, cd.ref, rk.ref, cs.ref):
        state.assume(z3.And(r >= 0, r < mark0))
    state.assume(FA(0, d, lambda j: z3.And(lst_get(cs, j).buf >= 0, lst_get(cs, j).buf < mark0)))
    return t


def mk_fresh_tt(state, name):
    """result object of a contract call: everything unknown; the callee's ensures clauses are assumed afterwards"""
    d = fresh(name + '_order')
    base, nm = state.alloc_block(name)
    mk = lambda n: SList(fresh(n + '_ref'), fresh(n + '_len'), fn=sym_elem_fn('int', state), kind='int')  # noqa
    rd, cd, rk = mk(name + '_rd'), mk(name + '_cd'), mk(name + '_rk')
    cs = SList(fresh(name + '_cores_ref'), fresh(name + '_clen'), fn=sym_elem_fn('arr', state), kind='arr')
    t = STT(fresh(name + '_ref'), d, rd, cd, rk, cs)
    t._block = (base, nm)
    return t


def in_block(x, blk):
    return z3.And(zi(x) >= blk[0], zi(x) < blk[1])


class SpecView:
    """what contract clauses see: a = current argument values, o = entry snapshots, mark0 = watermark at entry"""

    def __init__(self, a, o, mark0, inst, state=None):
        self.a, self.o, self.mark0, self.inst, self.state = a, o, mark0, inst, state
        self.at_call = False      # True when the clauses are *assumed* at a call site (ghost-only clauses are then skipped)


def buf_predicate(fams):
    if not fams:
        return None

    def pred(buf, state):
        alts = []
        for (lo, hi, f) in fams:
            j = fresh('jw')
            alts.append(z3.Exists([j], z3.And(zi(lo) <= j, j <= zi(hi), buf == f(j))))
        return z3.Or(*alts)
    return pred


def snapshot(v):
    from vt.e1.values import SObj
    if isinstance(v, (STT, SList, SObj)):
        return v.snapshot()
    return v


# ----------------------------------------------------------------------------------------------------------------------

class Contract:
    name = None            # registry key, e.g. 'TT.copy' or 'fn:zeros'
    file = 'scikit_tt/tensor_train.py'
    cls = 'TT'
    func = None            # function name in the source
    props = ()             # properties whose clause set this function belongs to
    verify = True          # False: contract is only *assumed* at call sites (listed as unverified in the evidence)

    def instances(self):
        return [{}]

    def inst_name(self, inst):
        return ','.join('%s=%s' % kv for kv in sorted(inst.items())) or '-'

    # -- specification --------------------------------------------------------------------------------------------------
    def setup(self, ex, state, inst):
        raise NotImplementedError

    def requires(self, S):
        return []

    def domain(self, S):
        """Everything `setup` assumes about the parameters beyond `requires`.  Machine-checked on every run:
        domain /\ requires /\ not(exceptional) must imply every assumption `setup` made (obligation `domain-covers-setup`),
        and every clause that is not an `alloc:` / `model:` fact is an obligation at every call site."""
        for k, v in S.a.items():
            yield from type_domain(k, v, S.mark0)
        yield from self.domain_extra(S)

    def domain_extra(self, S):
        return []

    def lemmas(self, S, res):
        """(label, formula) consequences of `ensures` to be proved and kept at every call site (see Contract.apply)"""
        return []

    def ensures(self, S, res):
        return []

    def exceptional(self, S):
        return {}

    def canary(self, S, res):
        return None

    def invariant(self, key, inst):
        return None

    def modifies(self, S):
        """(refs of pre-existing lists/objects the function may mutate,
            families (lo, hi_inclusive, j -> buffer id) of pre-existing array buffers it may write)"""
        return [], []

    # -- call-site semantics ----------------------------------------------------------------------------------------------
    def bind(self, args, kw):
        names = self.param_names
        A = {}
        for n, v in zip(names, args):
            A[n] = v
        for k, v in kw.items():
            A[k] = v
        for n, dflt in self.defaults().items():
            A.setdefault(n, dflt)
        return A

    def defaults(self):
        return {}

    def mutated(self, A):
        """list objects (reachable from the bound arguments) this function may mutate - used to havoc loop state"""
        return []

    def effect(self, ex, state, A, inst, line):
        raise Unsupported('contract %s cannot be used at call sites' % self.name)

    def call_inst(self, A):
        return {}

    def apply(self, ex, state, args, kw, line):
        try:
            return self._apply(ex, state, args, kw, line)
        except (AttributeError, TypeError, KeyError, IndexError) as e:
            # e.g. a scalar where the contract speaks about a tensor train: the call is outside what the contract describes
            raise Unsupported('arguments of %s at line %d are of a kind its contract does not describe (%s: %s)' % (self.name, line, type(e).__name__, e))

    def _apply(self, ex, state, args, kw, line):
        A = self.bind(args, kw)
        inst = self.call_inst(A)
        S = SpecView(A, {k: snapshot(v) for k, v in A.items()}, state.mark, inst, state)
        S.at_call = True
        for lbl, g in self.domain(S):
            if not lbl.startswith(('alloc:', 'model:')):
                ex.ctx.oblige(state, 'pre[%s]:domain:%s' % (self.name, lbl), line, g)
        for lbl, g in self.requires(S):
            ex.ctx.oblige(state, 'pre[%s]:%s' % (self.name, lbl), line, g)
        for exc, cond in self.exceptional(S).items():
            ex.ctx.oblige(state, 'pre[%s]:no-%s' % (self.name, exc), line, z3.Not(zb(cond)))
        # frame of the callee must lie inside the frame of the caller
        lists, fams = self.modifies(S)
        ctx = ex.ctx
        for r in lists:
            allowed = zi(r) >= ctx.mark0
            for r2 in ctx.modifies_lists:
                allowed = z3.Or(allowed, zi(r) == r2)
            ctx.oblige(state, 'frame:callee[%s]-mutates-object' % self.name, line, allowed)
            heap.guard_list(ex, state, r, line)
        for (lo, hi, f) in fams:
            def ok(j, f=f):
                b = f(j)
                a = b >= ctx.mark0
                if ctx.modifies_bufs is not None:
                    a = z3.Or(a, ctx.modifies_bufs(b, state))
                return a
            ctx.oblige(state, 'frame:callee[%s]-writes-buffers' % self.name, line, FA(lo, hi + 1, ok))
            heap.guard_buf_family(ex, state, lo, hi, f, line)
        res = self.effect(ex, state, A, inst, line)
        if isinstance(res, STT):
            # allocation model: every id in existence is below the current watermark
            m = state.mark
            state.assume(z3.And(res.ref < m, res.row_dims.ref < m, res.col_dims.ref < m, res.ranks.ref < m, res.cores.ref < m))
            cs = res.cores
            if cs.kind == 'arr' and not getattr(cs, 'transients', None):
                state.assume(FA(0, zi(res.order), lambda j: lst_get(cs, j).buf < m))
        for item in self.ensures(S, res):
            if item[1] is False or (isinstance(item[1], z3.BoolRef) and z3.is_false(item[1])):
                raise Unsupported('contract %s: clause %s is literally False at a call site (line %d)' % (self.name, item[0], line))
            state.assume(item[1])
        # cut rule: consequences of the ensures clauses that later obligations need in a handy form are proved here, where the
        # context is small, and then kept as hypotheses
        for lbl, g in self.lemmas(S, res):
            ex.ctx.oblige(state, 'lemma[%s]:%s' % (self.name, lbl), line, g)
            state.assume(g)
        if getattr(self, 'auto_valid', True):
            if isinstance(res, STT):
                state.assume(valid(res))
            for x in _tt_items(res):
                state.assume(valid(x))
            for k, v in A.items():
                if isinstance(v, STT) and v is not res and all(isinstance(v.f.get(q), SList) for q in ('row_dims', 'col_dims', 'ranks', 'cores')):
                    state.assume(valid(v))
        return res


# ----------------------------------------------------------------------------------------------------------------------
# source access

_src_cache = {}


def load_function(file, cls, func):
    path = os.path.join(REPO, file)
    if path not in _src_cache:
        _src_cache[path] = ast.parse(open(path).read())
    tree = _src_cache[path]
    body = tree.body
    if cls:
        for n in body:
            if isinstance(n, ast.ClassDef) and n.name == cls:
                body = n.body
                break
        else:
            raise KeyError('class %s not found in %s' % (cls, file))
    for n in body:
        if isinstance(n, ast.FunctionDef) and n.name == func:
            return n
    raise KeyError('function %s not found in %s' % (func, file))


def ast_hash(node):
    return hashlib.sha256(ast.dump(node, include_attributes=False).encode()).hexdigest()[:16]


MODULE_GLOBALS = {'math': SModule('math'), 'sle': SModule('sle'), 'tt': SModule('tt'), 'np': SModule('np'), 'linalg': SModule('linalg'), 'lin': SModule('lin'), 'utl': SModule('utl'),
                  '_time': SModule('_time'), 'TT': ('TTclass',), 'sp': SModule('sp'), 'splin': SModule('splin')}


INSTANCE_BUDGET_S = float(os.environ.get('VERIF_E1_INSTANCE_BUDGET_S', '150'))


def _solve(formulas, timeout_ms, reparse=False, seed=0):
    """one solver attempt.  reparse=True sends the query through its SMT-LIB text into a fresh z3 context: the search of the
    solver depends on internal term numbering, and the freshly numbered copy is often decided in milliseconds where the
    in-process terms are not (and vice versa) - so both are tried (portfolio)."""
    if reparse:
        s0 = z3.Solver()
        for f in formulas:
            s0.add(f)
        c2 = z3.Context()
        fs = z3.parse_smt2_string(s0.to_smt2(), ctx=c2)
        s = z3.Solver(ctx=c2)
        s.add(fs)
    else:
        s = z3.Solver()
        for f in formulas:
            s.add(f)
    s.set('timeout', int(timeout_ms))
    if seed:
        s.set('random_seed', seed)
    t0 = time.time()
    r = s.check()
    return str(r), time.time() - t0, s


def check_obligation(ctx, ob):
    """Discharges one obligation with a small portfolio (in-process / re-parsed copy, short budgets first, then the full
    budget and once three times the full budget), so that a busy machine or an unlucky instantiation order does not turn a
    discharged obligation into `undecided`."""
    from vt.e1 import calls as _calls
    first = Z3_TIMEOUT_MS if ob.expect != 'sat' else min(Z3_TIMEOUT_MS, 5000)
    spent = getattr(ctx, 'solver_time', 0.0)
    formulas = list(ctx.axioms) + list(_calls.AXIOMS) + list(ob.pc) + [z3.Not(ob.goal)]
    # once a function instance has used its solver budget (only happens when many obligations are undecidable, i.e. on code that
    # left the contract), the remaining obligations get a short budget: they end as `undecided`, never as a verdict
    if spent >= 2 * INSTANCE_BUDGET_S:
        return 'unknown', 0.0, ''       # the instance is far outside its contract: everything else stays undecided
    if spent >= INSTANCE_BUDGET_S:
        plan = [(2000, False, 0), (2000, True, 0)]
    elif ob.expect == 'sat':
        # model search: hopeless with the heap axioms in the path condition (goes straight to the weaker vacuity guard)
        plan = [(first, False, 0), (first, True, 0), (3 * first, False, 0)] if not getattr(ctx, 'uses_heap', False) else [(3000, False, 0)]
    else:
        plan = [(2000, False, 0), (2000, True, 0), (4000, True, 7), (first, False, 0), (first, True, 3), (3 * first, False, 11)]
    total, r, s = 0.0, 'unknown', None
    for (budget, reparse, seed) in plan:
        r, dt, s = _solve(formulas, budget, reparse, seed)
        total += dt
        if r != 'unknown':
            break
    ctx.solver_time = spent + (total if r == 'unknown' else 0.0)      # only time wasted on undecided queries counts against the budget
    model = ''
    if r == 'sat':
        try:
            m = s.model()
            model = '; '.join('%s=%s' % (d.name(), m[d]) for d in list(m.decls())[:40] if d.arity() == 0)
        except Exception:
            model = ''
    return r, total, model


def _solve_quick(ctx, ob):
    from vt.e1 import calls as _calls
    formulas = list(ctx.axioms) + list(_calls.AXIOMS) + list(ob.pc) + [z3.Not(ob.goal)]
    r, dt, s = _solve(formulas, 3000)
    model = ''
    if r == 'sat':
        try:
            m = s.model()
            model = '; '.join('%s=%s' % (d.name(), m[d]) for d in list(m.decls())[:40] if d.arity() == 0)
        except Exception:
            model = ''
    return r, dt, model


def verify_function(contract, inst, registry):
    """returns dict(status, obligations=[(name, status, time, detail)], hash, ...)"""
    from vt.core import OK, FAIL, UNDEC, ERR
    t0 = time.time()
    node = load_function(contract.file, contract.cls, contract.func)
    contract.param_names = [a.arg for a in node.args.args]
    for c in registry.values():
        if not hasattr(c, 'param_names'):
            try:
                c.param_names = [a.arg for a in load_function(c.file, c.cls, c.func).args.args]
            except KeyError:
                c.param_names = []
    ctx = Ctx(contract, inst, registry, contract.name)
    uh = getattr(contract, 'uses_heap', False)
    ctx.uses_heap = bool(uh(inst) if callable(uh) else uh)
    if ctx.uses_heap:
        ctx.axioms += heap.axioms()
    loops = [n for n in ast.walk(node) if isinstance(n, (ast.For, ast.While))]
    loops.sort(key=lambda n: (n.lineno, n.col_offset))
    ctx.loop_ordinals = {id(n): k for k, n in enumerate(loops)}
    state = State(ctx)
    ex = Executor(ctx, dict(MODULE_GLOBALS))
    res = {'function': contract.name, 'inst': contract.inst_name(inst), 'hash': ast_hash(node), 'obligations': [], 'unsupported': None}
    try:
        params = contract.setup(ex, state, inst)
        state.env.update(params)
        state.old = {k: snapshot(v) for k, v in params.items()}
        S0 = SpecView(params, state.old, ctx.mark0, inst, state)
        setup_pc = list(state.pc)
        dom = list(contract.domain(S0))
        pre = list(contract.requires(S0))
        exc0 = contract.exceptional(S0)
        # modular soundness guard: whatever `setup` assumed must follow from what call sites are obliged to establish
        hyp = [g for _, g in dom] + [g for _, g in pre] + [z3.Not(zb(c)) for c in exc0.values() if not isinstance(c, bool) or c]
        hyp = [h if not isinstance(h, bool) else z3.BoolVal(h) for h in hyp]
        for n_a, a in enumerate(setup_pc):
            if a.get_id() in ctx.model_facts:
                continue
            sc = z3.Solver()
            sc.set('timeout', Z3_TIMEOUT_MS)
            for h in hyp:
                sc.add(h)
            sc.add(z3.Not(a))
            r = sc.check()
            if r != z3.unsat:
                res['unsupported'] = ('contract gap (not a property verdict): setup assumes %s, which neither domain() nor requires() states, so call sites '
                                      'would not check it [%s]' % (a.sexpr()[:400].replace('\n', ' '), r))
                return res
        for lbl, g in dom:
            state.assume(g)
        for lbl, g in pre:
            state.assume(g)
        # vacuity guard: the precondition must be satisfiable
        sv = z3.Solver()
        sv.set('timeout', Z3_TIMEOUT_MS)
        for p in state.pc:
            sv.add(p)
        r = sv.check()
        res['precondition'] = str(r)
        if r == z3.unsat:
            res['unsupported'] = 'precondition unsatisfiable (vacuous contract)'
            return res
        lists, fams = contract.modifies(S0)
        ctx.modifies_lists = [zi(r) for r in lists]
        ctx.modifies_bufs = buf_predicate(fams)
        outs = ex.exec_block(node.body, state)
        n_ret = 0
        for o in outs:
            st = o.state
            S = SpecView({k: st.env.get(k, v) for k, v in params.items()}, state.old, ctx.mark0, inst, st)
            exc_spec = contract.exceptional(S)
            if o.kind == 'raise':
                cond = exc_spec.get(o.value.name)
                if cond is None:
                    ctx.oblige(st, 'raises:undeclared-%s' % o.value.name, 0, z3.BoolVal(False), 'exception not declared in the contract')
                else:
                    ctx.oblige(st, 'raises:%s-only-when-specified' % o.value.name, 0, zb(cond))
                continue
            if o.kind == 'break':
                raise Unsupported('break outside loop')
            val = o.value if o.kind == 'return' else NONE
            n_ret += 1
            for exc, cond in exc_spec.items():
                ctx.oblige(st, 'raises:%s-when-specified' % exc, 0, z3.Not(zb(cond)))
            for item in contract.ensures(S, val):
                ctx.oblige(st, 'post:%s' % item[0], 0, item[1])
            if o.kind == 'return' and getattr(contract, 'auto_valid', True):
                # type invariant at exit: the result and every TT parameter (also a mutated `self`) are valid TT values
                if isinstance(val, STT):
                    ctx.oblige(st, 'post:valid(result)', 0, valid(val))
                for q, x in enumerate(_tt_items(val)):
                    ctx.oblige(st, 'post:valid(result[%d])' % q, 0, valid(x))
                for k, v in S.a.items():
                    if isinstance(v, STT) and all(isinstance(v.f.get(q), SList) for q in ('row_dims', 'col_dims', 'ranks', 'cores')) and v is not val:
                        ctx.oblige(st, 'post:valid(%s)' % k, 0, valid(v))
            can = contract.canary(S, val)
            if can is not None:
                ob = Obligation('canary#%d' % n_ret, 'canary', 0, st.pc, can, expect='sat')
                ctx.obls.append(ob)
        res['returns'] = n_ret
        if not outs:
            # (handled like leaving the subset: the obligations generated so far are still genuine and the refuted ones are reported)
            raise Unsupported('no feasible path reaches a return or raise statement (contradictory contract or path condition): nothing would be proved')
    except Unsupported as e:
        res['unsupported'] = str(e)
        # obligations generated before the function left the verified subset are still genuine: the refuted ones are reported
        # (a violation takes precedence over `undecided`); the discharged ones are not counted as a proof of the function
        bad = []
        n_implied = 0
        for ob in ctx.obls:
            if ob.expect == 'sat' or getattr(ob, 'structural', False):
                continue
            try:
                r, dt, model = _solve_quick(ctx, ob)
            except Exception:
                continue
            if r == 'sat':
                bad.append({'name': ob.name, 'kind': ob.kind, 'line': ob.line, 'status': FAIL, 't': dt,
                            'detail': ob.detail + ' | counter-model: ' + model + ' | (found before the function left the verified subset: ' + str(e)[:200] + ')'})
            elif r == 'unknown' and n_implied < 3:
                # no model of the quantified path condition: refuted all the same if the path condition implies the negation of
                # the obligation and is itself not refutable within the budget
                n_implied += 1
                try:
                    if _sat(ctx, list(ob.pc) + [ob.goal], 5000) == 'unsat' and _sat(ctx, ob.pc, 5000) != 'unsat':
                        bad.append({'name': ob.name, 'kind': ob.kind, 'line': ob.line, 'status': FAIL, 't': dt,
                                    'detail': ob.detail + ' | refuted: the path condition implies the negation of this obligation (found before the function left the verified subset: ' + str(e)[:200] + ')'})
                except Exception:
                    pass
        res['obligations'] = bad
        return res
    except Exception:
        res['unsupported'] = 'engine error: ' + traceback.format_exc()[-1500:]
        res['engine_error'] = True
        return res
    canary_results = []
    n_refute = 0
    for ob in ctx.obls:
        if ob.expect == 'sat' and 'sat' in canary_results:
            continue            # one refuted canary per function instance is the engine sanity check; the rest are skipped
        r, dt, model = check_obligation(ctx, ob)
        if ob.expect == 'sat':
            canary_results.append(r)
            if r == 'unknown' and ob is not [o for o in ctx.obls if o.expect == 'sat'][-1]:
                continue        # inconclusive (model search with quantifiers): try the canary of the next return path
            if r == 'unknown' and 'sat' in canary_results:
                continue
            # a canary that is *proved* means the path condition at the return is contradictory: every post-condition holds
            # vacuously there - nothing is decided (not a verdict about the code)
            status = OK if r == 'sat' else UNDEC
            detail = 'canary (a deliberately false postcondition) %s' % ('refuted as required' if r == 'sat' else 'NOT refuted (%s): the proof of this return path is vacuous' % r)
            if r == 'unknown':
                # the solver cannot build a model of the (quantified) path condition.  Weaker guard: the path condition must not be
                # refutable within the full obligation budget - a contradictory path condition is what would make proofs vacuous.
                r2 = _sat(ctx, ob.pc, Z3_TIMEOUT_MS // 2)
                if r2 == 'unsat':
                    status, detail = UNDEC, 'path condition at return is contradictory: every postcondition would hold vacuously'
                else:
                    status, detail = OK, 'INCONCLUSIVE vacuity guard: canary neither refuted nor proved (%s); no contradiction derivable from the path condition within %d ms' % (r2, Z3_TIMEOUT_MS)
        else:
            status = OK if r == 'unsat' else (FAIL if r == 'sat' else UNDEC)
            detail = ob.detail + ((' | counter-model: ' + model) if r == 'sat' else '') + ((' | solver: ' + r) if r not in ('sat', 'unsat') else '')
            if status == FAIL and getattr(ob, 'structural', False):
                status = UNDEC
                detail = 'the loop no longer has the structure its sidecar invariant describes (a type / number-of-axes test of the invariant is false): undecided, not a verdict'
            if r == 'unknown' and n_refute < 3:
                # no model of the quantified path condition could be built.  Second way to refute: the goal is *false on every
                # execution that reaches this point* (path condition /\ goal is unsatisfiable) while the path condition itself is
                # not refutable within the budget.
                n_refute += 1
                if _sat(ctx, list(ob.pc) + [ob.goal], 10000) == 'unsat' and _sat(ctx, ob.pc, 10000) != 'unsat':
                    status = FAIL
                    detail = ob.detail + ' | refuted: the path condition implies the negation of this obligation (no model built; path condition not refutable within 10 s)'
        res['obligations'].append({'name': ob.name, 'kind': ob.kind, 'line': ob.line, 'status': status, 't': dt, 'detail': detail})
    # vacuity guard for loop bodies: if the start of an arbitrary iteration is reachable, at least one end of the body must be
    # (a contradictory path condition inside the body would make every preservation obligation pass vacuously)
    if not ctx.muted:
        for rec in ctx.reach:
            t1 = time.time()
            if ctx.uses_heap:
                # no model can be built with the heap axioms in the path condition: only look for a contradiction
                ends = [_sat(ctx, pc, 2500) for pc in rec['ends'][:4]]
                if ends and all(e == 'unsat' for e in ends) and len(rec['ends']) <= 4 and _sat(ctx, rec['start'], 2500) != 'unsat':
                    res['obligations'].append({'name': 'reach[%s]:body-end@%d' % (rec['key'], rec['line']), 'kind': 'reach', 'line': rec['line'], 'status': UNDEC, 't': time.time() - t1,
                                               'detail': 'every path through the body of loop `%s` has a contradictory path condition: preservation obligations are vacuous' % rec['key']})
                else:
                    res['obligations'].append({'name': 'reach[%s]:body-end@%d' % (rec['key'], rec['line']), 'kind': 'reach', 'line': rec['line'], 'status': OK, 't': time.time() - t1,
                                               'detail': 'INCONCLUSIVE vacuity guard: no contradiction derivable at the end of the body of loop `%s` (%s)' % (rec['key'], ends)})
                continue
            r0 = _sat(ctx, rec['start'], 4000)
            if r0 != 'sat':
                continue            # dead loop in this instance (or undecided start): nothing to conclude
            ends = []
            for pc in rec['ends'][:6]:
                ends.append(_sat(ctx, pc, 4000))
                if ends[-1] == 'sat':
                    break
            if 'sat' not in ends and 'unknown' in ends:
                for q, pc in enumerate(rec['ends'][:6]):
                    if ends[q] == 'unknown' and ends.count('retry') < 2:
                        ends[q] = 'retry'
                        r1 = _sat(ctx, pc, 15000)
                        if r1 == 'sat':
                            ends.append('sat')
                            break
                ends = ['unknown' if e == 'retry' else e for e in ends]
            if len(rec['ends']) > 6 and 'sat' not in ends:
                ends.append('unknown')
            if 'sat' in ends:
                status, detail = OK, 'body of loop `%s` reachable to its end' % rec['key']
            elif ends and all(e == 'unsat' for e in ends):
                status, detail = UNDEC, 'every path through the body of loop `%s` has a contradictory path condition: preservation obligations are vacuous' % rec['key']
            elif not ends:
                continue
            else:
                # satisfiability of a quantified path condition is not always decidable for the solver: recorded, not a verdict
                status, detail = OK, 'INCONCLUSIVE vacuity guard: reachability of the end of the body of loop `%s` could not be decided (%s)' % (rec['key'], ends)
            res['obligations'].append({'name': 'reach[%s]:body-end@%d' % (rec['key'], rec['line']), 'kind': 'reach', 'line': rec['line'], 'status': status,
                                       't': time.time() - t1, 'detail': detail})
    res['t'] = time.time() - t0
    return res


def _sat(ctx, pc, timeout=10000):
    from vt.e1 import calls as _calls
    s = z3.Solver()
    s.set('timeout', timeout)
    for a in list(ctx.axioms) + list(_calls.AXIOMS):
        s.add(a)
    for p in pc:
        s.add(p)
    return str(s.check())
