"""Sidecar contracts for scikit_tt/tensor_train.py (structural part: E1).

Derived from the code and its call sites; each top-level postcondition is taken from the property statement
(C01 metadata of results, C03/C04 ranks and gauge flags, C06 frame / freshness / wf).
"""
import z3
from vt.e1.values import (SIndexSet, SArr, SList, STT, SNum, SMaxRank, SInf, INF, SNone, NONE, Unsupported, fresh, fresh_fun, zi, zb,
                          as_conc, is_conc_int, val_ite)
from vt.e1.symexec import FA, sym_elem_fn
from vt.e1.contract import (Contract, wf, positive_dims, lists_distinct, cores_fresh, meta_fresh, same_ints, lst_get, mk_tt,
                            mk_int_list, core_shape_ok, snapshot, valid)

REG = {}


def register(c):
    inst = c()
    REG[inst.name] = inst
    return c


def build_tt_from_cores(state, cores, order=None):
    """what TT.__init__(list) establishes: fresh metadata lists read off the shapes of the adopted core list"""
    snap = cores.snapshot()
    snap.to_fn()
    f = snap.fn
    d = zi(cores.length) if order is None else order
    mk = lambda g, n: SList(state.alloc(), n, fn=g, kind='int')  # noqa
    rd = mk(lambda j: f(j).shape[1], d)
    cd = mk(lambda j: f(j).shape[2], d)
    rk = mk(lambda j: z3.If(j < d, f(j).shape[0], f(d - 1).shape[3]), d + 1)
    return STT(state.alloc(), d, rd, cd, rk, cores)


# ----------------------------------------------------------------------------------------------------------------------

@register
class Init(Contract):
    name, func = 'TT.__init__', '__init__'
    props = ('C01', 'C06')

    def instances(self):
        return [{'variant': 'list'}]

    def defaults(self):
        return {'threshold': 0, 'max_rank': INF, 'progress': False, 'string': NONE}

    def setup(self, ex, state, inst):
        m0 = ex.ctx.mark0
        n = fresh('n')
        x = SList(fresh('x_ref'), n, fn=sym_elem_fn('arr', state), kind='arr')
        state.assume(z3.And(x.ref >= 0, x.ref < m0))
        state.assume(FA(0, n, lambda j: z3.And(lst_get(x, j).buf >= 0, lst_get(x, j).buf < m0)))
        state.assume(FA(0, n, lambda j: z3.And(*[s >= 0 for s in lst_get(x, j).shape])))
        me = STT(fresh('self_ref'), None, None, None, None, None)
        state.assume(me.ref >= m0)
        me.f = {}
        return {'self': me, 'x': x, 'threshold': 0, 'max_rank': INF, 'progress': False, 'string': NONE}

    def domain_extra(self, S):
        yield 'alloc:self-is-new', S.a['self'].ref >= S.mark0

    def _chain(self, x):
        n = zi(x.length)
        all4 = FA(0, n, lambda j: zi(lst_get(x, j).ndim) == 4)
        chain = FA(0, n - 1, lambda j: lst_get(x, j).shape[3] == lst_get(x, j + 1).shape[0])
        return all4, chain

    def requires(self, S):
        # derived from the code: x[-1] is read, so the list must be non-empty (IndexError otherwise, not the documented
        # ValueError/TypeError)
        yield 'non-empty-core-list', zi(S.a['x'].length) >= 1

    def exceptional(self, S):
        all4, chain = self._chain(S.o['x'])
        return {'ValueError': z3.Or(z3.Not(all4), z3.Not(chain))}

    def ensures(self, S, res):
        me, x = S.a['self'], S.o['x']
        n = zi(x.length)
        yield 'order==len(x)', zi(me.f['order']) == n
        yield 'cores-is-x', me.f['cores'].ref == x.ref
        yield 'wf(self)', wf(me)
        yield 'metadata-lists-fresh', z3.And(me.f['row_dims'].ref >= S.mark0, me.f['col_dims'].ref >= S.mark0, me.f['ranks'].ref >= S.mark0)
        yield 'metadata-lists-distinct', z3.Distinct(me.f['row_dims'].ref, me.f['col_dims'].ref, me.f['ranks'].ref, me.f['cores'].ref)
        yield 'row_dims', FA(0, n, lambda j: lst_get(me.f['row_dims'], j) == lst_get(x, j).shape[1])
        yield 'col_dims', FA(0, n, lambda j: lst_get(me.f['col_dims'], j) == lst_get(x, j).shape[2])
        yield 'ranks', z3.And(FA(0, n, lambda j: lst_get(me.f['ranks'], j) == lst_get(x, j).shape[0]),
                              lst_get(me.f['ranks'], n) == lst_get(x, n - 1).shape[3])

    def canary(self, S, res):
        return zi(S.a['self'].f['order']) == zi(S.o['x'].length) + 1

    def effect(self, ex, state, A, inst, line):
        x = A['x']
        thr, mr = A.get('threshold', 0), A.get('max_rank', INF)
        plain = (is_conc_int(thr) and thr == 0) and isinstance(mr, SInf)
        t = build_tt_from_cores(state, x)
        me = A.get('self')
        if isinstance(me, STT) and not me.f:
            # self.__init__(cores) inside the constructor: the fields of the object under construction are filled in
            me.f = t.f
            t = me
        if not plain:
            return REG['TT.ortho'].apply(ex, state, [t], {'threshold': thr, 'max_rank': mr}, line)
        return t

    def apply(self, ex, state, args, kw, line):
        # TT(x): `self` is allocated by the call
        A = self.bind(args, kw)
        x = A['x']
        if not isinstance(x, SList):
            raise Unsupported('TT() of a non-list at line %d' % line)
        if x.kind not in ('arr', 'arr5', 'any'):
            raise Unsupported('TT() of a list of %s at line %d' % (x.kind, line))
        from vt.e1.contract import SpecView
        S = SpecView(A, {'x': x.snapshot()}, state.mark, {}, state)
        for lbl, g in self.requires(S):
            ex.ctx.oblige(state, 'pre[TT.__init__]:%s' % lbl, line, g)
        all4, chain = self._chain(S.o['x'])
        ex.ctx.oblige(state, 'pre[TT.__init__]:no-ValueError(ndim==4)', line, all4)
        ex.ctx.oblige(state, 'pre[TT.__init__]:no-ValueError(ranks-chain)', line, chain)
        return self.effect(ex, state, A, {}, line)


@register
class Copy(Contract):
    name, func = 'TT.copy', 'copy'
    props = ('C01', 'C06')

    def setup(self, ex, state, inst):
        return {'self': mk_tt(state, 'self', ex.ctx.mark0)}

    def ensures(self, S, res):
        me = S.o['self']
        d = zi(me.order)
        yield 'returns-TT', isinstance(res, STT)
        if not isinstance(res, STT):
            return
        yield 'order', zi(res.order) == d
        yield 'wf(result)', wf(res)
        yield 'result-object-and-lists-fresh', meta_fresh(res, S.mark0)
        yield 'result-lists-distinct', lists_distinct(res)
        yield 'result-buffers-fresh', cores_fresh(res, S.mark0)
        yield 'row_dims', same_ints(res.row_dims, me.row_dims, d)
        yield 'col_dims', same_ints(res.col_dims, me.col_dims, d)
        yield 'ranks', same_ints(res.ranks, me.ranks, d + 1)
        yield 'kind', FA(0, d, lambda j: lst_get(res.cores, j).cplx == lst_get(me.cores, j).cplx)
        yield 'contiguous', FA(0, d, lambda j: lst_get(res.cores, j).contig)

    def canary(self, S, res):
        return zi(res.order) == zi(S.o['self'].order) + 1 if isinstance(res, STT) else None

    def effect(self, ex, state, A, inst, line):
        me = A['self'].snapshot()
        d = zi(me.order)
        base = state.mark
        state.mark = z3.simplify(state.mark + d)
        f = me.cores.fn if me.cores.items is None else None
        if f is None:
            me.cores.to_fn()
            f = me.cores.fn
        cores = SList(state.alloc(), d, fn=lambda j: SArr(f(j).shape, f(j).cplx, base + j, True, ndim=4, own=True), kind='arr')
        cp = lambda l, n: SList(state.alloc(), n, fn=(lambda j, l=l: lst_get(l, j)), kind='int')  # noqa
        return STT(state.alloc(), d, cp(me.row_dims, d), cp(me.col_dims, d), cp(me.ranks, d + 1), cores)


class _Overwritable(Contract):
    """methods with an `overwrite` flag: overwrite=False -> fresh result, self untouched; True -> result is self"""

    def mutated(self, A):
        if A.get('overwrite', False) is True:
            me = A['self']
            return [me.cores, me.ranks, me.row_dims, me.col_dims]
        return []

    def instances(self):
        return [{'overwrite': False}, {'overwrite': True}]

    def call_inst(self, A):
        ow = A.get('overwrite', False)
        if not isinstance(ow, bool):
            raise Unsupported('symbolic overwrite flag')
        return {'overwrite': ow}

    def modifies(self, S):
        if S.inst.get('overwrite'):
            me = S.o['self']
            return [me.ref, me.row_dims.ref, me.col_dims.ref, me.ranks.ref, me.cores.ref], []
        return [], []

    def common_ensures(self, S, res):
        me0 = S.o['self']
        yield 'returns-TT', isinstance(res, STT)
        if not isinstance(res, STT):
            return
        yield 'wf(result)', wf(res)
        if S.inst.get('overwrite'):
            yield 'result-is-self', res.ref == me0.ref
        else:
            yield 'result-object-and-lists-fresh', meta_fresh(res, S.mark0)
            yield 'result-buffers-fresh', cores_fresh(res, S.mark0)
            yield 'result-lists-distinct', lists_distinct(res)


@register
class Conj(_Overwritable):
    name, func = 'TT.conj', 'conj'
    props = ('C01', 'C06')
    loop_ordinals = {0: 'i in range(self.order)'}

    def defaults(self):
        return {'overwrite': False}

    def setup(self, ex, state, inst):
        return {'self': mk_tt(state, 'self', ex.ctx.mark0), 'overwrite': inst['overwrite']}

    def ensures(self, S, res):
        yield from self.common_ensures(S, res)
        if not isinstance(res, STT):
            return
        me = S.o['self']
        d = zi(me.order)
        yield 'order', zi(res.order) == d
        yield 'row_dims', same_ints(res.row_dims, me.row_dims, d)
        yield 'col_dims', same_ints(res.col_dims, me.col_dims, d)
        yield 'ranks', same_ints(res.ranks, me.ranks, d + 1)

    def canary(self, S, res):
        return lst_get(res.ranks, 0) == lst_get(S.o['self'].ranks, 0) + 1 if isinstance(res, STT) else None

    def invariant(self, key, inst):
        if key != 'i in range(self.order)':
            return None

        def inv(V, i, k):
            t, me = V.working_tt('tt_conj'), V.old('self')
            d = zi(me.order)
            yield 'wf', wf(t)
            yield 'order', zi(t.order) == d
            yield 'dims', z3.And(same_ints(t.row_dims, me.row_dims, d), same_ints(t.col_dims, me.col_dims, d), same_ints(t.ranks, me.ranks, d + 1))
            yield 'identity', t.ref == (me.ref if inst['overwrite'] else t.ref)
            if not inst['overwrite']:
                yield 'fresh', z3.And(meta_fresh(t, V.mark0), cores_fresh(t, V.mark0), lists_distinct(t))
            else:
                yield 'lists-are-selfs', z3.And(t.cores.ref == me.cores.ref, t.ranks.ref == me.ranks.ref, t.row_dims.ref == me.row_dims.ref, t.col_dims.ref == me.col_dims.ref)
        return inv

    def effect(self, ex, state, A, inst, line):
        me = A['self']
        if inst['overwrite']:
            t = me
        else:
            t = REG['TT.copy'].effect(ex, state, {'self': me}, {}, line)
        d = zi(t.order)
        snap = t.cores.snapshot()
        snap.to_fn()
        f = snap.fn
        base = state.mark
        state.mark = z3.simplify(state.mark + d)
        t.cores.items = None
        t.cores.length = d
        t.cores.fn = lambda j: SArr(f(j).shape, f(j).cplx, base + j, True, ndim=4, own=True)
        return t


def swapped(P, a, b, j):
    return z3.If(P(j), lst_get(b, j), lst_get(a, j))


@register
class Transpose(_Overwritable):
    name, func = 'TT.transpose', 'transpose'
    props = ('C01', 'C06', 'C20')
    loop_ordinals = {0: 'i in range(self.order)'}

    def instances(self):
        return [{'overwrite': ow, 'conjugate': cj, 'cores': cs} for ow in (False, True) for cj in (False, True) for cs in ('None', 'given')]

    def defaults(self):
        return {'cores': NONE, 'conjugate': False, 'overwrite': False}

    def call_inst(self, A):
        ow, cj = A.get('overwrite', False), A.get('conjugate', False)
        if not isinstance(ow, bool) or not isinstance(cj, bool):
            raise Unsupported('symbolic transpose flags')
        return {'overwrite': ow, 'conjugate': cj, 'cores': 'None' if isinstance(A.get('cores', NONE), SNone) else 'given'}

    def setup(self, ex, state, inst):
        cores = NONE if inst['cores'] == 'None' else SIndexSet(fresh_fun('inS', z3.IntSort(), z3.BoolSort()))
        return {'self': mk_tt(state, 'self', ex.ctx.mark0), 'cores': cores, 'conjugate': inst['conjugate'], 'overwrite': inst['overwrite']}

    def _P(self, S):
        c = S.a['cores'] if 'cores' in S.a else NONE
        if isinstance(c, SIndexSet):
            return c.pred
        if isinstance(c, SNone) or (isinstance(c, SArr) and getattr(c, 'is_prefix', False)):
            return lambda j: z3.BoolVal(True)      # cores=None is replaced by np.arange(0, order): every core
        raise Unsupported('transpose(cores=%s)' % type(c).__name__)

    def ensures(self, S, res):
        yield from self.common_ensures(S, res)
        if not isinstance(res, STT):
            return
        me, P = S.o['self'], self._P(S)
        d = zi(me.order)
        yield 'order', zi(res.order) == d
        yield 'row_dims-swapped-exactly-on-selected-cores', FA(0, d, lambda j: lst_get(res.row_dims, j) == swapped(P, me.row_dims, me.col_dims, j))
        yield 'col_dims-swapped-exactly-on-selected-cores', FA(0, d, lambda j: lst_get(res.col_dims, j) == swapped(P, me.col_dims, me.row_dims, j))
        yield 'ranks', same_ints(res.ranks, me.ranks, d + 1)
        yield 'kind', FA(0, d, lambda j: lst_get(res.cores, j).cplx == lst_get(me.cores, j).cplx)

    def canary(self, S, res):
        return zi(res.order) == zi(S.o['self'].order) + 1 if isinstance(res, STT) else None

    def invariant(self, key, inst):
        if key != 'i in range(self.order)':
            return None

        def inv(V, i, k):
            t, me = V.working_tt('tt_transpose'), V.old('self')
            c = V['cores']
            P = c.pred if isinstance(c, SIndexSet) else (lambda j: z3.BoolVal(True))
            d = zi(me.order)
            yield 'wf', wf(t)
            yield 'order', zi(t.order) == d
            yield 'row', FA(0, d, lambda j: lst_get(t.row_dims, j) == z3.If(j < i, swapped(P, me.row_dims, me.col_dims, j), lst_get(me.row_dims, j)))
            yield 'col', FA(0, d, lambda j: lst_get(t.col_dims, j) == z3.If(j < i, swapped(P, me.col_dims, me.row_dims, j), lst_get(me.col_dims, j)))
            yield 'ranks', same_ints(t.ranks, me.ranks, d + 1)
            yield 'kind', FA(0, d, lambda j: lst_get(t.cores, j).cplx == lst_get(me.cores, j).cplx)
            if not inst['overwrite']:
                yield 'fresh', z3.And(meta_fresh(t, V.mark0), cores_fresh(t, V.mark0), lists_distinct(t))
            else:
                yield 'is-self', z3.And(t.ref == me.ref, t.cores.ref == me.cores.ref, t.ranks.ref == me.ranks.ref, t.row_dims.ref == me.row_dims.ref, t.col_dims.ref == me.col_dims.ref)
        return inv

    def effect(self, ex, state, A, inst, line):
        me = A['self']
        P = self._P(type('S', (), {'a': A})())
        t = me if inst['overwrite'] else REG['TT.copy'].effect(ex, state, {'self': me}, {}, line)
        old = t.snapshot()
        for l in (old.cores, old.row_dims, old.col_dims):
            l.to_fn()
        d = zi(t.order)
        f, fr, fc = old.cores.fn, old.row_dims.fn, old.col_dims.fn
        base = state.mark
        state.mark = z3.simplify(state.mark + d)

        def core(j):
            c = f(j)
            sh = [c.shape[0], z3.If(P(j), c.shape[2], c.shape[1]), z3.If(P(j), c.shape[1], c.shape[2]), c.shape[3]]
            buf = base + j if inst['conjugate'] else c.buf
            return SArr(sh, c.cplx, z3.If(P(j), buf, c.buf), z3.If(P(j), z3.BoolVal(bool(inst['conjugate'])), c.contig), ndim=4)
        t.cores.items, t.cores.length, t.cores.fn = None, d, core
        t.row_dims.items, t.row_dims.length, t.row_dims.fn = None, d, (lambda j: z3.If(P(j), fc(j), fr(j)))
        t.col_dims.items, t.col_dims.length, t.col_dims.fn = None, d, (lambda j: z3.If(P(j), fr(j), fc(j)))
        # ghost: a transposed tensor train used as the bra of an inner product remembers whether it was conjugated
        t.conjT = bool(inst['conjugate'])
        return t


@register
class RankTranspose(_Overwritable):
    name, func = 'TT.rank_transpose', 'rank_transpose'
    props = ('C02', 'C06')
    loop_ordinals = {0: 'i in range(len(tt_transpose.cores))'}

    def defaults(self):
        return {'overwrite': False}

    def setup(self, ex, state, inst):
        return {'self': mk_tt(state, 'self', ex.ctx.mark0), 'overwrite': inst['overwrite']}

    def ensures(self, S, res):
        yield from self.common_ensures(S, res)
        if not isinstance(res, STT):
            return
        me = S.o['self']
        d = zi(me.order)
        yield 'order', zi(res.order) == d
        yield 'row_dims-reversed', FA(0, d, lambda j: lst_get(res.row_dims, j) == lst_get(me.row_dims, d - 1 - j))
        yield 'col_dims-reversed', FA(0, d, lambda j: lst_get(res.col_dims, j) == lst_get(me.col_dims, d - 1 - j))
        yield 'ranks-reversed', FA(0, d + 1, lambda j: lst_get(res.ranks, j) == lst_get(me.ranks, d - j))

    def canary(self, S, res):
        return lst_get(res.ranks, 0) == lst_get(S.o['self'].ranks, 0) + 1 if isinstance(res, STT) else None

    def invariant(self, key, inst):
        if key != 'i in range(len(tt_transpose.cores))':
            return None

        def inv(V, i, k):
            t, me = V.working_tt('tt_transpose'), V.old('self')
            d = zi(me.order)
            yield 'lengths', z3.And(zi(t.order) == d, zi(t.cores.length) == d, zi(t.row_dims.length) == d, zi(t.col_dims.length) == d, zi(t.ranks.length) == d + 1)
            yield 'metadata-untouched', z3.And(same_ints(t.row_dims, me.row_dims, d), same_ints(t.col_dims, me.col_dims, d), same_ints(t.ranks, me.ranks, d + 1))
            yield 'cores', FA(0, d, lambda j: z3.If(
                j < i,
                core_shape_ok(lst_get(t.cores, j), lst_get(me.ranks, d - j), lst_get(me.row_dims, d - 1 - j), lst_get(me.col_dims, d - 1 - j), lst_get(me.ranks, d - 1 - j)),
                core_shape_ok(lst_get(t.cores, j), lst_get(me.ranks, d - 1 - j), lst_get(me.row_dims, d - 1 - j), lst_get(me.col_dims, d - 1 - j), lst_get(me.ranks, d - j))))
            if not inst['overwrite']:
                yield 'fresh', z3.And(meta_fresh(t, V.mark0), cores_fresh(t, V.mark0), lists_distinct(t))
            else:
                yield 'is-self', z3.And(t.ref == me.ref, t.cores.ref == me.cores.ref, t.ranks.ref == me.ranks.ref, t.row_dims.ref == me.row_dims.ref, t.col_dims.ref == me.col_dims.ref)
        return inv


class SScalarStr:
    pass


@register
class Mul(Contract):
    name, func = 'TT.__mul__', '__mul__'
    props = ('C01', 'C06')

    def instances(self):
        return [{'scalar': 'number'}, {'scalar': 'str'}]

    def setup(self, ex, state, inst):
        sc = SNum('scalar', cplx=fresh('scalar_cx', 'bool')) if inst['scalar'] == 'number' else 'a-string'
        return {'self': mk_tt(state, 'self', ex.ctx.mark0), 'scalar': sc}

    def exceptional(self, S):
        sc = S.a['scalar']
        return {'TypeError': not (isinstance(sc, SNum) or is_conc_int(sc) or isinstance(sc, z3.ArithRef))}

    def ensures(self, S, res):
        me, sc = S.o['self'], S.a['scalar']
        d = zi(me.order)
        yield 'returns-TT', isinstance(res, STT)
        if not isinstance(res, STT):
            return
        yield 'wf(result)', wf(res)
        yield 'result-object-and-lists-fresh', meta_fresh(res, S.mark0)
        yield 'result-buffers-fresh', cores_fresh(res, S.mark0)
        yield 'result-lists-distinct', lists_distinct(res)
        yield 'order', zi(res.order) == d
        yield 'dims', z3.And(same_ints(res.row_dims, me.row_dims, d), same_ints(res.col_dims, me.col_dims, d), same_ints(res.ranks, me.ranks, d + 1))
        scx = sc.cplx if isinstance(sc, SNum) else z3.BoolVal(False)
        yield 'kind', z3.And(lst_get(res.cores, 0).cplx == z3.Or(lst_get(me.cores, 0).cplx, scx),
                             FA(1, d, lambda j: lst_get(res.cores, j).cplx == lst_get(me.cores, j).cplx))

    def canary(self, S, res):
        return zi(res.order) == zi(S.o['self'].order) + 1 if isinstance(res, STT) else None

    def effect(self, ex, state, A, inst, line):
        t = REG['TT.copy'].effect(ex, state, {'self': A['self']}, {}, line)
        sc = A['scalar']
        scx = sc.cplx if isinstance(sc, SNum) else z3.BoolVal(False)
        c0 = lst_get(t.cores, 0)
        t.cores.set(0, SArr(c0.shape, z3.Or(c0.cplx, scx), state.alloc(), True, ndim=4, own=True))
        return t


@register
class RMul(Mul):
    name, func = 'TT.__rmul__', '__rmul__'

    def instances(self):
        return [{'scalar': 'number'}]

    def exceptional(self, S):
        return {}


def boundary_one(t):
    return z3.And(lst_get(t.ranks, 0) == 1, lst_get(t.ranks, zi(t.order)) == 1)


def dims_equal(a, b):
    d = zi(a.order)
    return z3.And(zi(a.row_dims.length) == zi(b.row_dims.length), zi(a.col_dims.length) == zi(b.col_dims.length),
                  same_ints(a.row_dims, b.row_dims, d), same_ints(a.col_dims, b.col_dims, d))


def fresh_result(S, res):
    yield 'returns-TT', isinstance(res, STT)
    if isinstance(res, STT):
        yield 'wf(result)', wf(res)
        yield 'result-object-and-lists-fresh', meta_fresh(res, S.mark0)
        yield 'result-buffers-fresh', cores_fresh(res, S.mark0)
        yield 'result-lists-distinct', lists_distinct(res)


@register
class Add(Contract):
    name, func = 'TT.__add__', '__add__'
    props = ('C01', 'C06')
    list_kinds = {'cores': 'arr'}
    loop_ordinals = {0: 'i in range(order)'}

    def instances(self):
        return [{'other': 'TT'}, {'other': 'not-TT'}]

    def setup(self, ex, state, inst):
        m0 = ex.ctx.mark0
        other = mk_tt(state, 'tt_add', m0) if inst['other'] == 'TT' else 17
        return {'self': mk_tt(state, 'self', m0), 'tt_add': other}

    def requires(self, S):
        me, o = S.a['self'], S.a['tt_add']
        # derived from the block assignments: the first/last core of both operands occupy the single boundary block
        yield 'boundary-ranks-1(self)', boundary_one(me)
        if isinstance(o, STT):
            yield 'boundary-ranks-1(tt_add)', boundary_one(o)

    def exceptional(self, S):
        me, o = S.o['self'], S.o['tt_add']
        if not isinstance(o, STT):
            return {'TypeError': True, 'ValueError': False}
        return {'TypeError': False, 'ValueError': z3.Not(dims_equal(me, o))}

    def ensures(self, S, res):
        me, o = S.o['self'], S.o['tt_add']
        yield from fresh_result(S, res)
        if not isinstance(res, STT):
            return
        d = zi(me.order)
        yield 'order', zi(res.order) == d
        yield 'dims', z3.And(same_ints(res.row_dims, me.row_dims, d), same_ints(res.col_dims, me.col_dims, d))
        yield 'ranks-add-up', z3.And(lst_get(res.ranks, 0) == 1, lst_get(res.ranks, d) == 1,
                                     FA(1, d, lambda j: lst_get(res.ranks, j) == lst_get(me.ranks, j) + lst_get(o.ranks, j)))
        yield 'kind', FA(0, d, lambda j: lst_get(res.cores, j).cplx == z3.Or(lst_get(me.cores, j).cplx, lst_get(o.cores, j).cplx))

    def canary(self, S, res):
        return lst_get(res.ranks, 0) == 2 if isinstance(res, STT) else None

    def invariant(self, key, inst):
        if key != 'i in range(order)':
            return None

        def inv(V, i, k):
            cores, ranks, me, o = V['cores'], V['ranks'], V.old('self'), V.old('tt_add')
            yield 'len', zi(cores.length) == i
            yield 'fresh-list', cores.ref >= V.mark0
            yield 'cores', FA(0, i, lambda j: z3.And(
                core_shape_ok(lst_get(cores, j), lst_get(ranks, j), lst_get(me.row_dims, j), lst_get(me.col_dims, j), lst_get(ranks, j + 1)),
                lst_get(cores, j).buf >= V.mark0,
                lst_get(cores, j).cplx == z3.Or(lst_get(me.cores, j).cplx, lst_get(o.cores, j).cplx)))
        return inv

    def effect(self, ex, state, A, inst, line):
        me, o = A['self'].snapshot(), A['tt_add'].snapshot()
        for t in (me, o):
            for l in (t.cores, t.ranks, t.row_dims, t.col_dims):
                l.to_fn()
        d = zi(me.order)
        base = state.mark
        state.mark = z3.simplify(state.mark + d)
        rk = lambda j: z3.If(z3.Or(j <= 0, j >= d), z3.IntVal(1), me.ranks.fn(j) + o.ranks.fn(j))  # noqa
        cores = SList(state.alloc(), d, kind='arr', fn=lambda j: SArr([rk(j), me.row_dims.fn(j), me.col_dims.fn(j), rk(j + 1)],
                                                                      z3.Or(me.cores.fn(j).cplx, o.cores.fn(j).cplx), base + j, True, ndim=4, own=True))
        return build_tt_from_cores(state, cores, d)


@register
class Sub(Contract):
    name, func = 'TT.__sub__', '__sub__'
    props = ('C01', 'C06')

    def setup(self, ex, state, inst):
        m0 = ex.ctx.mark0
        return {'self': mk_tt(state, 'self', m0), 'tt_sub': mk_tt(state, 'tt_sub', m0)}

    def requires(self, S):
        me, o = S.a['self'], S.a['tt_sub']
        yield 'boundary-ranks-1(self)', boundary_one(me)
        yield 'boundary-ranks-1(tt_sub)', boundary_one(o)
        # the ValueError of the sum propagates; exception propagation is outside the subset, so equal dims are required
        yield 'dims-equal', dims_equal(me, o)

    def ensures(self, S, res):
        me, o = S.o['self'], S.o['tt_sub']
        yield from fresh_result(S, res)
        if not isinstance(res, STT):
            return
        d = zi(me.order)
        yield 'order', zi(res.order) == d
        yield 'dims', z3.And(same_ints(res.row_dims, me.row_dims, d), same_ints(res.col_dims, me.col_dims, d))
        yield 'ranks-add-up', z3.And(lst_get(res.ranks, 0) == 1, lst_get(res.ranks, d) == 1,
                                     FA(1, d, lambda j: lst_get(res.ranks, j) == lst_get(me.ranks, j) + lst_get(o.ranks, j)))

    def canary(self, S, res):
        return lst_get(res.ranks, 0) == 2 if isinstance(res, STT) else None

    def effect(self, ex, state, A, inst, line):
        return REG['TT.__add__'].effect(ex, state, {'self': A['self'], 'tt_add': A['tt_sub']}, {}, line)


@register
class Element(Contract):
    name, func = 'TT.element', 'element'
    props = ('C01',)
    loop_ordinals = {0: 'i in range(1, self.order)'}

    def instances(self):
        return [{'indices': 'list'}, {'indices': 'not-a-list'}]

    def setup(self, ex, state, inst):
        m0 = ex.ctx.mark0
        me = mk_tt(state, 'self', m0)
        if inst['indices'] == 'list':
            n = fresh('nidx')
            idx = mk_int_list(state, 'indices', n)
            state.assume(z3.And(n >= 0, idx.ref >= 0, idx.ref < m0))
        else:
            idx = 7
        return {'self': me, 'indices': idx}

    def requires(self, S):
        yield 'boundary-ranks-1', boundary_one(S.a['self'])

    def exceptional(self, S):
        me, idx = S.o['self'], S.o['indices']
        if not isinstance(idx, SList):
            return {'TypeError': True, 'ValueError': False, 'IndexError': False}
        d = zi(me.order)
        n = zi(idx.length)
        inrange = z3.And(FA(0, 2 * d, lambda j: lst_get(idx, j) >= 0), FA(0, d, lambda j: lst_get(idx, j) < lst_get(me.row_dims, j)),
                         FA(0, d, lambda j: lst_get(idx, j + d) < lst_get(me.col_dims, j)))
        return {'TypeError': False, 'ValueError': n != 2 * d, 'IndexError': z3.And(n == 2 * d, z3.Not(inrange))}

    def ensures(self, S, res):
        yield 'returns-scalar', isinstance(res, SNum) or (isinstance(res, SArr) and len(res.shape) == 0)

    def canary(self, S, res):
        return z3.BoolVal(False)

    def invariant(self, key, inst):
        if key != 'i in range(1, self.order)':
            return None

        def inv(V, i, k):
            me = V.old('self')
            e = V['entry']
            yield 'shape', z3.And(e.shape[0] == 1, e.shape[1] == lst_get(me.ranks, i)) if len(e.shape) == 2 else False
        return inv

    def effect(self, ex, state, A, inst, line):
        return SNum('element', cplx=fresh('elem_cx', 'bool'))


@register
class MatMul(Contract):
    name, func = 'TT.__matmul__', '__matmul__'
    props = ('C01', 'C06', 'C20')

    def instances(self):
        return [{'other': 'TT'}, {'other': 'not-TT'}]

    def setup(self, ex, state, inst):
        m0 = ex.ctx.mark0
        other = mk_tt(state, 'tt_mul', m0) if inst['other'] == 'TT' else 17
        return {'self': mk_tt(state, 'self', m0), 'tt_mul': other}

    def requires(self, S):
        me, o = S.a['self'], S.a['tt_mul']
        if isinstance(o, STT):
            # derived from the code: cores are paired index by index over range(self.order)
            yield 'same-order', zi(me.order) == zi(o.order)
            # the all-dims-1 case returns element([0, ...]) of the product, which needs boundary ranks 1
            yield 'boundary-ranks-1', z3.And(boundary_one(me), boundary_one(o))

    def _cols_match(self, me, o):
        d = zi(me.order)
        return z3.And(zi(me.col_dims.length) == zi(o.row_dims.length), same_ints(me.col_dims, o.row_dims, d))

    def exceptional(self, S):
        me, o = S.o['self'], S.o['tt_mul']
        if not isinstance(o, STT):
            return {'TypeError': True, 'ValueError': False}
        return {'TypeError': False, 'ValueError': z3.Not(self._cols_match(me, o))}

    def _all_one(self, me, o):
        d = zi(me.order)
        return z3.And(FA(0, d, lambda j: lst_get(me.row_dims, j) == 1), FA(0, d, lambda j: lst_get(o.col_dims, j) == 1))

    def ensures(self, S, res):
        me, o = S.o['self'], S.o['tt_mul']
        d = zi(me.order)
        if isinstance(res, STT):
            yield 'TT-result-only-if-some-dim>1', z3.Not(self._all_one(me, o))
            yield from fresh_result(S, res)
            yield 'order', zi(res.order) == d
            yield 'row_dims', same_ints(res.row_dims, me.row_dims, d)
            yield 'col_dims', same_ints(res.col_dims, o.col_dims, d)
            yield 'ranks-multiply', FA(0, d + 1, lambda j: lst_get(res.ranks, j) == lst_get(me.ranks, j) * lst_get(o.ranks, j))
            yield 'kind', FA(0, d, lambda j: lst_get(res.cores, j).cplx == z3.Or(lst_get(me.cores, j).cplx, lst_get(o.cores, j).cplx))
        else:
            yield 'scalar-result-only-if-all-dims-1', self._all_one(me, o)
            yield 'scalar', isinstance(res, SNum)

    def canary(self, S, res):
        return lst_get(res.ranks, 0) == lst_get(S.o['self'].ranks, 0) * lst_get(S.o['tt_mul'].ranks, 0) + 1 if isinstance(res, STT) else None

    def effect(self, ex, state, A, inst, line):
        me, o = A['self'].snapshot(), A['tt_mul'].snapshot()
        for t in (me, o):
            for l in (t.cores, t.ranks, t.row_dims, t.col_dims):
                l.to_fn()
        d = zi(me.order)
        base = state.mark
        state.mark = z3.simplify(state.mark + d)
        cores = SList(state.alloc(), d, kind='arr', fn=lambda j: SArr(
            [me.ranks.fn(j) * o.ranks.fn(j), me.row_dims.fn(j), o.col_dims.fn(j), me.ranks.fn(j + 1) * o.ranks.fn(j + 1)],
            z3.Or(me.cores.fn(j).cplx, o.cores.fn(j).cplx), base + j, False, ndim=4, own=True))
        # the kind of the result (scalar iff every dimension is 1) depends on data: the caller's statement is forked
        from vt.e1.symexec import ForkRequest
        key = ('matmul', line, str(me.ref), str(o.ref))
        dec = state.decisions.get(key)
        if dec is None:
            raise ForkRequest(key, self._all_one(me, o))
        if dec:
            # an inner product <left| ... |right>: contracts that speak about sesquilinear forms (Rayleigh quotients, Lanczos
            # coefficients) check here that the bra was obtained by a *conjugate* transposition
            hook = getattr(ex.ctx.contract, 'on_scalar_product', None)
            if hook is not None:
                hook(ex, state, A['self'], A['tt_mul'], line)
            return SNum('inner', cplx=fresh('inner_cx', 'bool'))
        r = build_tt_from_cores(state, cores, d)
        if 'conjT' in A['self'].__dict__:
            r.conjT = A['self'].__dict__['conjT']         # (bra . operator) is still a bra
        return r


@register
class Dot(MatMul):
    name, func = 'TT.dot', 'dot'

    def instances(self):
        return [{'other': 'TT'}]

    def exceptional(self, S):
        return {}

    def requires(self, S):
        yield from MatMul.requires(self, S)
        yield 'dims-match', self._cols_match(S.a['self'], S.a['tt_mul'])


@register
class Concatenate(_Overwritable):
    name, func = 'TT.concatenate', 'concatenate'
    props = ('C02', 'C06')

    def instances(self):
        return [{'overwrite': ow, 'other': o} for ow in (False, True) for o in ('TT', 'list')]

    def defaults(self):
        return {'overwrite': False}

    def call_inst(self, A):
        i = _Overwritable.call_inst(self, A)
        i['other'] = 'TT' if isinstance(A['other'], STT) else 'list'
        return i

    def setup(self, ex, state, inst):
        m0 = ex.ctx.mark0
        if inst['other'] == 'TT':
            other = mk_tt(state, 'other', m0)
        else:
            n = fresh('n')
            other = SList(fresh('other_ref'), n, fn=sym_elem_fn('arr', state), kind='arr')
            state.assume(z3.And(other.ref >= 0, other.ref < m0, n >= 1))
            state.assume(FA(0, n, lambda j: z3.And(lst_get(other, j).buf >= 0, lst_get(other, j).buf < m0, *[s >= 1 for s in lst_get(other, j).shape])))
        return {'self': mk_tt(state, 'self', m0), 'other': other, 'overwrite': inst['overwrite']}

    def domain_extra(self, S):
        o = S.a['other']
        if isinstance(o, SList):
            yield 'other-nonempty', o.len_term() >= 1
            yield 'other-core-dimensions-positive', FA(0, o.len_term(), lambda j: z3.And(*[x >= 1 for x in lst_get(o, j).shape]))

    def _ocores(self, o):
        return o.cores if isinstance(o, STT) else o

    def exceptional(self, S):
        me, o = S.o['self'], S.o['other']
        d = zi(me.order)
        oc = self._ocores(o)
        n = zi(oc.length)
        mismatch = lst_get(me.ranks, d) != lst_get(oc, 0).shape[0]
        if isinstance(o, STT):
            return {'ValueError': mismatch}
        all4 = FA(0, n, lambda j: zi(lst_get(oc, j).ndim) == 4)
        chain = FA(0, n - 1, lambda j: lst_get(oc, j).shape[3] == lst_get(oc, j + 1).shape[0])
        return {'ValueError': z3.Or(z3.Not(all4), z3.Not(chain), mismatch)}

    def ensures(self, S, res):
        yield from self.common_ensures(S, res)
        if not isinstance(res, STT):
            return
        me, o = S.o['self'], S.o['other']
        oc = self._ocores(o)
        d, e = zi(me.order), zi(oc.length)
        yield 'order', zi(res.order) == d + e
        yield 'row_dims', FA(0, d + e, lambda j: lst_get(res.row_dims, j) == z3.If(j < d, lst_get(me.row_dims, j), lst_get(oc, j - d).shape[1]))
        yield 'col_dims', FA(0, d + e, lambda j: lst_get(res.col_dims, j) == z3.If(j < d, lst_get(me.col_dims, j), lst_get(oc, j - d).shape[2]))
        yield 'ranks', z3.And(FA(0, d + e, lambda j: lst_get(res.ranks, j) == z3.If(j < d, lst_get(me.ranks, j), lst_get(oc, j - d).shape[0])),
                              lst_get(res.ranks, d + e) == lst_get(oc, e - 1).shape[3])
        # C06: the appended cores must not share memory with `other` (in-place operations on the result must not reach it)
        yield 'appended-buffers-fresh', FA(d, d + e, lambda j: lst_get(res.cores, j).buf >= S.mark0)

    def canary(self, S, res):
        return zi(res.order) == zi(S.o['self'].order) if isinstance(res, STT) else None


@register
class RankTensordot(_Overwritable):
    name, func = 'TT.rank_tensordot', 'rank_tensordot'
    props = ('C02', 'C06')

    def instances(self):
        return [{'overwrite': ow, 'mode': m} for ow in (False, True) for m in ('last', 'first', 'other')]

    def defaults(self):
        return {'mode': 'last', 'overwrite': False}

    def call_inst(self, A):
        i = _Overwritable.call_inst(self, A)
        i['mode'] = A.get('mode', 'last')
        return i

    def setup(self, ex, state, inst):
        m0 = ex.ctx.mark0
        mat = SArr([fresh('m0'), fresh('m1')], fresh('mcx', 'bool'), fresh('mbuf'), fresh('mct', 'bool'))
        state.assume(z3.And(mat.shape[0] >= 1, mat.shape[1] >= 1, mat.buf >= 0, mat.buf < m0))
        return {'self': mk_tt(state, 'self', m0), 'matrix': mat, 'mode': {'other': 'middle'}.get(inst['mode'], inst['mode']), 'overwrite': inst['overwrite']}

    def domain_extra(self, S):
        mat = S.a['matrix']
        yield 'matrix-dimensions-positive', z3.And(mat.shape[0] >= 1, mat.shape[1] >= 1)

    def exceptional(self, S):
        me, mat, mode = S.o['self'], S.a['matrix'], S.a['mode']
        d = zi(me.order)
        if mode == 'last':
            return {'ValueError': lst_get(me.ranks, d) != mat.shape[0]}
        if mode == 'first':
            return {'ValueError': lst_get(me.ranks, 0) != mat.shape[1]}
        return {'ValueError': True}

    def ensures(self, S, res):
        yield from self.common_ensures(S, res)
        if not isinstance(res, STT):
            return
        me, mat, mode = S.o['self'], S.a['matrix'], S.a['mode']
        d = zi(me.order)
        yield 'order', zi(res.order) == d
        yield 'dims', z3.And(same_ints(res.row_dims, me.row_dims, d), same_ints(res.col_dims, me.col_dims, d))
        if mode == 'last':
            yield 'ranks', z3.And(FA(0, d, lambda j: lst_get(res.ranks, j) == lst_get(me.ranks, j)), lst_get(res.ranks, d) == mat.shape[1])
        else:
            yield 'ranks', z3.And(FA(1, d + 1, lambda j: lst_get(res.ranks, j) == lst_get(me.ranks, j)), lst_get(res.ranks, 0) == mat.shape[0])

    def canary(self, S, res):
        return zi(res.order) == zi(S.o['self'].order) + 1 if isinstance(res, STT) else None


class _Ctor(Contract):
    cls = None
    props = ('C01', 'C06')
    kindname = 'zeros'

    def instances(self):
        return [{'ranks': 'int'}, {'ranks': 'list'}]

    def setup(self, ex, state, inst):
        m0 = ex.ctx.mark0
        d = fresh('d')
        state.assume(d >= 1)
        rd = mk_int_list(state, 'row_dims', d)
        cd = mk_int_list(state, 'col_dims', d)
        for l in (rd, cd):
            state.assume(z3.And(l.ref >= 0, l.ref < m0))
            state.assume(FA(0, d, lambda j, l=l: lst_get(l, j) >= 1))
        if inst['ranks'] == 'int':
            rk = fresh('r')
            state.assume(rk >= 1)
        else:
            rk = mk_int_list(state, 'ranks', d + 1)
            state.assume(z3.And(rk.ref >= 0, rk.ref < m0))
            state.assume(FA(0, d + 1, lambda j: lst_get(rk, j) >= 1))
        return {'row_dims': rd, 'col_dims': cd, 'ranks': rk}

    def domain_extra(self, S):
        rd, cd, rk = S.a['row_dims'], S.a['col_dims'], S.a.get('ranks', 1)
        d = zi(rd.len_term())
        yield 'order>=1', d >= 1
        yield 'dims>=1', FA(0, d, lambda j: z3.And(lst_get(rd, j) >= 1, lst_get(cd, j) >= 1))
        yield 'ranks>=1', FA(0, d + 1, lambda j: lst_get(rk, j) >= 1) if isinstance(rk, SList) else zi(rk) >= 1

    def _rk(self, S, j):
        rk, d = S.o['ranks'], zi(S.o['row_dims'].length)
        if isinstance(rk, SList):
            return lst_get(rk, j)
        return z3.If(z3.Or(j <= 0, j >= d), z3.IntVal(1), zi(rk))

    def ensures(self, S, res):
        yield from fresh_result(S, res)
        if not isinstance(res, STT):
            return
        rd, cd = S.o['row_dims'], S.o['col_dims']
        d = zi(rd.length)
        yield 'order', zi(res.order) == d
        yield 'row_dims', same_ints(res.row_dims, rd, d)
        yield 'col_dims', same_ints(res.col_dims, cd, d)
        yield 'ranks', FA(0, d + 1, lambda j: lst_get(res.ranks, j) == self._rk(S, j))
        yield 'real', FA(0, d, lambda j: z3.Not(lst_get(res.cores, j).cplx))

    def canary(self, S, res):
        return zi(res.order) == zi(S.o['row_dims'].length) + 1 if isinstance(res, STT) else None

    def defaults(self):
        return {'ranks': 1}

    def effect(self, ex, state, A, inst, line):
        rd, cd, rk = A['row_dims'].snapshot(), A['col_dims'].snapshot(), A.get('ranks', 1)
        rd.to_fn(), cd.to_fn()
        d = zi(rd.length)
        if isinstance(rk, SList):
            rks = rk.snapshot()
            rks.to_fn()
            rf = rks.fn
        else:
            rf = lambda j: z3.If(z3.Or(j <= 0, j >= d), z3.IntVal(1), zi(rk))  # noqa
        base = state.mark
        state.mark = z3.simplify(state.mark + d)
        cores = SList(state.alloc(), d, kind='arr', fn=lambda j: SArr([rf(j), rd.fn(j), cd.fn(j), rf(j + 1)], False, base + j, True, ndim=4, own=True))
        return build_tt_from_cores(state, cores, d)


@register
class Zeros(_Ctor):
    name, func = 'fn:zeros', 'zeros'


@register
class Ones(_Ctor):
    name, func = 'fn:ones', 'ones'


@register
class Rand(_Ctor):
    name, func = 'fn:rand', 'rand'


@register
class Eye(Contract):
    name, func, cls = 'fn:eye', 'eye', None
    props = ('C01', 'C06')

    def setup(self, ex, state, inst):
        m0 = ex.ctx.mark0
        d = fresh('d')
        state.assume(d >= 1)
        dims = mk_int_list(state, 'dims', d)
        state.assume(z3.And(dims.ref >= 0, dims.ref < m0))
        state.assume(FA(0, d, lambda j: lst_get(dims, j) >= 1))
        return {'dims': dims}

    def domain_extra(self, S):
        dims = S.a['dims']
        yield 'order>=1', dims.len_term() >= 1
        yield 'dims>=1', FA(0, dims.len_term(), lambda j: lst_get(dims, j) >= 1)

    def ensures(self, S, res):
        yield from fresh_result(S, res)
        if not isinstance(res, STT):
            return
        dims = S.o['dims']
        d = zi(dims.length)
        yield 'order', zi(res.order) == d
        yield 'dims', z3.And(same_ints(res.row_dims, dims, d), same_ints(res.col_dims, dims, d))
        yield 'ranks-1', FA(0, d + 1, lambda j: lst_get(res.ranks, j) == 1)

    def canary(self, S, res):
        return lst_get(res.ranks, 0) == 2 if isinstance(res, STT) else None

    def invariant(self, key, inst):
        if key != 'i in range(len(dims))':
            return None

        def inv(V, i, k):
            cores, dims = V['cores'], V.old('dims')
            d = zi(dims.length)
            yield 'cores', z3.And(zi(cores.length) == d, cores.ref >= V.mark0, FA(0, d, lambda j: z3.And(
                core_shape_ok(lst_get(cores, j), 1, lst_get(dims, j), lst_get(dims, j), 1), lst_get(cores, j).buf >= V.mark0, z3.Not(lst_get(cores, j).cplx))))
        return inv

    def effect(self, ex, state, A, inst, line):
        dims = A['dims'].snapshot()
        dims.to_fn()
        d = zi(dims.length)
        base = state.mark
        state.mark = z3.simplify(state.mark + d)
        cores = SList(state.alloc(), d, kind='arr', fn=lambda j: SArr([1, dims.fn(j), dims.fn(j), 1], False, base + j, True, ndim=4, own=True))
        return build_tt_from_cores(state, cores, d)


# ----------------------------------------------------------------------------------------------------------------------
# orthonormalisation (C03, C04, C06)

def is_self_lists(t, me):
    return z3.And(t.ref == me.ref, t.cores.ref == me.cores.ref, t.ranks.ref == me.ranks.ref, t.row_dims.ref == me.row_dims.ref,
                  t.col_dims.ref == me.col_dims.ref)


def _caps_validation_inv(V, i, k):
    """the loop that validates a per-bond list of caps only reads; for an admissible list the flag stays True"""
    yield 'max_rank_tf', zb(V['max_rank_tf']) == z3.BoolVal(True)
    me, me0 = V['self'], V.old('self')
    yield 'self-untouched', z3.And(is_self_lists(me, me0), wf(me), zi(me.order) == zi(me0.order), same_ints(me.ranks, me0.ranks, zi(me0.order) + 1),
                                   same_ints(me.row_dims, me0.row_dims, zi(me0.order)), same_ints(me.col_dims, me0.col_dims, zi(me0.order)))


def cap_at(rank, mr, j):
    """rank (of bond j) respects the cap: a scalar cap, or entry j of a per-bond list of caps"""
    if isinstance(mr, SList):
        return cap_ok(rank, lst_get(mr, j))
    return cap_ok(rank, mr)


def caps_valid(mr, d):
    """what the code accepts as max_rank: a positive integer / inf, or a list of order + 1 of them"""
    if isinstance(mr, SList):
        return z3.And(zi(mr.len_term()) == d + 1, FA(0, d + 1, lambda j: z3.Or(lst_get(mr, j).is_inf, lst_get(mr, j).val >= 1)))
    if isinstance(mr, SMaxRank):
        return z3.Or(mr.is_inf, mr.val >= 1)
    if isinstance(mr, SInf):
        return z3.BoolVal(True)
    return zi(mr) >= 1


def cap_ok(rank, mr):
    """rank <= max_rank (trivially true for inf)"""
    if isinstance(mr, SMaxRank):
        return z3.Or(mr.is_inf, zi(rank) <= mr.val)
    if isinstance(mr, SInf):
        return z3.BoolVal(True)
    return zi(rank) <= zi(mr)


class _Sweep(Contract):
    props = ('C03', 'C04', 'C06')

    def mutated(self, A):
        return [A['self'].cores, A['self'].ranks]

    def mk_common(self, ex, state, inst=None):
        m0 = ex.ctx.mark0
        thr = SNum('threshold', nonneg=z3.BoolVal(True))
        me = mk_tt(state, 'self', m0)
        if inst is not None and inst.get('cap') == 'list':
            # per-bond caps: a list of order + 1 entries, each a positive integer or inf
            mr = SList(fresh('max_rank_ref'), zi(me.order) + 1, fn=sym_elem_fn('maxrank', state), kind='maxrank')
        else:
            mr = SMaxRank('max_rank')
        return me, thr, mr

    def domain_extra(self, S):
        yield 'max_rank-positive-or-inf', caps_valid(S.a.get('max_rank', INF), zi(S.a['self'].order))

    def modifies(self, S):
        me = S.o['self']
        lo, hi = self.written_core_range(S)
        d = zi(me.order)
        lo2 = z3.If(lo < 0, z3.IntVal(0), lo)
        hi2 = z3.If(hi > d - 1, d - 1, hi)
        return [me.ref, me.cores.ref, me.ranks.ref], [(lo2, hi2, lambda j: lst_get(me.cores, j).buf)]


@register
class OrthoLeft(_Sweep):
    name, func = 'TT.ortho_left', 'ortho_left'
    loop_ordinals = {0: 'i in range(self.order + 1)', 1: 'i in range(start_index, end_index + 1)'}

    def instances(self):
        return [{'end': 'None'}, {'end': 'given'}, {'end': 'None', 'cap': 'list'}, {'end': 'given', 'cap': 'list'}]

    def call_inst(self, A):
        return {'cap': 'list'} if isinstance(A.get('max_rank'), SList) else {}

    def defaults(self):
        return {'start_index': 0, 'end_index': NONE, 'threshold': SNum('thr0', nonzero=z3.BoolVal(False), nonneg=z3.BoolVal(True)),
                'max_rank': INF, 'progress': False, 'string': 'Left-orthonormalization'}

    def setup(self, ex, state, inst):
        me, thr, mr = self.mk_common(ex, state, inst)
        start = fresh('start_index')
        end = NONE if inst['end'] == 'None' else fresh('end_index')
        return {'self': me, 'start_index': start, 'end_index': end, 'threshold': thr, 'max_rank': mr, 'progress': False, 'string': 'x'}

    def _end(self, S):
        e = S.o['end_index'] if 'end_index' in S.o else NONE
        return zi(S.o['self'].order) - 2 if isinstance(e, SNone) else zi(e)

    def written_core_range(self, S):
        return zi(S.o['start_index']), self._end(S)

    def requires(self, S):
        me = S.a['self']
        yield 'start>=0', zi(S.a['start_index']) >= 0
        # derived from the code: core end_index+1 is read and written, so end_index <= order-2
        e = S.a['end_index']
        if not isinstance(e, SNone):
            yield 'end<=order-2', zi(e) <= zi(me.order) - 2

    def ensures(self, S, res):
        me0, me = S.o['self'], S.a['self']
        d = zi(me0.order)
        s, e = zi(S.o['start_index']), self._end(S)
        mr = S.o['max_rank']
        yield 'returns-self', isinstance(res, STT) and res is me
        yield 'wf(self)', wf(me)
        yield 'identity', is_self_lists(me, me0)
        yield 'order-and-dims-unchanged', z3.And(zi(me.order) == d, same_ints(me.row_dims, me0.row_dims, d), same_ints(me.col_dims, me0.col_dims, d))
        yield 'ranks-never-increase', FA(0, d + 1, lambda j: lst_get(me.ranks, j) <= lst_get(me0.ranks, j))
        yield 'ranks-outside-sweep-unchanged', FA(0, d + 1, lambda j: z3.Implies(z3.Not(z3.And(s < j, j <= e + 1)), lst_get(me.ranks, j) == lst_get(me0.ranks, j)))
        yield 'cores-outside-sweep-untouched', FA(0, d, lambda j: z3.Implies(z3.Or(j < s, j > e + 1), z3.And(
            lst_get(me.cores, j).buf == lst_get(me0.cores, j).buf, *[f == g for f, g in zip(lst_get(me.cores, j).flags.values(), lst_get(me0.cores, j).flags.values())])))
        yield 'core-buffers-fresh-or-own-slot', FA(0, d, lambda j: z3.Or(lst_get(me.cores, j).buf >= S.mark0, lst_get(me.cores, j).buf == lst_get(me0.cores, j).buf))
        yield 'processed-cores-left-orthonormal', FA(0, d, lambda j: z3.Implies(z3.And(s <= j, j <= e), lst_get(me.cores, j).flags['lorth']))
        yield 'ranks<=max_rank', FA(0, d + 1, lambda j: z3.Implies(z3.And(s < j, j <= e + 1), cap_at(lst_get(me.ranks, j), mr, j)))
        yield 'positive-ranks', FA(0, d + 1, lambda j: lst_get(me.ranks, j) >= 1)
        yield 'kind', FA(0, d, lambda j: z3.Implies(z3.Not(z3.And(s <= j, j <= e + 1)), lst_get(me.cores, j).cplx == lst_get(me0.cores, j).cplx))

    def canary(self, S, res):
        me0, me = S.o['self'], S.a['self']
        return lst_get(me.ranks, 1) == lst_get(me0.ranks, 1) + 1

    def invariant(self, key, inst):
        if key == 'i in range(self.order + 1)':
            return _caps_validation_inv
        if key != 'i in range(start_index, end_index + 1)':
            return None

        def inv(V, i, k):
            me, me0 = V['self'], V.old('self')
            d = zi(me0.order)
            s = zi(V.old('start_index'))
            mr = V.old('max_rank')
            yield 'wf', wf(me)
            yield 'identity', is_self_lists(me, me0)
            yield 'dims', z3.And(zi(me.order) == d, same_ints(me.row_dims, me0.row_dims, d), same_ints(me.col_dims, me0.col_dims, d))
            yield 'ranks-never-increase', FA(0, d + 1, lambda j: z3.And(lst_get(me.ranks, j) <= lst_get(me0.ranks, j), lst_get(me.ranks, j) >= 1))
            yield 'ranks-outside', FA(0, d + 1, lambda j: z3.Implies(z3.Not(z3.And(s < j, j <= i)), lst_get(me.ranks, j) == lst_get(me0.ranks, j)))
            yield 'cores-outside', FA(0, d, lambda j: z3.Implies(z3.Or(j < s, j > i), z3.And(
                lst_get(me.cores, j).buf == lst_get(me0.cores, j).buf, lst_get(me.cores, j).cplx == lst_get(me0.cores, j).cplx,
                *[f == g for f, g in zip(lst_get(me.cores, j).flags.values(), lst_get(me0.cores, j).flags.values())])))
            cur, cur0 = lst_get(me.cores, i), lst_get(me0.cores, i)
            yield 'current-core-fresh-or-entry', z3.Implies(z3.And(i >= 0, i < d), z3.If(
                i <= s, z3.And(cur.buf == cur0.buf, cur.cplx == cur0.cplx, *[f == g for f, g in zip(cur.flags.values(), cur0.flags.values())]),
                cur.buf >= V.mark0))
            yield 'buffers', FA(0, d, lambda j: z3.Or(lst_get(me.cores, j).buf >= V.mark0, lst_get(me.cores, j).buf == lst_get(me0.cores, j).buf))
            yield 'lorth', FA(0, d, lambda j: z3.Implies(z3.And(s <= j, j < i), lst_get(me.cores, j).flags['lorth']))
            yield 'caps', FA(0, d + 1, lambda j: z3.Implies(z3.And(s < j, j <= i), cap_at(lst_get(me.ranks, j), mr, j)))
        return inv

    def effect(self, ex, state, A, inst, line):
        return sweep_effect(self, ex, state, A, line, left=True)


def sweep_effect(contract, ex, state, A, line, left):
    """in-place call: the lists of the receiver are replaced by unknowns constrained by the callee's ensures clauses
    (assumed by Contract.apply right after this returns)"""
    me = A['self']
    for l, kind in ((me.cores, 'arr'), (me.ranks, 'int')):
        l.items = None
        l.fn = sym_elem_fn(kind, state)
    state.ghost = getattr(state, 'ghost', {})
    mr = A.get('max_rank', INF)
    if left:
        state.ghost['ortho_left.max_rank_is_inf'] = mr.is_inf if isinstance(mr, SMaxRank) else isinstance(mr, SInf)
    # fresh buffers written by the callee lie in a reserved block
    base, nm = state.alloc_block('sweep')
    return me


@register
class OrthoRight(_Sweep):
    name, func = 'TT.ortho_right', 'ortho_right'
    loop_ordinals = {0: 'i in range(self.order + 1)', 1: 'i in range(start_index, end_index - 1, -1)'}

    def instances(self):
        return [{'start': 'None'}, {'start': 'given'}, {'start': 'None', 'cap': 'list'}, {'start': 'given', 'cap': 'list'}]

    def call_inst(self, A):
        return {'cap': 'list'} if isinstance(A.get('max_rank'), SList) else {}

    def defaults(self):
        return {'start_index': NONE, 'end_index': 1, 'threshold': SNum('thr0', nonzero=z3.BoolVal(False), nonneg=z3.BoolVal(True)), 'max_rank': INF}

    def setup(self, ex, state, inst):
        me, thr, mr = self.mk_common(ex, state, inst)
        start = NONE if inst['start'] == 'None' else fresh('start_index')
        return {'self': me, 'start_index': start, 'end_index': fresh('end_index'), 'threshold': thr, 'max_rank': mr}

    def _start(self, S):
        s = S.o['start_index'] if 'start_index' in S.o else NONE
        return zi(S.o['self'].order) - 1 if isinstance(s, SNone) else zi(s)

    def written_core_range(self, S):
        return zi(S.o['end_index']), self._start(S)

    def requires(self, S):
        me = S.a['self']
        # derived from the code: core end_index-1 is read and written (end_index = 0 would wrap around to cores[-1])
        yield 'end>=1', zi(S.a['end_index']) >= 1
        s = S.a['start_index']
        if not isinstance(s, SNone):
            yield 'start<=order-1', zi(s) <= zi(me.order) - 1

    def ensures(self, S, res):
        me0, me = S.o['self'], S.a['self']
        d = zi(me0.order)
        e, s = zi(S.o['end_index']), self._start(S)
        mr = S.o['max_rank']
        yield 'returns-self', isinstance(res, STT) and res is me
        yield 'wf(self)', wf(me)
        yield 'identity', is_self_lists(me, me0)
        yield 'order-and-dims-unchanged', z3.And(zi(me.order) == d, same_ints(me.row_dims, me0.row_dims, d), same_ints(me.col_dims, me0.col_dims, d))
        yield 'ranks-never-increase', FA(0, d + 1, lambda j: lst_get(me.ranks, j) <= lst_get(me0.ranks, j))
        yield 'ranks-outside-sweep-unchanged', FA(0, d + 1, lambda j: z3.Implies(z3.Not(z3.And(e <= j, j <= s)), lst_get(me.ranks, j) == lst_get(me0.ranks, j)))
        yield 'cores-outside-sweep-untouched', FA(0, d, lambda j: z3.Implies(z3.Or(j < e - 1, j > s), z3.And(
            lst_get(me.cores, j).buf == lst_get(me0.cores, j).buf, *[f == g for f, g in zip(lst_get(me.cores, j).flags.values(), lst_get(me0.cores, j).flags.values())])))
        yield 'core-buffers-fresh-or-own-slot', FA(0, d, lambda j: z3.Or(lst_get(me.cores, j).buf >= S.mark0, lst_get(me.cores, j).buf == lst_get(me0.cores, j).buf))
        yield 'processed-cores-right-orthonormal', FA(0, d, lambda j: z3.Implies(z3.And(e <= j, j <= s), lst_get(me.cores, j).flags['rorth']))
        yield 'ranks<=max_rank', FA(0, d + 1, lambda j: z3.Implies(z3.And(e <= j, j <= s), cap_at(lst_get(me.ranks, j), mr, j)))
        yield 'positive-ranks', FA(0, d + 1, lambda j: lst_get(me.ranks, j) >= 1)

    def canary(self, S, res):
        me0, me = S.o['self'], S.a['self']
        return lst_get(me.ranks, 1) == lst_get(me0.ranks, 1) + 1

    def invariant(self, key, inst):
        if key == 'i in range(self.order + 1)':
            return _caps_validation_inv
        if key != 'i in range(start_index, end_index - 1, -1)':
            return None

        def inv(V, i, k):
            me, me0 = V['self'], V.old('self')
            d = zi(me0.order)
            st = V.old('start_index')
            s = d - 1 if isinstance(st, SNone) else zi(st)
            mr = V.old('max_rank')
            yield 'wf', wf(me)
            yield 'identity', is_self_lists(me, me0)
            yield 'dims', z3.And(zi(me.order) == d, same_ints(me.row_dims, me0.row_dims, d), same_ints(me.col_dims, me0.col_dims, d))
            yield 'ranks-never-increase', FA(0, d + 1, lambda j: z3.And(lst_get(me.ranks, j) <= lst_get(me0.ranks, j), lst_get(me.ranks, j) >= 1))
            yield 'ranks-outside', FA(0, d + 1, lambda j: z3.Implies(z3.Not(z3.And(i < j, j <= s)), lst_get(me.ranks, j) == lst_get(me0.ranks, j)))
            yield 'cores-outside', FA(0, d, lambda j: z3.Implies(z3.Or(j < i, j > s), z3.And(
                lst_get(me.cores, j).buf == lst_get(me0.cores, j).buf, lst_get(me.cores, j).cplx == lst_get(me0.cores, j).cplx,
                *[f == g for f, g in zip(lst_get(me.cores, j).flags.values(), lst_get(me0.cores, j).flags.values())])))
            cur, cur0 = lst_get(me.cores, i), lst_get(me0.cores, i)
            yield 'current-core-fresh-or-entry', z3.Implies(z3.And(i >= 0, i < d), z3.If(
                i >= s, z3.And(cur.buf == cur0.buf, cur.cplx == cur0.cplx, *[f == g for f, g in zip(cur.flags.values(), cur0.flags.values())]),
                cur.buf >= V.mark0))
            yield 'buffers', FA(0, d, lambda j: z3.Or(lst_get(me.cores, j).buf >= V.mark0, lst_get(me.cores, j).buf == lst_get(me0.cores, j).buf))
            yield 'rorth', FA(0, d, lambda j: z3.Implies(z3.And(i < j, j <= s), lst_get(me.cores, j).flags['rorth']))
            yield 'caps', FA(0, d + 1, lambda j: z3.Implies(z3.And(i < j, j <= s), cap_at(lst_get(me.ranks, j), mr, j)))
        return inv

    def effect(self, ex, state, A, inst, line):
        return sweep_effect(self, ex, state, A, line, left=False)


@register
class Ortho(Contract):
    name, func = 'TT.ortho', 'ortho'
    props = ('C03', 'C04', 'C06')

    def defaults(self):
        return {'threshold': SNum('thr0', nonzero=z3.BoolVal(False), nonneg=z3.BoolVal(True)), 'max_rank': INF}

    def instances(self):
        return [{}, {'cap': 'list'}]

    def call_inst(self, A):
        return {'cap': 'list'} if isinstance(A.get('max_rank'), SList) else {}

    def setup(self, ex, state, inst):
        m0 = ex.ctx.mark0
        me = mk_tt(state, 'self', m0)
        if inst.get('cap') == 'list':
            mr = SList(fresh('max_rank_ref'), zi(me.order) + 1, fn=sym_elem_fn('maxrank', state), kind='maxrank')
        else:
            mr = SMaxRank('max_rank')
        return {'self': me, 'threshold': SNum('threshold', nonneg=z3.BoolVal(True)), 'max_rank': mr}

    def domain_extra(self, S):
        yield 'max_rank-positive-or-inf', caps_valid(S.a.get('max_rank', INF), zi(S.a['self'].order))

    def modifies(self, S):
        me = S.o['self']
        d = zi(me.order)

        return [me.ref, me.cores.ref, me.ranks.ref], [(z3.IntVal(0), d - 1, lambda j: lst_get(me.cores, j).buf)]

    def ensures(self, S, res):
        me0, me = S.o['self'], S.a['self']
        d = zi(me0.order)
        mr = S.o['max_rank']
        yield 'returns-self', isinstance(res, STT) and res is me
        yield 'wf(self)', wf(me)
        yield 'identity', is_self_lists(me, me0)
        yield 'order-and-dims-unchanged', z3.And(zi(me.order) == d, same_ints(me.row_dims, me0.row_dims, d), same_ints(me.col_dims, me0.col_dims, d))
        yield 'ranks-never-increase', FA(0, d + 1, lambda j: lst_get(me.ranks, j) <= lst_get(me0.ranks, j))
        yield 'boundary-ranks-unchanged', z3.And(lst_get(me.ranks, 0) == lst_get(me0.ranks, 0), lst_get(me.ranks, d) == lst_get(me0.ranks, d))
        yield 'core-buffers-fresh-or-own-slot', FA(0, d, lambda j: z3.Or(lst_get(me.cores, j).buf >= S.mark0, lst_get(me.cores, j).buf == lst_get(me0.cores, j).buf))
        yield 'cores-1..d-1-right-orthonormal', FA(1, d, lambda j: lst_get(me.cores, j).flags['rorth'])
        yield 'interior-ranks<=max_rank', FA(1, d, lambda j: cap_at(lst_get(me.ranks, j), mr, j))
        if not S.at_call:
            # ghost clause about the body (which max_rank the left sweep received): proved when TT.ortho itself is verified
            ghost = getattr(S.state, 'ghost', {}).get('ortho_left.max_rank_is_inf')
            yield 'gauge:left-sweep-not-rank-truncated', ghost is not None and ghost

    def canary(self, S, res):
        me0, me = S.o['self'], S.a['self']
        return lst_get(me.ranks, 1) == lst_get(me0.ranks, 1) + 1

    def effect(self, ex, state, A, inst, line):
        return sweep_effect(self, ex, state, A, line, left=False)


# ----------------------------------------------------------------------------------------------------------------------
# global SVD / pseudoinverse (C05, C06)

@register
class Svd(Contract):
    name, func = 'TT.svd', 'svd'
    props = ('C05', 'C06', 'C17')

    def instances(self):
        return [{'overwrite': False}, {'overwrite': True}]

    def defaults(self):
        return {'threshold': SNum('thr0', nonzero=z3.BoolVal(False), nonneg=z3.BoolVal(True)), 'max_rank': INF, 'ortho_l': True, 'ortho_r': True, 'overwrite': False}

    def call_inst(self, A):
        ow = A.get('overwrite', False)
        if not isinstance(ow, bool) or A.get('ortho_l', True) is not True or A.get('ortho_r', True) is not True:
            raise Unsupported('svd with symbolic flags / without orthonormalisation')
        return {'overwrite': ow}

    def setup(self, ex, state, inst):
        m0 = ex.ctx.mark0
        mr = SMaxRank('max_rank')
        state.assume(z3.Or(mr.is_inf, mr.val >= 1))
        return {'self': mk_tt(state, 'self', m0), 'index': fresh('index'), 'threshold': SNum('threshold', nonneg=z3.BoolVal(True)),
                'max_rank': mr, 'ortho_l': True, 'ortho_r': True, 'overwrite': inst['overwrite']}

    def domain_extra(self, S):
        mr = S.a.get('max_rank', INF)
        if isinstance(mr, SMaxRank):
            yield 'max_rank>=1', z3.Or(mr.is_inf, mr.val >= 1)
        elif not isinstance(mr, SInf):
            yield 'max_rank>=1', zi(mr) >= 1

    def requires(self, S):
        me = S.a['self']
        d = zi(me.order)
        yield '1<=index<=order-1', z3.And(zi(S.a['index']) >= 1, zi(S.a['index']) <= d - 1)
        # derived from the reshape of the centre core: a vector-type tensor train
        yield 'col_dims==1', FA(0, d, lambda j: lst_get(me.col_dims, j) == 1)

    def modifies(self, S):
        if not S.inst.get('overwrite'):
            return [], []
        me = S.o['self']
        d = zi(me.order)

        return [me.ref, me.cores.ref, me.ranks.ref], [(z3.IntVal(0), d - 1, lambda j: lst_get(me.cores, j).buf)]

    def ensures(self, S, res):
        me0 = S.o['self']
        d, ix = zi(me0.order), zi(S.o['index'])
        mr = S.o['max_rank']
        ok = isinstance(res, tuple) and len(res) == 3 and isinstance(res[0], STT) and isinstance(res[2], STT) and isinstance(res[1], SArr)
        yield 'returns-(u,s,v)', ok
        if not ok:
            return
        u, s, v = res
        yield 'wf(u)', wf(u)
        yield 'wf(v)', wf(v)
        yield 'orders', z3.And(zi(u.order) == ix, zi(v.order) == d - ix)
        yield 'u-dims', z3.And(same_ints(u.row_dims, me0.row_dims, ix), FA(0, ix, lambda j: lst_get(u.col_dims, j) == 1))
        yield 'v-dims', z3.And(FA(0, d - ix, lambda j: lst_get(v.row_dims, j) == lst_get(me0.row_dims, ix + j)), FA(0, d - ix, lambda j: lst_get(v.col_dims, j) == 1))
        yield 'len(s)==u.ranks[-1]==v.ranks[0]', z3.And(s.shape[0] == lst_get(u.ranks, ix), s.shape[0] == lst_get(v.ranks, 0), s.shape[0] >= 1)
        yield 'len(s)<=max_rank', cap_ok(s.shape[0], mr)
        yield 'boundary-ranks', z3.And(lst_get(u.ranks, 0) == lst_get(me0.ranks, 0), lst_get(v.ranks, d - ix) == lst_get(me0.ranks, d))
        yield 'u-cores-left-orthonormal', FA(0, ix, lambda j: lst_get(u.cores, j).flags['lorth'])
        yield 'v-cores-right-orthonormal', FA(0, d - ix, lambda j: lst_get(v.cores, j).flags['rorth'])
        yield 'u,v-distinct-objects', z3.And(u.ref != v.ref, u.cores.ref != v.cores.ref)
        if not S.inst.get('overwrite'):
            yield 'u-fresh', z3.And(meta_fresh(u, S.mark0), cores_fresh(u, S.mark0))
            yield 'v-fresh', z3.And(meta_fresh(v, S.mark0), cores_fresh(v, S.mark0))
            yield 's-fresh', s.buf >= S.mark0

    def canary(self, S, res):
        return zi(res[0].order) == zi(S.o['index']) + 1 if isinstance(res, tuple) else None

    def effect(self, ex, state, A, inst, line):
        from vt.e1.contract import mk_fresh_tt
        if inst['overwrite']:
            sweep_effect(self, ex, state, A, line, left=False)
        u, v = mk_fresh_tt(state, 'u'), mk_fresh_tt(state, 'v')
        k = fresh('ns')
        s = SArr([k], False, state.alloc(), True)
        s.descending_nonneg = True
        return (u, s, v)


@register
class Pinv(Contract):
    name, func = 'TT.pinv', 'pinv'
    props = ('C05', 'C06', 'C17', 'C16')

    def instances(self):
        return [{'overwrite': False}, {'overwrite': True}]

    def defaults(self):
        return {'threshold': SNum('thr0', nonzero=z3.BoolVal(False), nonneg=z3.BoolVal(True)), 'ortho_l': True, 'ortho_r': True, 'overwrite': False}

    def call_inst(self, A):
        ow = A.get('overwrite', False)
        if not isinstance(ow, bool):
            raise Unsupported('pinv with symbolic flags')
        return {'overwrite': ow}

    def setup(self, ex, state, inst):
        m0 = ex.ctx.mark0
        return {'self': mk_tt(state, 'self', m0), 'index': fresh('index'), 'threshold': SNum('threshold', nonneg=z3.BoolVal(True)),
                'ortho_l': True, 'ortho_r': True, 'overwrite': inst['overwrite']}

    requires = Svd.requires
    modifies = Svd.modifies

    def ensures(self, S, res):
        me0 = S.o['self']
        d = zi(me0.order)
        yield 'returns-TT', isinstance(res, STT)
        if not isinstance(res, STT):
            return
        yield 'wf(result)', wf(res)
        yield 'order', zi(res.order) == d
        yield 'dims', z3.And(same_ints(res.row_dims, me0.row_dims, d), FA(0, d, lambda j: lst_get(res.col_dims, j) == 1))
        yield 'boundary-ranks', z3.And(lst_get(res.ranks, 0) == lst_get(me0.ranks, 0), lst_get(res.ranks, d) == lst_get(me0.ranks, d))
        yield 'result-lists-distinct', lists_distinct(res)
        if not S.inst.get('overwrite'):
            yield 'result-object-and-lists-fresh', meta_fresh(res, S.mark0)
            yield 'result-buffers-fresh', cores_fresh(res, S.mark0)

    def canary(self, S, res):
        return zi(res.order) == zi(S.o['self'].order) + 1 if isinstance(res, STT) else None

    def effect(self, ex, state, A, inst, line):
        from vt.e1.contract import mk_fresh_tt
        if inst['overwrite']:
            sweep_effect(self, ex, state, A, line, left=False)
        return mk_fresh_tt(state, 'pinv')


@register
class IsOperator(Contract):
    name, func = 'TT.isoperator', 'isoperator'
    props = ('C01',)

    def setup(self, ex, state, inst):
        return {'self': mk_tt(state, 'self', ex.ctx.mark0)}

    def ensures(self, S, res):
        me = S.o['self']
        d = zi(me.order)
        want = z3.Not(z3.Or(FA(0, d, lambda j: lst_get(me.row_dims, j) == 1), FA(0, d, lambda j: lst_get(me.col_dims, j) == 1)))
        yield 'value', zb(res) == want if isinstance(res, (bool, z3.BoolRef)) else False

    def canary(self, S, res):
        return zb(res) == FA(0, zi(S.o['self'].order), lambda j: lst_get(S.o['self'].row_dims, j) == 1)

    def effect(self, ex, state, A, inst, line):
        return fresh('isop', 'bool')


@register
class Matricize(Contract):
    name, func = 'TT.matricize', 'matricize'
    props = ('C01',)
    loop_ordinals = {0: 'i in range(1, self.order)'}

    def setup(self, ex, state, inst):
        from vt.e1.calls import prod_instance
        me = mk_tt(state, 'self', ex.ctx.mark0)
        d = zi(me.order)
        for l in (me.row_dims, me.col_dims):
            snap = l.snapshot()
            for (a, b) in ((0, 1), (0, d)):
                for ax in prod_instance(snap, a, b):
                    state.assume(ax, model=True)
        return {'self': me}

    def requires(self, S):
        # derived from the first and the final reshape
        yield 'boundary-ranks-1', boundary_one(S.a['self'])

    def _P(self, S):
        from vt.e1.calls import prod_fun
        me = S.o['self']
        return prod_fun(me.row_dims), prod_fun(me.col_dims)

    def ensures(self, S, res):
        me = S.o['self']
        d = zi(me.order)
        Pr, Pc = self._P(S)
        ok = isinstance(res, SArr)
        yield 'returns-array', ok
        if ok:
            vec = FA(0, d, lambda j: lst_get(me.col_dims, j) == 1)
            yield 'non-empty', z3.And(*[x >= 1 for x in res.shape])
            if len(res.shape) == 1:
                yield 'vector-iff-all-col-dims-1', vec
                yield 'shape', res.shape[0] == Pr(0, d)
            else:
                yield 'matrix-iff-some-col-dim>1', z3.Not(vec)
                yield 'shape', z3.And(len(res.shape) == 2, res.shape[0] == Pr(0, d), res.shape[1] == Pc(0, d))

    def canary(self, S, res):
        return res.shape[0] == 0

    def invariant(self, key, inst):
        if key != 'i in range(1, self.order)':
            return None

        def inv(V, i, k):
            from vt.e1.calls import prod_fun
            me = V.old('self')
            t = V['tt_mat']
            Pr, Pc = prod_fun(me.row_dims), prod_fun(me.col_dims)
            yield 'shape', z3.And(len(t.shape) == 3, t.shape[0] == Pr(0, i), t.shape[1] == Pc(0, i), t.shape[2] == lst_get(me.ranks, i)) if len(t.shape) == 3 else False
        return inv

    def effect(self, ex, state, A, inst, line):
        # vector or matrix depending on data (all column dimensions 1): fork the caller's statement
        from vt.e1.symexec import ForkRequest
        me = A['self'].snapshot()
        d = zi(me.order)
        key = ('matricize', line, str(me.ref))
        dec = state.decisions.get(key)
        if dec is None:
            raise ForkRequest(key, FA(0, d, lambda j: lst_get(me.col_dims, j) == 1))
        return npmodel_new(state, [fresh('mm')] if dec else [fresh('mm'), fresh('mn')])


@register
class Full(Contract):
    """TT.full(): the dense tensor of shape (m_1, ..., m_d, n_1, ..., n_d).  Structural clauses for every order: ValueError
    exactly for boundary ranks other than 1; every contraction and reshape of the sweep is size-consistent; the final reshape
    takes the interleaved shape (m_1, n_1, ..., m_d, n_d) and the final transpose is a permutation that sorts the row modes
    before the column modes; for order >= 2 the result does not share memory with the cores; self is not written."""
    name, func = 'TT.full', 'full'
    props = ('C01',)
    KEY = 'i in range(1, self.order)'
    loop_ordinals = {0: KEY}

    def setup(self, ex, state, inst):
        from vt.e1.calls import prod_instance
        me = mk_tt(state, 'self', ex.ctx.mark0)
        d = zi(me.order)
        for l in (me.row_dims, me.col_dims):
            snap = l.snapshot()
            for (a, b) in ((0, 1), (0, d)):
                for ax in prod_instance(snap, a, b):
                    state.assume(ax, model=True)
        return {'self': me}

    def exceptional(self, S):
        return {'ValueError': z3.Not(boundary_one(S.a['self']))}

    def ensures(self, S, res):
        from vt.e1.values import SArrN
        from vt.e1.calls import prod_fun
        me = S.o['self']
        d = zi(me.order)
        ok = isinstance(res, SArrN) and res.shape is not None
        yield 'returns-array-with-known-shape', ok
        if ok:
            Pr, Pc = prod_fun(me.row_dims), prod_fun(me.col_dims)
            yield 'number-of-axes', res.ndim == 2 * d
            yield 'size', res.size == Pr(0, d) * Pc(0, d)
            yield 'row-modes-first', FA(0, d, lambda j: zi(lst_get(res.shape, j)) == lst_get(me.row_dims, j))
            yield 'column-modes-last', FA(0, d, lambda j: zi(lst_get(res.shape, d + j)) == lst_get(me.col_dims, j))
            yield 'fresh-for-order>=2', z3.Implies(d >= 2, res.buf >= S.mark0)
            yield 'real-if-all-cores-real', z3.Implies(FA(0, d, lambda j: z3.Not(lst_get(me.cores, j).cplx)), z3.Not(res.cplx))

    def canary(self, S, res):
        return res.ndim == 2 * zi(S.o['self'].order) + 1

    def invariant(self, key, inst):
        if key != self.KEY:
            return None

        def inv(V, i, k):
            from vt.e1.calls import prod_fun
            me = V.old('self')
            t = V['full_tensor']
            Pr, Pc = prod_fun(me.row_dims), prod_fun(me.col_dims)
            ok = isinstance(t, SArr) and len(t.shape) == 2
            yield 'matrix', ok
            if ok:
                yield 'shape', z3.And(t.shape[0] == Pr(0, i) * Pc(0, i), t.shape[1] == lst_get(me.ranks, i))
                yield 'fresh-after-first-contraction', z3.Implies(i >= 2, t.buf >= V.mark0)
                yield 'real-if-cores-so-far-real', z3.Implies(FA(0, i, lambda j: z3.Not(lst_get(me.cores, j).cplx)), z3.Not(t.cplx))
        return inv

    def effect(self, ex, state, A, inst, line):
        from vt.e1.values import SArrN
        me = A['self'].snapshot()
        d = zi(me.order)
        shp = SList(state.alloc(), 2 * d, fn=sym_elem_fn('int', state), kind='int')
        return SArrN(fresh('fsize'), 2 * d, fresh('fcx', 'bool'), fresh('fbuf'), shp)


def npmodel_new(state, shape):
    from vt.e1 import npmodel
    return npmodel.new_arr(state, shape, fresh('cx', 'bool'))


@register
class Norm(Contract):
    name, func = 'TT.norm', 'norm'
    props = ('C01', 'C06')

    def instances(self):
        return [{'p': 1}, {'p': 2}, {'p': 3}]

    def defaults(self):
        return {'p': 2}

    def setup(self, ex, state, inst):
        return {'self': mk_tt(state, 'self', ex.ctx.mark0), 'p': inst['p']}

    def requires(self, S):
        # derived from the final reshape of the first core (p=2) / from matricize (p=1): first boundary rank 1
        yield 'ranks[0]==1', lst_get(S.a['self'].ranks, 0) == 1
        if S.a['p'] == 1:
            yield 'ranks[-1]==1', lst_get(S.a['self'].ranks, zi(S.a['self'].order)) == 1

    def exceptional(self, S):
        return {'ValueError': S.a['p'] not in (1, 2)}

    def ensures(self, S, res):
        # frame (modifies nothing) is enforced by the frame obligations; the result is a real scalar
        yield 'returns-scalar', isinstance(res, SNum)
        if isinstance(res, SNum):
            yield 'norm-is-a-real-number', z3.Not(res.cplx)

    def canary(self, S, res):
        return z3.BoolVal(False)

    def effect(self, ex, state, A, inst, line):
        return SNum('norm', nonneg=z3.BoolVal(True))


@register
class Unit(Contract):
    name, func, cls = 'fn:unit', 'unit', None
    props = ('C01', 'C06')
    loop_ordinals = {0: 'i in range(t.order)'}

    def setup(self, ex, state, inst):
        m0 = ex.ctx.mark0
        d = fresh('d')
        state.assume(d >= 1)
        dims, inds = mk_int_list(state, 'dims', d), mk_int_list(state, 'inds', d)
        for l in (dims, inds):
            state.assume(z3.And(l.ref >= 0, l.ref < m0))
        state.assume(FA(0, d, lambda j: lst_get(dims, j) >= 1))
        return {'dims': dims, 'inds': inds}

    def domain_extra(self, S):
        dims = S.a['dims']
        yield 'order>=1', dims.len_term() >= 1
        yield 'dims>=1', FA(0, dims.len_term(), lambda j: lst_get(dims, j) >= 1)

    def requires(self, S):
        dims, inds = S.a['dims'], S.a['inds']
        d = zi(dims.length)
        # derived from the element assignment t.cores[i][0, inds[i], 0, 0] = 1
        yield 'positions-in-range', z3.And(zi(inds.length) == d, FA(0, d, lambda j: z3.And(lst_get(inds, j) >= -lst_get(dims, j), lst_get(inds, j) < lst_get(dims, j))))

    def ensures(self, S, res):
        yield from fresh_result(S, res)
        if not isinstance(res, STT):
            return
        dims = S.o['dims']
        d = zi(dims.length)
        yield 'order', zi(res.order) == d
        yield 'dims', z3.And(same_ints(res.row_dims, dims, d), FA(0, d, lambda j: lst_get(res.col_dims, j) == 1))
        yield 'ranks-1', FA(0, d + 1, lambda j: lst_get(res.ranks, j) == 1)

    def canary(self, S, res):
        return lst_get(res.ranks, 0) == 2 if isinstance(res, STT) else None

    def invariant(self, key, inst):
        if key != 'i in range(t.order)':
            return None

        def inv(V, i, k):
            t, dims = V['t'], V.old('dims')
            d = zi(dims.length)
            yield 't', z3.And(wf(t), meta_fresh(t, V.mark0), cores_fresh(t, V.mark0), lists_distinct(t), zi(t.order) == d, same_ints(t.row_dims, dims, d),
                              FA(0, d, lambda j: lst_get(t.col_dims, j) == 1), FA(0, d + 1, lambda j: lst_get(t.ranks, j) == 1))
        return inv


@register
class Uniform(Contract):
    name, func, cls = 'fn:uniform', 'uniform', None
    props = ('C01', 'C06')

    def instances(self):
        return [{'ranks': 'int'}, {'ranks': 'list'}]

    def defaults(self):
        return {'ranks': 1, 'norm': SNum('one')}

    def setup(self, ex, state, inst):
        m0 = ex.ctx.mark0
        d = fresh('d')
        state.assume(d >= 1)
        rd = mk_int_list(state, 'row_dims', d)
        state.assume(z3.And(rd.ref >= 0, rd.ref < m0, FA(0, d, lambda j: lst_get(rd, j) >= 1)))
        if inst['ranks'] == 'int':
            rk = fresh('r')
            state.assume(rk >= 1)
        else:
            rk = mk_int_list(state, 'ranks', d + 1)
            state.assume(z3.And(rk.ref >= 0, rk.ref < m0, FA(0, d + 1, lambda j: lst_get(rk, j) >= 1)))
        return {'row_dims': rd, 'ranks': rk, 'norm': SNum('norm')}

    def domain_extra(self, S):
        rd, rk = S.a['row_dims'], S.a.get('ranks', 1)
        d = zi(rd.len_term())
        yield 'order>=1', d >= 1
        yield 'dims>=1', FA(0, d, lambda j: lst_get(rd, j) >= 1)
        yield 'ranks>=1', FA(0, d + 1, lambda j: lst_get(rk, j) >= 1) if isinstance(rk, SList) else zi(rk) >= 1

    def ensures(self, S, res):
        yield from fresh_result(S, res)
        if not isinstance(res, STT):
            return
        rd, rk = S.o['row_dims'], S.o['ranks']
        d = zi(rd.length)
        yield 'order', zi(res.order) == d
        yield 'dims', z3.And(same_ints(res.row_dims, rd, d), FA(0, d, lambda j: lst_get(res.col_dims, j) == 1))
        rkf = (lambda j: lst_get(rk, j)) if isinstance(rk, SList) else (lambda j: z3.If(z3.Or(j <= 0, j >= d), z3.IntVal(1), zi(rk)))
        yield 'ranks', FA(0, d + 1, lambda j: lst_get(res.ranks, j) == rkf(j))

    def canary(self, S, res):
        return zi(res.order) == zi(S.o['row_dims'].length) + 1 if isinstance(res, STT) else None


# ----------------------------------------------------------------------------------------------------------------------
# tensordot (C02, C06)

MODES = ['last-first', 'last-last', 'first-last', 'first-first']


def _tdot_meta(mode, S_, O_, s_, o_, d, e, k):
    """documented result metadata.  S_/O_: j -> row (or col) dim of self/other; s_/o_: j -> rank.  Returns
    (case_both, case_self_complete) -> (order, dim(j, S, O), rank(j))"""
    both = z3.And(k == d, k == e)
    selfc = z3.And(k == d, k != e)
    if mode == 'last-first':
        part = (d - k + e - k, lambda j, S, O: z3.If(j < d - k, S(j), O(j - (d - k) + k)), lambda j: z3.If(j < d - k, s_(j), o_(j - (d - k) + k)))
        selfcomp = (e - k, lambda j, S, O: O(j + k), lambda j: z3.If(j == 0, s_(0), o_(j + k)))
        bothr = (s_(0), o_(e))
    elif mode == 'last-last':
        part = (d - k + e - k, lambda j, S, O: z3.If(j < d - k, S(j), O(e - k - 1 - (j - (d - k)))), lambda j: z3.If(j < d - k, s_(j), o_(e - k - (j - (d - k)))))
        selfcomp = (e - k, lambda j, S, O: O(e - k - 1 - j), lambda j: z3.If(j == 0, s_(0), o_(e - k - j)))
        bothr = (s_(0), o_(0))
    elif mode == 'first-last':
        part = (e - k + d - k, lambda j, S, O: z3.If(j < e - k, O(j), S(j - (e - k) + k)), lambda j: z3.If(j <= e - k, o_(j), s_(j - (e - k) + k)))
        selfcomp = (e - k, lambda j, S, O: O(j), lambda j: z3.If(j < e - k, o_(j), s_(d)))
        bothr = (s_(d), o_(0))
    else:
        part = (e - k + d - k, lambda j, S, O: z3.If(j < e - k, O(e - 1 - j), S(j - (e - k) + k)), lambda j: z3.If(j <= e - k, o_(e - j), s_(j - (e - k) + k)))
        selfcomp = (e - k, lambda j, S, O: O(e - 1 - j), lambda j: z3.If(j < e - k, o_(e - j), s_(d)))
        bothr = (s_(d), o_(e))
    return both, selfc, part, selfcomp, bothr


@register
class Tensordot(Contract):
    name, func = 'TT.tensordot', 'tensordot'
    props = ('C02', 'C06')

    def instances(self):
        return [{'mode': m, 'overwrite': ow} for m in MODES for ow in (False, True)] + [{'mode': 'middle', 'overwrite': False}]

    def defaults(self):
        return {'mode': 'last-first', 'overwrite': False}

    def call_inst(self, A):
        return {'mode': A.get('mode', 'last-first'), 'overwrite': A.get('overwrite', False)}

    def mutated(self, A):
        if A.get('overwrite', False) is True:
            me = A['self']
            return [me.cores, me.ranks, me.row_dims, me.col_dims]
        return []

    def setup(self, ex, state, inst):
        m0 = ex.ctx.mark0
        me, other = mk_tt(state, 'self', m0), mk_tt(state, 'other', m0)
        state.assume(me.ref != other.ref)
        for a in (me, other):
            for b in (me, other):
                if a is not b:
                    state.assume(z3.Distinct(a.cores.ref, b.cores.ref, a.ranks.ref, b.ranks.ref, a.row_dims.ref, b.row_dims.ref, a.col_dims.ref, b.col_dims.ref))
        return {'self': me, 'other': other, 'num_axes': fresh('num_axes'), 'mode': inst['mode'], 'overwrite': inst['overwrite']}

    def domain_extra(self, S):
        a, b = S.a['self'], S.a['other']
        # the contract covers two distinct operands (a.tensordot(a, ...) is outside it)
        yield 'distinct-operands', z3.And(a.ref != b.ref, z3.Distinct(a.cores.ref, b.cores.ref, a.ranks.ref, b.ranks.ref, a.row_dims.ref, b.row_dims.ref,
                                                                      a.col_dims.ref, b.col_dims.ref))

    def requires(self, S):
        # derived from the code: cores[first_idx] is read before any check, so at least one axis is contracted
        yield 'num_axes>=1', zi(S.a['num_axes']) >= 1

    def modifies(self, S):
        if S.inst.get('overwrite'):
            me = S.o['self']
            return [me.ref, me.row_dims.ref, me.col_dims.ref, me.ranks.ref, me.cores.ref], []
        return [], []

    def _idx(self, S):
        me, o, k, mode = S.o['self'], S.o['other'], zi(S.o['num_axes']), S.inst['mode']
        d, e = zi(me.order), zi(o.order)
        fs = d - k if mode.startswith('last') else z3.IntVal(0)
        fo = e - k if mode.endswith('last') else z3.IntVal(0)
        return me, o, k, d, e, fs, fo

    def exceptional(self, S):
        mode = S.inst['mode']
        if mode not in MODES:
            return {'ValueError': True}
        me, o, k, d, e, fs, fo = self._idx(S)
        too_big = z3.Or(k > d, k > e)
        match = z3.And(FA(fs, fs + k, lambda t: lst_get(me.row_dims, t) == lst_get(o.row_dims, t - fs + fo)),
                       FA(fs, fs + k, lambda t: lst_get(me.col_dims, t) == lst_get(o.col_dims, t - fs + fo)))
        rs = lst_get(me.ranks, d) if mode.startswith('last') else lst_get(me.ranks, 0)
        ro = lst_get(o.ranks, e) if mode.endswith('last') else lst_get(o.ranks, 0)
        return {'ValueError': z3.Or(too_big, z3.And(z3.Not(too_big), z3.Not(match)), rs != 1, ro != 1)}

    def ensures(self, S, res):
        mode = S.inst['mode']
        me0 = S.o['self']
        yield 'returns-TT', isinstance(res, STT)
        if not isinstance(res, STT) or mode not in MODES:
            return
        me, o, k, d, e, fs, fo = self._idx(S)
        yield 'wf(result)', wf(res)
        if S.inst['overwrite']:
            yield 'result-is-self', res.ref == me0.ref
            # every core of the result is fresh or one of self's own buffers; never a buffer of `other`
            jj = fresh('jj')
            n = zi(res.order)
            yield 'result-buffers-fresh-or-selfs', FA(0, n, lambda j: z3.Or(lst_get(res.cores, j).buf >= S.mark0,
                                                                           z3.Exists([jj], z3.And(jj >= 0, jj < d, lst_get(res.cores, j).buf == lst_get(me.cores, jj).buf))))
        else:
            yield 'result-object-and-lists-fresh', meta_fresh(res, S.mark0)
            yield 'result-buffers-fresh', cores_fresh(res, S.mark0)
            yield 'result-lists-distinct', lists_distinct(res)
        s_ = lambda j: lst_get(me.ranks, j)  # noqa
        o_ = lambda j: lst_get(o.ranks, j)  # noqa
        both, selfc, part, selfcomp, bothr = _tdot_meta(mode, None, None, s_, o_, d, e, k)
        n = zi(res.order)
        yield 'order', n == z3.If(both, z3.IntVal(1), z3.If(selfc, selfcomp[0], part[0]))
        for nm, mine, theirs, got in (('row_dims', me.row_dims, o.row_dims, res.row_dims), ('col_dims', me.col_dims, o.col_dims, res.col_dims)):
            Sf = lambda j, mine=mine: lst_get(mine, j)  # noqa
            Of = lambda j, theirs=theirs: lst_get(theirs, j)  # noqa
            yield nm, FA(0, n, lambda j, Sf=Sf, Of=Of, got=got: lst_get(got, j) == z3.If(both, z3.IntVal(1), z3.If(selfc, selfcomp[1](j, Sf, Of), part[1](j, Sf, Of))))
        yield 'ranks', FA(0, n + 1, lambda j: lst_get(res.ranks, j) == z3.If(both, z3.If(j == 0, bothr[0], bothr[1]), z3.If(selfc, selfcomp[2](j), part[2](j))))

    def canary(self, S, res):
        return zi(res.order) == 0 if isinstance(res, STT) else None

    # -- loop invariants ---------------------------------------------------------------------------------------------------
    def invariant(self, key, inst):
        mode = inst['mode']
        if mode not in MODES:
            return None
        me_ = self

        def geo(V):
            me, o, k = V.old('self'), V.old('other'), zi(V.old('num_axes'))
            d, e = zi(me.order), zi(o.order)
            fs = d - k if mode.startswith('last') else z3.IntVal(0)
            fo = e - k if mode.endswith('last') else z3.IntVal(0)
            return me, o, k, d, e, fs, fo

        def inv_M(V, i, kk):
            me, o, k, d, e, fs, fo = geo(V)
            M = V['M']
            yield 'M', z3.And(M.shape[0] == lst_get(me.ranks, fs), M.shape[1] == lst_get(me.ranks, fs + i), M.shape[2] == lst_get(o.ranks, fo),
                              M.shape[3] == lst_get(o.ranks, fo + i), M.buf >= V.mark0) if len(M.shape) == 4 else False

        def tlist(V):
            return V.working_tt('tdot').cores

        def other_T(o, q, transposed):
            """shape of other's core q, possibly rank-transposed"""
            r0, r1 = (lst_get(o.ranks, q + 1), lst_get(o.ranks, q)) if transposed else (lst_get(o.ranks, q), lst_get(o.ranks, q + 1))
            return r0, lst_get(o.row_dims, q), lst_get(o.col_dims, q), r1

        def fresh_or_self(V, c, me, d):
            if inst['overwrite']:
                jj = fresh('jj')
                return z3.Or(c.buf >= V.mark0, z3.Exists([jj], z3.And(jj >= 0, jj < d, c.buf == lst_get(me.cores, jj).buf)))
            return c.buf >= V.mark0

        def inv_T_complete(V, i, kk):
            # complete contraction over self: list = [merged] + reversed remaining cores of other, all to be rank-transposed
            me, o, k, d, e, fs, fo = geo(V)
            L = tlist(V)
            M0 = lst_get(me.ranks, d) if False else None
            n = e - k
            yield 'len', z3.And(zi(L.length) == n, L.ref >= V.mark0, k == d, k != e, k <= e)
            srank = lst_get(me.ranks, 0) if mode == 'last-last' else lst_get(me.ranks, d)

            def elem(j):
                c = lst_get(L, j)
                if mode == 'last-last':
                    # position 0: other core fo-1 with its right rank replaced by s[0]; position j>0: other core fo-1-j
                    q = fo - 1 - j
                    r0, m, nn, r1 = other_T(o, q, False)
                    r1 = z3.If(j == 0, srank, r1)
                    shp_un = (r0, m, nn, r1)
                    shp_tr = (r1, m, nn, r0)
                    done = j < i
                else:   # first-first: list = reversed(other[lo+2:]) + [merged(other[lo+1])]; lo = k-1
                    q = e - 1 - j
                    r0, m, nn, r1 = other_T(o, q, False)
                    r0 = z3.If(j == n - 1, srank, r0)
                    shp_un = (r0, m, nn, r1)
                    shp_tr = (r1, m, nn, r0)
                    done = j < i
                return z3.And(z3.If(done, core_shape_ok(c, *shp_tr), core_shape_ok(c, *shp_un)), c.buf >= V.mark0)
            yield 'elements', FA(0, n, elem)

        def inv_T_partial(V, i, kk):
            me, o, k, d, e, fs, fo = geo(V)
            L = tlist(V)
            if mode == 'last-last':
                # list = self[:fs] (core fs-1 merged with M -> last rank o[fo]) + reversed(other[:fo]); transposed from fs on
                n = fs + fo
                yield 'len', z3.And(zi(L.length) == n, k < d, k <= e, k >= 1, L.ref >= V.mark0 if not inst['overwrite'] else z3.BoolVal(True))

                def elem(j):
                    c = lst_get(L, j)
                    q = fo - 1 - (j - fs)
                    r0, m, nn, r1 = other_T(o, q, False)
                    mine = core_shape_ok(c, lst_get(me.ranks, j), lst_get(me.row_dims, j), lst_get(me.col_dims, j), z3.If(j == fs - 1, lst_get(o.ranks, fo), lst_get(me.ranks, j + 1)))
                    theirs = z3.If(j < i, core_shape_ok(c, r1, m, nn, r0), core_shape_ok(c, r0, m, nn, r1))
                    return z3.And(z3.If(j < fs, mine, theirs), fresh_or_self(V, c, me, d))
                yield 'elements', FA(0, n, elem)
            else:   # first-first: list = reversed(other[lo+1:]) + self[ls+1:] (first of those merged); first e-k transposed
                n = (e - k) + (d - k)
                yield 'len', z3.And(zi(L.length) == n, k < d, k <= e, k >= 1)

                def elem(j):
                    c = lst_get(L, j)
                    q = e - 1 - j
                    r0, m, nn, r1 = other_T(o, q, False)
                    p = j - (e - k) + k
                    mine = core_shape_ok(c, z3.If(j == e - k, lst_get(o.ranks, k), lst_get(me.ranks, p)), lst_get(me.row_dims, p), lst_get(me.col_dims, p), lst_get(me.ranks, p + 1))
                    theirs = z3.If(j < i, core_shape_ok(c, r1, m, nn, r0), core_shape_ok(c, r0, m, nn, r1))
                    return z3.And(z3.If(j < e - k, theirs, mine), fresh_or_self(V, c, me, d))
                yield 'elements', FA(0, n, elem)
        if key == 'i in range(1, num_axes)':
            return inv_M
        if key == 'i in range(len(tdot.cores))':
            return inv_T_complete
        if key in ('i in range(first_idx_self, len(tdot.cores))', 'i in range(other.order - num_axes)'):
            return inv_T_partial
        return None

    loop_ordinals = {0: 'i in range(1, num_axes)'}


@register
class InitArray(Contract):
    """TT(x) for a full array x with 2 * order axes (TT-SVD, C04): the result is a valid tensor train with the row / column
    dimensions of x, boundary ranks 1 and no interior rank above max_rank - for every order, shape, threshold and cap."""
    name, func = 'TT.__init__(array)', '__init__'
    props = ('C04', 'C01', 'C06')
    KEY = 'i in range(order - 1)'
    loop_ordinals = {0: KEY}
    var_kinds = {'y': 'array-any'}
    list_kinds = {'cores': 'arr'}

    def instances(self):
        return [{'cap': c, 'thr': t} for c in ('inf', 'int') for t in ('zero', 'positive')]

    def call_inst(self, A):
        raise Unsupported('TT(<array>) is verified, not used at call sites')

    def setup(self, ex, state, inst):
        from vt.e1.values import SArrN
        from vt.e1.calls import prod_fun
        m0 = ex.ctx.mark0
        order = fresh('order')
        state.assume(order >= 1)
        shape = mk_int_list(state, 'x_shape', 2 * order)
        shape.split_points = []
        P = prod_fun(shape)
        x = SArrN(P(0, 2 * order), 2 * order, fresh('x_cx', 'bool'), fresh('x_buf'), shape)
        # lemma L-prod-split (assumed, needs induction) and the products of the one-element slices the last core is built from
        x.facts = lambda: [P(0, 2 * order) == P(0, order) * P(order, 2 * order),
                           P(order - 1, order) == lst_get(shape, order - 1), P(2 * order - 1, 2 * order) == lst_get(shape, 2 * order - 1)]
        for ax in x.facts():
            state.assume(ax, model=True)
        me = STT(fresh('self_ref'), None, None, None, None, None)
        me.f = {}
        mr = INF if inst['cap'] == 'inf' else fresh('max_rank')
        thr = 0 if inst['thr'] == 'zero' else SNum('threshold', nonzero=z3.BoolVal(True), nonneg=z3.BoolVal(True))
        return {'self': me, 'x': x, 'threshold': thr, 'max_rank': mr, 'progress': False, 'string': NONE}

    def domain(self, S):
        a = S.a
        x = a['x']
        yield 'alloc:self-is-new', a['self'].ref >= S.mark0
        yield 'alloc:x', z3.And(x.buf >= 0, x.buf < S.mark0, x.shape.ref >= 0, x.shape.ref < S.mark0)
        yield 'model:x', z3.And(x.ndim == zi(x.shape.len_term()), x.ndim >= 2, x.ndim % 2 == 0)
        yield 'mode-sizes>=1', FA(0, x.ndim, lambda j: lst_get(x.shape, j) >= 1)
        mr = a['max_rank']
        if not isinstance(mr, SInf):
            yield 'max_rank>=1', zi(mr) >= 1

    def ensures(self, S, res):
        me, x = S.a['self'], S.o['x']
        ok = all(isinstance(me.f.get(k), SList) for k in ('row_dims', 'col_dims', 'ranks', 'cores'))
        yield 'fields-set', ok
        if not ok:
            return
        d = x.ndim / 2
        yield 'order', zi(me.f['order']) == d
        yield 'valid(self)', valid(me)
        yield 'row_dims', FA(0, d, lambda j: lst_get(me.row_dims, j) == lst_get(x.shape, j))
        yield 'col_dims', FA(0, d, lambda j: lst_get(me.col_dims, j) == lst_get(x.shape, d + j))
        yield 'boundary-ranks-1', z3.And(lst_get(me.ranks, 0) == 1, lst_get(me.ranks, d) == 1)
        yield 'interior-ranks<=max_rank', FA(1, d, lambda j: cap_ok(lst_get(me.ranks, j), S.o['max_rank']))
        yield 'cores-fresh', z3.And(cores_fresh(me, S.mark0), me.cores.ref >= S.mark0, me.ranks.ref >= S.mark0, me.row_dims.ref >= S.mark0, me.col_dims.ref >= S.mark0)

    def canary(self, S, res):
        me = S.a['self']
        return zi(me.f['order']) == 0 if 'order' in me.f else None

    def invariant(self, key, inst):
        if key != self.KEY:
            return None

        def inv(V, i, k):
            from vt.e1.calls import prod_fun
            from vt.e1.values import SArrN
            x = V.old('x')
            order = x.ndim / 2
            P = prod_fun(x.shape)
            ranks, cores, y = V['ranks'], V['cores'], V['y']
            mr = V.old('max_rank')
            yield 'ranks', z3.And(zi(ranks.len_term()) == order + 1, ranks.ref >= V.mark0, lst_get(ranks, 0) == 1,
                                  FA(0, order + 1, lambda j: z3.And(lst_get(ranks, j) >= 1, z3.Implies(j > zi(i), lst_get(ranks, j) == 1),
                                                                    z3.Implies(z3.And(j >= 1, j <= zi(i)), cap_ok(lst_get(ranks, j), mr)))))
            yield 'cores', z3.And(zi(cores.len_term()) == zi(i), cores.ref >= V.mark0, cores.ref != ranks.ref, FA(0, zi(i), lambda j: z3.And(
                core_shape_ok(lst_get(cores, j), lst_get(ranks, j), lst_get(x.shape, j), lst_get(x.shape, order + j), lst_get(ranks, j + 1)),
                lst_get(cores, j).buf >= V.mark0)))
            size = y.size if isinstance(y, SArrN) else None
            if size is None and isinstance(y, SArr):
                from vt.e1 import npmodel
                size = npmodel.prod(y.shape)
            yield 'remainder-size', size is not None and size == lst_get(ranks, zi(i)) * P(zi(i), order) * P(order + zi(i), 2 * order)
            yield 'remainder-fresh', y.buf >= V.mark0
        return inv


@register
class ResidualError(Contract):
    """residual_error(operator, lhs, rhs): the residual norm of A x - b accumulated core by core.  Structural clauses: every
    tensordot / append / reshape / SVD is shape-consistent for all orders, dimensions and ranks, the result is bound on every
    path (it used not to be for order 1), nothing is written."""
    name, func, cls = 'fn:residual_error', 'residual_error', None
    props = ('C01', 'C06')
    KEY = 'i in range(operator.order)'
    loop_ordinals = {0: KEY}
    # M (the accumulated remainder) is first bound in the iteration i == 0 and read in every later one
    @staticmethod
    def _mkM(state):
        a = SArr([fresh('M0'), fresh('M1')], fresh('Mcx', 'bool'), fresh('Mbuf'), True)
        state.assume(z3.And(a.shape[0] >= 0, a.shape[1] >= 0), model=True)      # array dimensions are non-negative
        return a
    loop_carried = {KEY: {'M': lambda state: ResidualError._mkM(state)}}

    def setup(self, ex, state, inst):
        m0 = ex.ctx.mark0
        op = mk_tt(state, 'operator', m0)
        x = mk_tt(state, 'lhs', m0, order=op.order)
        b = mk_tt(state, 'rhs', m0, order=op.order)
        return {'operator': op, 'lhs': x, 'rhs': b}

    def requires(self, S):
        op, x, b = S.a['operator'], S.a['lhs'], S.a['rhs']
        d = zi(op.order)
        yield 'orders-equal', z3.And(zi(x.order) == d, zi(b.order) == d)
        yield 'dims-match', z3.And(same_ints(x.row_dims, op.col_dims, d), same_ints(b.row_dims, op.row_dims, d),
                                   FA(0, d, lambda j: z3.And(lst_get(x.col_dims, j) == 1, lst_get(b.col_dims, j) == 1)))
        yield 'boundary-ranks-1', z3.And(boundary_one(op), boundary_one(x), boundary_one(b))

    def ensures(self, S, res):
        yield 'returns-scalar', isinstance(res, SNum) or (isinstance(res, SArr) and len(res.shape) == 0)

    def canary(self, S, res):
        return z3.BoolVal(False)

    def invariant(self, key, inst):
        if key != self.KEY:
            return None

        def inv(V, i, k):
            op, x, b = V.old('operator'), V.old('lhs'), V.old('rhs')
            if V.has('M'):
                M = V['M']
                if isinstance(M, SArr) and len(M.shape) == 2:
                    yield 'M', z3.Implies(z3.And(zi(i) >= 1, zi(i) < zi(op.order)), M.shape[1] == lst_get(op.ranks, zi(i)) * lst_get(x.ranks, zi(i)) + lst_get(b.ranks, zi(i)))
        return inv


@register
class Diag(Contract):
    """TT.diag(diag_list): the listed modes (column dimension 1) become diagonal d x d modes.  Structural clauses: a valid
    fresh tensor train with unchanged order, row dimensions and ranks, column dimension d for the listed modes, nothing of
    self written or shared."""
    name, func = 'TT.diag', 'diag'
    props = ('C02', 'C06', 'C20')
    KI, KK, KL = 'i in diag_list', 'k in range(r1)', 'l in range(r2)'
    loop_ordinals = {0: KI, 1: KK, 2: KL}
    list_kinds = {'cores': 'arr'}

    def setup(self, ex, state, inst):
        m0 = ex.ctx.mark0
        me = mk_tt(state, 'self', m0)
        n = fresh('ndiag')
        dl = mk_int_list(state, 'diag_list', n)
        return {'self': me, 'diag_list': dl}

    def requires(self, S):
        me, dl = S.a['self'], S.a['diag_list']
        d = zi(me.order)
        n = zi(dl.len_term())
        # derived from the code: cores[i][k, :, 0, l] reads column index 0 of the listed modes - a vector-type mode is diagonalised
        yield 'listed-modes-exist-and-have-col-dim-1', FA(0, n, lambda q: z3.And(lst_get(dl, q) >= 0, lst_get(dl, q) < d, lst_get(me.col_dims, lst_get(dl, q)) == 1))
        q1, q2 = fresh('q1'), fresh('q2')
        yield 'listed-modes-distinct', z3.ForAll([q1, q2], z3.Implies(z3.And(0 <= q1, q1 < q2, q2 < n), lst_get(dl, q1) != lst_get(dl, q2)))

    def in_list(self, dl, j, upto=None):
        q = fresh('qd')
        n = zi(dl.len_term()) if upto is None else zi(upto)
        return z3.Exists([q], z3.And(0 <= q, q < n, lst_get(dl, q) == j))

    def ensures(self, S, res):
        me, dl = S.o['self'], S.o['diag_list']
        d = zi(me.order)
        yield 'returns-TT', isinstance(res, STT)
        if not isinstance(res, STT):
            return
        yield 'order', zi(res.order) == d
        yield 'row_dims', same_ints(res.row_dims, me.row_dims, d)
        yield 'ranks', same_ints(res.ranks, me.ranks, d + 1)
        yield 'col_dims', FA(0, d, lambda j: lst_get(res.col_dims, j) == z3.If(self.in_list(dl, j), lst_get(me.row_dims, j), lst_get(me.col_dims, j)))
        yield 'result-fresh', z3.And(meta_fresh(res, S.mark0), cores_fresh(res, S.mark0))

    def canary(self, S, res):
        return zi(res.order) == zi(S.o['self'].order) + 1 if isinstance(res, STT) else None

    def invariant(self, key, inst):
        me_ = self

        def outer(V, pos, k):
            me, dl, cores = V.old('self'), V.old('diag_list'), V['cores']
            d = zi(me.order)
            yield 'cores', z3.And(zi(cores.len_term()) == d, cores.ref >= V.mark0, FA(0, d, lambda j: z3.And(
                core_shape_ok(lst_get(cores, j), lst_get(me.ranks, j), lst_get(me.row_dims, j),
                              z3.If(me_.in_list(dl, j, upto=pos), lst_get(me.row_dims, j), lst_get(me.col_dims, j)), lst_get(me.ranks, j + 1)),
                lst_get(cores, j).buf >= V.mark0)))

        def inner(V, i, k):
            cd = V['core_diag']
            yield 'core_diag', z3.And(cd.buf >= V.mark0, cd.shape[0] == zi(V['r1']), cd.shape[1] == zi(V['d']), cd.shape[2] == zi(V['d']), cd.shape[3] == zi(V['r2']), cd.cplx)
            yield from outer_keep(V)

        def outer_keep(V):
            # the inner loops only fill the new core: the list of cores is as at the entry of the loop
            cores, c0 = V['cores'], V.entry['cores']
            yield 'cores-unchanged', z3.And(cores.ref == c0.ref, zi(cores.len_term()) == zi(c0.len_term()),
                                            FA(0, zi(cores.len_term()), lambda j: z3.And(lst_get(cores, j).buf == lst_get(c0, j).buf, zi(lst_get(cores, j).ndim) == zi(lst_get(c0, j).ndim),
                                                                                         *[a == b for a, b in zip(lst_get(cores, j).shape, lst_get(c0, j).shape)])))
        return {self.KI: outer, self.KK: inner, self.KL: inner}.get(key)


@register
class Qtt2tt(Contract):
    """qtt2tt(merge_numbers): consecutive groups of cores are merged.  With C(i) = merge_numbers[0] + ... + merge_numbers[i-1]:
    the result has len(merge_numbers) cores, mode i has the product of the dimensions of the modes C(i) .. C(i+1)-1 and the
    ranks are those of self at the group boundaries; everything is fresh, self is not written."""
    name, func = 'TT.qtt2tt', 'qtt2tt'
    props = ('C02', 'C06')
    KO, KI = 'i in range(len(merge_numbers))', 'j in range(k + 1, k + merge_numbers[i])'
    loop_ordinals = {0: KO, 1: KI}
    list_kinds = {'tt_cores': 'arr'}
    uses_heap = True        # (quantified model facts in the path condition: the vacuity guards are of the weaker kind, see A-vacuity)

    def _C(self, me):
        # cumulative sums of merge_numbers: an uninterpreted function with its recursive definition (assumed as a definition)
        key = '_cumsum'
        if not hasattr(self, key):
            setattr(self, key, fresh_fun('cumsum', z3.IntSort(), z3.IntSort()))
        return getattr(self, key)

    def setup(self, ex, state, inst):
        from vt.e1.calls import prod_fun
        m0 = ex.ctx.mark0
        me = mk_tt(state, 'self', m0)
        n = fresh('ngroups')
        mn = mk_int_list(state, 'merge_numbers', n)
        C = self._C(me)
        state.assume(z3.And(C(0) == 0, FA(0, n, lambda i: C(i + 1) == C(i) + lst_get(mn, i))), model=True)
        # definition of the slice products of the dimension lists (quantified: the merged dimensions are products over groups
        # whose bounds are symbolic), and lemma L-prod-pos for lists of positive dimensions
        a, b = z3.Int('pa'), z3.Int('pb')
        # lemma L-cumsum-mono (induction over the list, assumed): with positive merge numbers C grows by at least one per group
        state.assume(z3.Implies(FA(0, n, lambda i: lst_get(mn, i) >= 1),
                                z3.ForAll([a, b], z3.Implies(z3.And(0 <= a, a <= b, b <= n), C(a) + (b - a) <= C(b)), patterns=[z3.MultiPattern(C(a), C(b))])), model=True)
        for l in (me.row_dims, me.col_dims):
            P = prod_fun(l)
            f = l.fn
            state.assume(z3.ForAll([a], P(a, a) == 1), model=True)
            state.assume(z3.ForAll([a, b], z3.Implies(z3.And(0 <= a, a <= b, b < zi(me.order)), P(a, b + 1) == P(a, b) * zi(f(b))), patterns=[P(a, b + 1)]), model=True)
            state.assume(z3.ForAll([a, b], z3.Implies(z3.And(0 <= a, a <= b, b <= zi(me.order)), P(a, b) >= 1), patterns=[P(a, b)]), model=True)
        return {'self': me, 'merge_numbers': mn}

    def domain_extra(self, S):
        mn = S.a['merge_numbers']
        yield 'groups-nonempty', z3.And(zi(mn.len_term()) >= 1, FA(0, zi(mn.len_term()), lambda i: lst_get(mn, i) >= 1))

    def requires(self, S):
        me, mn = S.a['self'], S.a['merge_numbers']
        # derived from the code: cores[k] with k = sum of the previous merge numbers is read for every group
        yield 'groups-cover-the-cores', self._C(me)(zi(mn.len_term())) == zi(me.order)
        yield 'boundary-ranks-1', boundary_one(me)

    def ensures(self, S, res):
        from vt.e1.calls import prod_fun
        me, mn = S.o['self'], S.o['merge_numbers']
        n = zi(mn.len_term())
        C = self._C(me)
        yield 'returns-TT', isinstance(res, STT)
        if not isinstance(res, STT):
            return
        Pr, Pc = prod_fun(me.row_dims), prod_fun(me.col_dims)
        yield 'order', zi(res.order) == n
        yield 'ranks-at-group-boundaries', FA(0, n + 1, lambda i: lst_get(res.ranks, i) == lst_get(me.ranks, C(i)))
        yield 'merged-dimensions', FA(0, n, lambda i: z3.And(lst_get(res.row_dims, i) == Pr(C(i), C(i + 1)), lst_get(res.col_dims, i) == Pc(C(i), C(i + 1))))
        yield 'result-fresh', z3.And(meta_fresh(res, S.mark0), cores_fresh(res, S.mark0))

    def canary(self, S, res):
        return zi(res.order) == zi(S.o['merge_numbers'].len_term()) + 1 if isinstance(res, STT) else None

    def invariant(self, key, inst):
        me_ = self

        def common(V):
            from vt.e1.calls import prod_fun
            me, q = V.old('self'), V['qtt_tensor']
            d = zi(me.order)
            yield 'qtt_tensor', z3.And(zi(q.order) == d, valid(q), same_ints(q.row_dims, me.row_dims, d), same_ints(q.col_dims, me.col_dims, d),
                                       same_ints(q.ranks, me.ranks, d + 1), meta_fresh(q, V.mark0), cores_fresh(q, V.mark0))

        def group(V, c, a, b):
            """c is the merge of the cores a .. b-1"""
            from vt.e1.calls import prod_fun
            me = V.old('self')
            Pr, Pc = prod_fun(me.row_dims), prod_fun(me.col_dims)
            return z3.And(zi(c.ndim) == 4, c.shape[0] == lst_get(me.ranks, a), c.shape[1] == Pr(a, b), c.shape[2] == Pc(a, b), c.shape[3] == lst_get(me.ranks, b),
                          c.buf >= V.mark0)

        def outer(V, i, k_):
            me, mn, tc = V.old('self'), V.old('merge_numbers'), V['tt_cores']
            C = me_._C(me)
            yield from common(V)
            yield 'k', z3.And(zi(V['k']) == C(zi(i)), C(zi(i)) >= 0, z3.Implies(zi(i) < zi(mn.len_term()), C(zi(i) + 1) <= zi(me.order)))
            yield 'tt_cores', z3.And(zi(tc.len_term()) == zi(i), tc.ref >= V.mark0, FA(0, zi(i), lambda q: group(V, lst_get(tc, q), C(q), C(q + 1))))

        def inner(V, j, k_):
            me, mn, tc = V.old('self'), V.old('merge_numbers'), V['tt_cores']
            C = me_._C(me)
            i = zi(V['i'])
            yield from common(V)
            yield 'group', z3.And(i >= 0, i < zi(mn.len_term()), zi(V['k']) == C(i), C(i) >= 0, C(i + 1) <= zi(me.order), zi(j) > C(i), zi(j) <= C(i + 1))
            yield 'core', group(V, V['core'], zi(V['k']), zi(j))
            yield 'tt_cores', z3.And(zi(tc.len_term()) == i, tc.ref >= V.mark0, FA(0, i, lambda q: group(V, lst_get(tc, q), C(q), C(q + 1))))
        return {self.KO: outer, self.KI: inner}.get(key)
