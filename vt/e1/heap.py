"""Frozen tensor trains held in Python lists (trajectories `solution`, deflation lists `previous`).

A list of kind 'ttref' stores object ids.  What is known about the object behind an id is kept in a *heap of frozen
states*: uninterpreted functions from the id to the metadata lists, their ids, the core shapes and the core buffers.

  * `freeze(ex, state, x, lists)`  - called when a TT value x is stored into such a list.  The heap facts of x.ref are
    assumed *under the hypothesis that x.ref differs from every id already held by the tracked lists* (a fresh row of the
    functions: always consistent).  If the hypothesis is not provable (the very object was appended before and may have
    changed since), nothing is known about the element and the obligations that need it fail - never a vacuous pass.
  * `tt_at(ref)`                   - the TT value read back from the heap (reads of `solution[i]`).
  * `guard_*`                      - obligations generated at every write (list, object, buffer; own writes and callee
    frames): the written id is no component of a state held by a tracked list.  Together with the hypothesis above this
    makes the heap facts assumed at freeze time valid at every later read.
Contracts speak about list elements through `tt_at(lst_get(l, j))`, e.g. `wf(tt_at(...))`, `below(ref, mark)`.
"""
import z3
from vt.e1.values import SArr, SList, STT, zi, zb, fresh

I, B = z3.IntSort(), z3.BoolSort()
H_order = z3.Function('H_order', I, I)
H_rdref = z3.Function('H_rdref', I, I)
H_cdref = z3.Function('H_cdref', I, I)
H_rkref = z3.Function('H_rkref', I, I)
H_csref = z3.Function('H_csref', I, I)
H_rd = z3.Function('H_rd', I, I, I)
H_cd = z3.Function('H_cd', I, I, I)
H_rk = z3.Function('H_rk', I, I, I)
H_csh = [z3.Function('H_csh%d' % a, I, I, I) for a in range(4)]
H_cnd = z3.Function('H_cnd', I, I, I)
H_cbuf = z3.Function('H_cbuf', I, I, I)
H_ccx = z3.Function('H_ccx', I, I, B)
H_cct = z3.Function('H_cct', I, I, B)


# Opaque summaries (kept small for the solver; revealed per object where needed):
#   TOP(r) / BOT(r): strict upper / lower bound of every id of the frozen state r.  AXIOMS states the bound property for
#   every r (consistent: the functions are otherwise unconstrained and a frozen state has finitely many ids); the
#   *least/greatest* bound property is instantiated at freeze time for the watermarks the contracts speak about.
#   OK_<contract>(r): the contract's state predicate (Contract.state_pred), revealed for an object when it is frozen or read.
TOP = z3.Function('H_top', I, I)
BOT = z3.Function('H_bot', I, I)
_OK = {}


def OK(contract, ref):
    f = _OK.get(contract.name)
    if f is None:
        f = _OK[contract.name] = z3.Function('H_ok_%s' % ''.join(ch if ch.isalnum() else '_' for ch in contract.name), I, B)
    return f(zi(ref))


def axioms():
    r, k = z3.Int('hr'), z3.Int('hk0')
    ids = [r, H_rdref(r), H_cdref(r), H_rkref(r), H_csref(r)]
    return [z3.ForAll([r], z3.And(*[z3.And(x < TOP(r), x >= BOT(r)) for x in ids]), patterns=[TOP(r), BOT(r)]),
            z3.ForAll([r, k], z3.Implies(z3.And(0 <= k, k < H_order(r)), z3.And(H_cbuf(r, k) < TOP(r), H_cbuf(r, k) >= BOT(r))),
                      patterns=[H_cbuf(r, k)])]


def reveal(ex, state, ref):
    """definition instance of the contract's state predicate for one object"""
    c = ex.ctx.contract
    if hasattr(c, 'state_pred'):
        state.assume(OK(c, ref) == c.state_pred(zi(ref), state))


def _fa(lo, hi, body):
    from vt.e1.symexec import FA
    return FA(lo, hi, body)


def tt_at(ref):
    """the frozen TT value behind an object id"""
    r = zi(ref)
    d = H_order(r)
    rd = SList(H_rdref(r), d, fn=lambda k: H_rd(r, zi(k)), kind='int')
    cd = SList(H_cdref(r), d, fn=lambda k: H_cd(r, zi(k)), kind='int')
    rk = SList(H_rkref(r), d + 1, fn=lambda k: H_rk(r, zi(k)), kind='int')
    cs = SList(H_csref(r), d, fn=lambda k: SArr([f(r, zi(k)) for f in H_csh], H_ccx(r, zi(k)), H_cbuf(r, zi(k)), H_cct(r, zi(k)),
                                                  ndim=H_cnd(r, zi(k))), kind='arr')
    t = STT(r, d, rd, cd, rk, cs)
    t._frozen = True
    return t


def facts(x, r=None):
    """heap row of the current state of the TT value x"""
    r = zi(x.ref) if r is None else r
    d = zi(x.order)
    rd, cd, rk, cs = x.row_dims, x.col_dims, x.ranks, x.cores
    g = lambda l, k: l.get(k)       # noqa
    out = [H_order(r) == d, H_rdref(r) == rd.ref, H_cdref(r) == cd.ref, H_rkref(r) == rk.ref, H_csref(r) == cs.ref,
           _fa(0, d, lambda k: z3.And(H_rd(r, k) == zi(g(rd, k)), H_cd(r, k) == zi(g(cd, k)))),
           _fa(0, d + 1, lambda k: H_rk(r, k) == zi(g(rk, k)))]

    def core(k):
        c = g(cs, k)
        if not isinstance(c, SArr) or len(c.shape) != 4:
            return z3.BoolVal(True)
        return z3.And(*[f(r, k) == s for f, s in zip(H_csh, c.shape)], H_cnd(r, k) == zi(c.ndim), H_cbuf(r, k) == c.buf,
                      H_ccx(r, k) == c.cplx, H_cct(r, k) == c.contig)
    out.append(_fa(0, d, core))
    return z3.And(*out)


def below(ref, m):
    """every id of the frozen state (object, lists, buffers) is below the watermark m"""
    r = zi(ref)
    return z3.And(r < m, r >= 0, H_rdref(r) < m, H_cdref(r) < m, H_rkref(r) < m, H_csref(r) < m,
                  _fa(0, H_order(r), lambda k: H_cbuf(r, k) < m))


def at_least(ref, m):
    """every id of the frozen state is at least m (allocated after the watermark m)"""
    r = zi(ref)
    return z3.And(r >= m, H_rdref(r) >= m, H_cdref(r) >= m, H_rkref(r) >= m, H_csref(r) >= m,
                  _fa(0, H_order(r), lambda k: H_cbuf(r, k) >= m))


def tracked_lists(state):
    out, seen = [], set()
    for v in list(state.env.values()) + list(getattr(state.ctx, 'heap_params', [])):
        if isinstance(v, SList) and v.kind == 'ttref' and id(v) not in seen:
            seen.add(id(v))
            out.append(v)
    return out


def _elems(lst):
    """(length, j -> id) of a tracked list"""
    if lst.items is not None:
        items = [x.ref if isinstance(x, STT) else zi(x) for x in lst.items]
        n = len(items)

        def f(j, items=items):
            if not items:
                return z3.IntVal(-1)
            res = items[-1]
            for k in range(len(items) - 2, -1, -1):
                res = z3.If(j == k, items[k], res)
            return res
        return n, f
    return lst.length, lst.fn


def ref_at(lst, j):
    """object id stored at index j of a tracked list (whatever its internal representation)"""
    n, f = _elems(lst)
    return zi(f(zi(j)))


def not_held(state, ref, skip=None):
    """ref differs from every id held by a tracked list"""
    cs = []
    for l in tracked_lists(state):
        if l is skip:
            continue
        n, f = _elems(l)
        cs.append(_fa(0, n, lambda j, f=f: zi(f(j)) != zi(ref)))
    return z3.And(*cs) if cs else z3.BoolVal(True)


def freeze(ex, state, x, line, into=None):
    """returns the id under which the state is stored (a fresh constant equal to x.ref: keeps the heap terms simple)"""
    r = z3.simplify(zi(x.ref))
    if not (z3.is_const(r) and r.decl().kind() == z3.Z3_OP_UNINTERPRETED):
        r = fresh('state_ref')
        state.assume(r == zi(x.ref))
    hyp = not_held(state, r)
    state.assume(z3.Implies(hyp, facts(x, r)))
    # least upper / greatest lower bound instances for the watermarks in use
    for m in [state.mark, ex.ctx.mark0] + list(getattr(state, 'loop_marks', []))[-2:]:
        state.assume(z3.Implies(below(r, m), TOP(r) <= m))
        state.assume(z3.Implies(at_least(r, m), BOT(r) >= m))
    reveal(ex, state, r)
    return r


def freeze_items(ex, state, lst, line):
    """a list literal of TT values becomes a tracked list: freeze its items one after the other"""
    if lst.items is None:
        return
    items = list(lst.items)
    for k, x in enumerate(items):
        if isinstance(x, STT) and not getattr(x, '_frozen', False):
            lst.items = items[:k]
            try:
                freeze(ex, state, x, line)
            finally:
                lst.items = items


def _guard(ex, state, line, what, pred):
    if not getattr(ex.ctx.contract, 'heap_guard', True):
        return
    for l in tracked_lists(state):
        n, f = _elems(l)
        ex.ctx.oblige(state, 'frame:frozen-state-%s' % what, line, _fa(0, n, lambda j, f=f: pred(zi(f(j)))),
                      'a tensor train held by a trajectory / deflation list must not be written')


def guard_list(ex, state, lid, line):
    lid = zi(lid)
    _guard(ex, state, line, 'list-write', lambda r: z3.And(lid != H_rdref(r), lid != H_cdref(r), lid != H_rkref(r), lid != H_csref(r), lid != r))


def guard_buf(ex, state, buf, line):
    buf = zi(buf)
    _guard(ex, state, line, 'buffer-write', lambda r: _fa(0, H_order(r), lambda k: H_cbuf(r, k) != buf))


def guard_buf_family(ex, state, lo, hi, f, line):
    _guard(ex, state, line, 'buffer-write', lambda r: _fa(zi(lo), zi(hi) + 1, lambda jj: _fa(0, H_order(r), lambda k: H_cbuf(r, k) != f(jj))))
