"""Sidecar contracts for the alternating-ridge-regression helpers of scikit_tt/data_driven/regression.py (structural part: E1) -
C16.  For all orders, basis sizes, ranks and snapshot counts: the left / right stacks are (rank x snapshots) matrices obtained by
contracting the previous stack with the basis evaluations and the solution core *on the legs that belong together* (rank with
rank, basis index with the physical leg of the core, snapshots jointly), the micro matrix is the (r n r' x snapshots) design
matrix with rows ordered (left rank, basis index, right rank) - the order in which the solved core is split again - and the
core update writes core i (of the shape recorded in the metadata) and one rank entry and nothing else."""
import types
import z3
from vt.e1.values import (SArr, SList, STT, SNum, SNone, NONE, SOpt, SBasisFn, Unsupported, fresh, zi, zb)
from vt.e1.symexec import FA, sym_elem_fn
from vt.e1.contract import Contract, lists_distinct, lst_get, mk_int_list, type_domain, core_shape_ok
from vt.e1.npmodel import MRole
from vt.e1.sle_contracts import opt, stack_ok, sol_core_ok, tag_list, tag_tt, with_roles, roles_ok, mk_solution, ROLES_SOL

REG = {}
FILE = 'scikit_tt/data_driven/regression.py'
ROLES_STACK = ('K', 's')        # (rank leg of the coefficient tensor, snapshot index)
ROLES_DATA = ('x', 's')         # (coordinate, snapshot index)


def register(c):
    inst = c()
    REG[inst.name] = inst
    return c


def mk_basis(state, d, dim):
    """basis_list: one list of basis functions per mode; the functions of one list are numbered by the basis index p"""
    blen = sym_elem_fn('int', state)
    refs = sym_elem_fn('int', state)

    def mode(j):
        l = SList(refs(j), blen(j), fn=lambda k: SBasisFn(dim), kind='any')
        l.index_role = 'p'
        return l
    return SList(fresh('basis_ref'), d, fn=mode, kind='any')


def mk_stack2(state, name, n):
    l = SList(fresh(name + '_ref'), n, fn=sym_elem_fn('optarr2', state), kind='optarr2')
    return tag_list(l, ROLES_STACK)


def L(st, sol, j, m):
    """left stack entry j: (rank j) x snapshots; the first one is the 1 x 1 array [[1]] (broadcast over the snapshots)"""
    return stack_ok(st, j, [lst_get(sol.ranks, j), z3.If(zi(j) == 0, z3.IntVal(1), zi(m))])


def R(st, sol, j, m):
    d = zi(sol.order)
    return stack_ok(st, j, [lst_get(sol.ranks, j + 1), z3.If(zi(j) == d - 1, z3.IntVal(1), zi(m))])


class _ArrHelper(Contract):
    file, cls = FILE, None
    auto_valid = False      # the working solution is inside a dirty window (as in sle.py): the clauses say which cores are consistent
    props = ('C16',)
    stack_name = None

    def base(self, ex, state):
        sol = tag_tt(mk_solution(state, types.SimpleNamespace(order=fresh('order')), ex.ctx.mark0), ROLES_SOL)
        sol.cores.role_strict = True
        x = with_roles(SArr([fresh('dx'), fresh('m')], False, fresh('xbuf'), fresh('xct', 'bool')), ROLES_DATA)
        basis = mk_basis(state, zi(sol.order), x.shape[0])
        return sol, x, basis, fresh('i')

    def domain(self, S):
        a, m0 = S.a, S.mark0
        sol, x, basis, i = a['solution'], a.get('x_data'), a.get('basis_list'), zi(a['i'])
        d = zi(sol.order)
        for k, v in a.items():
            if isinstance(v, SList) or isinstance(v, SArr):
                for lbl, g in type_domain(k, v, m0):
                    if lbl.startswith('model:'):
                        yield lbl, g
        yield 'solution-metadata', z3.And(d >= 1, zi(sol.row_dims.len_term()) == d, zi(sol.col_dims.len_term()) == d, zi(sol.ranks.len_term()) == d + 1,
                                          zi(sol.cores.len_term()) == d, lists_distinct(sol))
        yield 'solution-dims', FA(0, d, lambda j: z3.And(lst_get(sol.row_dims, j) >= 1, lst_get(sol.col_dims, j) == 1))
        yield 'solution-ranks>=1', FA(0, d + 1, lambda j: lst_get(sol.ranks, j) >= 1)
        yield 'boundary-ranks', z3.And(lst_get(sol.ranks, 0) == 1, lst_get(sol.ranks, d) == 1)
        yield 'i-in-range', z3.And(i >= 0, i < d)
        if basis is not None:
            ok = isinstance(basis, SList) and isinstance(x, SArr) and len(x.shape) == 2
            yield 'basis-list', ok and z3.And(zi(basis.len_term()) == d, FA(0, d, lambda j: self._basis_ok(basis, sol, x, j)))
            yield 'data-real', ok and z3.Not(x.cplx)
        yield from self.domain_extra(S)

    @staticmethod
    def _basis_ok(basis, sol, x, j):
        b = lst_get(basis, j)
        if not isinstance(b, SList):
            return z3.BoolVal(False)
        f = b.get(fresh('p')) if b.items is None else (b.items[0] if b.items else None)
        if not isinstance(f, SBasisFn):
            return z3.BoolVal(False)
        # one basis function per entry of the mode, each defined on the state space of the data
        return z3.And(zi(b.len_term()) == lst_get(sol.row_dims, j), zi(f.dim) == x.shape[0])

    def modifies(self, S):
        return ([S.o[self.stack_name].ref] if self.stack_name else []), []


class _ArrStack(_ArrHelper):
    def mutated(self, A):
        return [A[self.stack_name]]

    def setup(self, ex, state, inst):
        sol, x, basis, i = self.base(ex, state)
        return {'i': i, self.stack_name: mk_stack2(state, self.stack_name, zi(sol.order)), 'x_data': x, 'basis_list': basis, 'solution': sol}

    def ensures(self, S, res):
        st, st0 = S.a[self.stack_name], S.o[self.stack_name]
        i = zi(S.o['i'])
        n = zi(st0.length)
        yield 'length-unchanged', zi(st.length) == n
        yield 'slot-i', self.slot(S, st, i)
        yield 'other-slots-unchanged', FA(0, n, lambda j: z3.Implies(j != i, self.same_entry(lst_get(st, j), lst_get(st0, j))))
        d_, a = opt(lst_get(st, i))
        yield 'slot-buffer-fresh', a is not None and a.buf >= S.mark0
        # the new entry is again (rank leg of the coefficient tensor) x (snapshots)
        yield 'contraction-roles', z3.BoolVal(roles_ok(lst_get(st, i), ROLES_STACK))

    @staticmethod
    def same_entry(a, b):
        da, va = opt(a)
        db, vb = opt(b)
        if va is None or vb is None:
            return da == db
        return z3.And(da == db, *[x == y for x, y in zip(va.shape, vb.shape)], va.buf == vb.buf)

    def canary(self, S, res):
        d_, a = opt(lst_get(S.a[self.stack_name], zi(S.o['i'])))
        return a.shape[0] == 0 if a is not None else None

    def effect(self, ex, state, A, inst, line):
        arr = with_roles(SArr([fresh('st0'), fresh('st1')], False, state.alloc(), True), ROLES_STACK)
        A[self.stack_name].set(zi(A['i']), arr)
        return NONE


@register
class ArrStackLeft(_ArrStack):
    name, func = 'fn:__arr_construct_stack_left', '__arr_construct_stack_left'
    stack_name = 'stack_left'

    def requires(self, S):
        st, sol, x, i = S.a['stack_left'], S.a['solution'], S.a['x_data'], zi(S.a['i'])
        yield 'stack-length', zi(st.length) == zi(sol.order)
        yield 'previous-entry-and-core', z3.Implies(i > 0, z3.And(L(st, sol, i - 1, x.shape[1]), sol_core_ok(sol, i - 1)))

    def slot(self, S, st, i):
        return L(st, S.o['solution'], i, S.o['x_data'].shape[1])


@register
class ArrStackRight(_ArrStack):
    name, func = 'fn:__arr_construct_stack_right', '__arr_construct_stack_right'
    stack_name = 'stack_right'

    def requires(self, S):
        st, sol, x, i = S.a['stack_right'], S.a['solution'], S.a['x_data'], zi(S.a['i'])
        d = zi(sol.order)
        yield 'stack-length', zi(st.length) == d
        yield 'next-entry-and-core', z3.Implies(i < d - 1, z3.And(R(st, sol, i + 1, x.shape[1]), sol_core_ok(sol, i + 1)))

    def slot(self, S, st, i):
        return R(st, S.o['solution'], i, S.o['x_data'].shape[1])


@register
class ArrMicroMatrix(_ArrHelper):
    name, func = 'fn:__arr_construct_micro_matrix', '__arr_construct_micro_matrix'

    def setup(self, ex, state, inst):
        sol, x, basis, i = self.base(ex, state)
        d = zi(sol.order)
        return {'i': i, 'stack_left': mk_stack2(state, 'sl', d), 'stack_right': mk_stack2(state, 'sr', d), 'x_data': x, 'basis_list': basis, 'solution': sol}

    def requires(self, S):
        l, r, sol, x, i = S.a['stack_left'], S.a['stack_right'], S.a['solution'], S.a['x_data'], zi(S.a['i'])
        d = zi(sol.order)
        yield 'stack-lengths', z3.And(zi(l.length) == d, zi(r.length) == d)
        yield 'environments-defined', z3.And(L(l, sol, i, x.shape[1]), R(r, sol, i, x.shape[1]))

    def ensures(self, S, res):
        sol, x, i = S.o['solution'], S.o['x_data'], zi(S.o['i'])
        ok = isinstance(res, SArr) and len(res.shape) == 2
        yield 'returns-matrix', ok
        if ok:
            yield 'shape', z3.And(res.shape[0] == lst_get(sol.ranks, i) * lst_get(sol.row_dims, i) * lst_get(sol.ranks, i + 1), res.shape[1] == x.shape[1])
            yield 'fresh', res.buf >= S.mark0
            # rows: (left rank, basis index, right rank) in C order - the order in which __arr_update_core splits the solved core
            yield 'design-matrix-roles', z3.BoolVal(design_roles_ok(res))

    def canary(self, S, res):
        return res.shape[0] == 0

    def effect(self, ex, state, A, inst, line):
        sol, i = A['solution'], zi(A['i'])
        r = SArr([fresh('mm0'), fresh('mm1')], False, state.alloc(), True)
        r.roles = (MRole([('K', lst_get(sol.ranks, i)), ('p', lst_get(sol.row_dims, i)), ('K', lst_get(sol.ranks, i + 1))]), 's')
        r.at_call_site = True
        return r


def design_roles_ok(res):
    r = res.__dict__.get('roles')
    if r is None:
        if getattr(res, 'at_call_site', False):
            return True
        raise Unsupported('the index roles of the design matrix were lost (an operation outside the role calculus was applied)')
    return isinstance(r[0], MRole) and r[0].roles == ('K', 'p', 'K') and r[1] == 's'


@register
class ArrUpdateCore(_ArrHelper):
    name, func = 'fn:__arr_update_core', '__arr_update_core'

    def instances(self):
        return [{'direction': dr} for dr in ('forward', 'backward')]

    def call_inst(self, A):
        if not isinstance(A['direction'], str):
            raise Unsupported('symbolic direction')
        return {'direction': A['direction']}

    def modifies(self, S):
        sol = S.o['solution']
        return [sol.cores.ref, sol.ranks.ref], []

    def mutated(self, A):
        return [A['solution'].cores, A['solution'].ranks]

    def setup(self, ex, state, inst):
        sol = tag_tt(mk_solution(state, types.SimpleNamespace(order=fresh('order')), ex.ctx.mark0), ROLES_SOL)
        sol.cores.role_strict = True        # the roles of the written core must be derived from the solve, not declared
        i, m = fresh('i'), fresh('m')
        ri, ni, rj = lst_get(sol.ranks, i), lst_get(sol.row_dims, i), lst_get(sol.ranks, i + 1)
        mm = SArr([ri * ni * rj, m], False, fresh('mmbuf'), True)
        mm.roles = (MRole([('K', ri), ('p', ni), ('K', rj)]), 's')
        rhs = with_roles(SArr([m], False, fresh('rhsbuf'), fresh('rhsct', 'bool')), ('s',))
        return {'i': i, 'micro_matrix': mm, 'rhs': rhs, 'solution': sol, 'rcond': SNum('rcond'), 'direction': inst['direction']}

    def domain_extra(self, S):
        mm, rhs, sol, i = S.a['micro_matrix'], S.a['rhs'], S.a['solution'], zi(S.a['i'])
        ok = isinstance(mm, SArr) and len(mm.shape) == 2 and isinstance(rhs, SArr) and len(rhs.shape) == 1
        yield 'design-matrix', ok and z3.And(mm.shape[0] == lst_get(sol.ranks, i) * lst_get(sol.row_dims, i) * lst_get(sol.ranks, i + 1), z3.Not(mm.cplx), mm.contig)
        yield 'design-matrix-roles', ok and z3.BoolVal(design_roles_ok(mm))
        yield 'rhs-real', ok and z3.Not(rhs.cplx)
        yield 'rhs-roles', ok and z3.BoolVal(rhs.__dict__.get('roles') in (None, ('s',)))

    def requires(self, S):
        mm, rhs, sol, i = S.a['micro_matrix'], S.a['rhs'], S.a['solution'], zi(S.a['i'])
        # derived from the code: one right-hand side entry per snapshot, at least one snapshot (LAPACK rejects empty systems)
        yield 'one-target-per-snapshot', z3.And(rhs.shape[0] == mm.shape[1], mm.shape[1] >= 1)
        if S.inst['direction'] == 'forward':
            yield 'forward:i<order-1', i < zi(sol.order) - 1
        yield 'inputs-not-owned-by-the-solution', z3.BoolVal(True)

    def ensures(self, S, res):
        sol, sol0, i = S.a['solution'], S.o['solution'], zi(S.o['i'])
        d = zi(sol0.order)
        fwd = S.inst['direction'] == 'forward'
        yield 'lists-kept', z3.And(sol.cores.ref == sol0.cores.ref, sol.ranks.ref == sol0.ranks.ref, zi(sol.cores.length) == d, zi(sol.ranks.length) == d + 1)
        yield 'core-i', sol_core_ok(sol, i)
        yield 'core-i-fresh', lst_get(sol.cores, i).buf >= S.mark0
        yield 'core-i-real', z3.Not(lst_get(sol.cores, i).cplx)
        yield 'other-cores-unchanged', FA(0, d, lambda j: z3.Implies(j != i, z3.And(
            lst_get(sol.cores, j).buf == lst_get(sol0.cores, j).buf, zi(lst_get(sol.cores, j).ndim) == zi(lst_get(sol0.cores, j).ndim),
            *[a == b for a, b in zip(lst_get(sol.cores, j).shape, lst_get(sol0.cores, j).shape)])))
        k = i + 1 if fwd else i
        yield 'one-rank-updated', FA(0, d + 1, lambda j: z3.Implies(j != k, lst_get(sol.ranks, j) == lst_get(sol0.ranks, j)))
        yield 'rank-not-increased', z3.And(lst_get(sol.ranks, k) <= lst_get(sol0.ranks, k), lst_get(sol.ranks, k) >= 1)
        # the rank of the guess is kept whenever the unfolding that is orthonormalised is not wider than tall (resp. taller than wide)
        ri, ni, rj = lst_get(sol0.ranks, i), lst_get(sol0.row_dims, i), lst_get(sol0.ranks, i + 1)
        yield 'rank-kept-when-representable', (z3.Implies(ri * ni >= rj, lst_get(sol.ranks, k) == rj) if fwd else z3.Implies(z3.Or(i == 0, ni * rj >= ri), lst_get(sol.ranks, k) == ri))
        yield 'isometry', lst_get(sol.cores, i).flags['lorth'] if fwd else z3.Implies(i > 0, lst_get(sol.cores, i).flags['rorth'])
        # the solved vector is split on the legs it was solved for: (left rank, physical leg, 1, right rank)
        yield 'core-roles', z3.BoolVal(core_roles_ok(lst_get(sol.cores, i)))

    def canary(self, S, res):
        return lst_get(S.a['solution'].ranks, zi(S.o['i'])) == lst_get(S.o['solution'].ranks, zi(S.o['i'])) + 1

    def effect(self, ex, state, A, inst, line):
        sol, i = A['solution'], zi(A['i'])
        k = i + 1 if inst['direction'] == 'forward' else i
        sol.ranks.set(k, fresh('newrank'))
        core = SArr([fresh('c%d' % q) for q in range(4)], fresh('ccx', 'bool'), state.alloc(), True, ndim=4,
                    flags={f: fresh('c' + f, 'bool') for f in SArr.FLAGS})
        core.at_call_site = True
        sol.cores.set(i, core)
        return NONE


def core_roles_ok(c):
    if getattr(c, 'at_call_site', False):
        return True
    r = c.__dict__.get('roles')
    if r is None:
        raise Unsupported('the index roles of the updated core were lost (an operation outside the role calculus was applied)')
    return tuple(r[:4]) == ROLES_SOL


# ----------------------------------------------------------------------------------------------------------------------
# the driver

def _same_slot(i0, k):
    i0, k = zi(i0), zi(k)
    if z3.is_app_of(i0, z3.Z3_OP_ITE) and i0.arg(2).eq(k):
        return True         # python index normalisation  If(k < 0, k + n, k)
    return i0.eq(k) or z3.is_true(z3.simplify(i0 == k))


def _base_fn(lst, k):
    """element function of a list of mutable tensor trains *before* the slot writes of the current iteration (all of which
    must be at slot k)"""
    ws = lst.__dict__.get('writes') or []
    for i0, _, _ in ws:
        if not _same_slot(i0, k):
            raise Unsupported('a slot other than the current one of the list of solutions was materialised')
    return ws[0][2] if ws else lst.fn


def _cur(lst, k):
    ws = lst.__dict__.get('writes') or []
    return ws[-1][1] if ws else lst.fn(zi(k))


def elem_ok(e, g0, mark0):
    """a finished or not yet touched solution: a valid tensor train of the guess's dimensions whose ranks do not exceed the
    guess's, made of objects and buffers allocated by this call"""
    from vt.e1.contract import valid, meta_fresh, cores_fresh, same_ints
    d = zi(g0.order)
    return z3.And(valid(e), zi(e.order) == d, same_ints(e.row_dims, g0.row_dims, d), FA(0, d, lambda q: lst_get(e.col_dims, q) == 1),
                  FA(0, d + 1, lambda q: z3.And(lst_get(e.ranks, q) <= lst_get(g0.ranks, q), lst_get(e.ranks, q) >= 1)),
                  lst_get(e.ranks, 0) == 1, lst_get(e.ranks, d) == 1, meta_fresh(e, mark0), cores_fresh(e, mark0),
                  FA(0, d, lambda q: z3.Not(lst_get(e.cores, q).cplx)))


@register
class Arr(Contract):
    """arr(x_data, y_data, basis_list, initial_guess: TT, repeats, rcond): one alternating ridge regression per row of y_data, each
    on its own copy of the guess.  Structural clauses for all orders, basis sizes, ranks, snapshot and target counts: the
    helper protocol (every environment a helper reads has been built for the current ranks, every core it reads is
    consistent), the result is a list of len(y_data) valid tensor trains of the guess's dimensions with ranks <= the guess's,
    none of them sharing an object or buffer with the guess, and neither the guess nor the data are written."""
    name, func, file, cls = 'fn:arr', 'arr', FILE, None
    props = ('C16',)
    list_kinds = {'stack_left': 'optarr2', 'stack_right': 'optarr2'}
    K0, K1, K2, K3, K4 = ('k in range(y_data.shape[0])', 'i in range(order - 1, -1, -1)#1', 'while current_iteration <= repeats',
                          'i in range(order)', 'i in range(order - 1, -1, -1)#4')
    loop_ordinals = {0: K0, 1: K1, 2: K2, 3: K3, 4: K4}

    def defaults(self):
        return {'repeats': 1, 'rcond': SNum('rcond'), 'string': NONE, 'progress': True}

    def setup(self, ex, state, inst):
        from vt.e1.contract import mk_tt
        m0 = ex.ctx.mark0
        g = mk_tt(state, 'initial_guess', m0)
        x = with_roles(SArr([fresh('dx'), fresh('m')], False, fresh('xbuf'), fresh('xct', 'bool')), ROLES_DATA)
        y = SArr([fresh('ny'), x.shape[1]], False, fresh('ybuf'), fresh('yct', 'bool'))
        basis = mk_basis(state, zi(g.order), x.shape[0])
        return {'x_data': x, 'y_data': y, 'basis_list': basis, 'initial_guess': g, 'repeats': fresh('repeats'), 'rcond': SNum('rcond'),
                'string': NONE, 'progress': fresh('progress', 'bool')}

    def domain_extra(self, S):
        x, y = S.a['x_data'], S.a['y_data']
        ok = isinstance(x, SArr) and isinstance(y, SArr) and len(x.shape) == 2 and len(y.shape) == 2
        yield 'data-matrices-real', ok and z3.And(z3.Not(x.cplx), z3.Not(y.cplx))

    def requires(self, S):
        x, y, basis, g = S.a['x_data'], S.a['y_data'], S.a['basis_list'], S.a['initial_guess']
        d = zi(g.order)
        yield 'guess-is-a-TT', isinstance(g, STT)
        yield 'guess-vector-type', z3.And(FA(0, d, lambda j: lst_get(g.col_dims, j) == 1), lst_get(g.ranks, 0) == 1, lst_get(g.ranks, d) == 1,
                                          FA(0, d, lambda j: z3.Not(lst_get(g.cores, j).cplx)))
        yield 'one-basis-list-per-mode', z3.And(zi(basis.len_term()) == d, FA(0, d, lambda j: _ArrHelper._basis_ok(basis, g, x, j)))
        # derived from the least-squares solves: one target value per snapshot, at least one snapshot
        yield 'snapshot-counts-match', z3.And(y.shape[1] == x.shape[1], x.shape[1] >= 1)

    def ensures(self, S, res):
        g0, y = S.o['initial_guess'], S.o['y_data']
        ok = isinstance(res, SList) and res.kind == 'tt'
        yield 'returns-list-of-TT', ok
        if ok:
            n = zi(res.len_term())
            yield 'one-solution-per-target', n == y.shape[0]
            yield 'list-fresh', res.ref >= S.mark0
            f = res.fn if not (res.__dict__.get('writes')) else None
            if f is None:
                raise Unsupported('result list with a materialised slot')
            yield 'solutions', FA(0, n, lambda j: elem_ok(f(j), g0, S.mark0))

    def canary(self, S, res):
        return zi(res.len_term()) == S.o['y_data'].shape[0] + 1 if isinstance(res, SList) else None

    # -- loop invariants ---------------------------------------------------------------------------------------------------
    def common(self, V, dirty=None):
        from vt.e1.contract import meta_fresh, same_ints
        lst, g0, y = V['solution'], V.old('initial_guess'), V.old('y_data')
        k = zi(V['k'])
        d = zi(g0.order)
        n = y.shape[0]
        yield 'k-in-range', z3.And(k >= 0, k < n)
        yield 'solution-list', z3.And(lst.ref >= V.mark0, zi(lst.len_term()) == n, z3.BoolVal(lst.kind == 'tt'))
        base = _base_fn(lst, k)
        yield 'other-solutions', FA(0, n, lambda j: z3.Implies(j != k, elem_ok(base(j), g0, V.mark0)))
        sol = _cur(lst, k)
        yield 'solution-identity', z3.And(meta_fresh(sol, V.mark0), lists_distinct(sol), zi(sol.order) == d, zi(sol.cores.length) == d,
                                          zi(sol.ranks.length) == d + 1, zi(sol.row_dims.length) == d, zi(sol.col_dims.length) == d)
        yield 'solution-dims', z3.And(same_ints(sol.row_dims, g0.row_dims, d), FA(0, d, lambda j: lst_get(sol.col_dims, j) == 1))
        yield 'ranks<=guess', FA(0, d + 1, lambda j: z3.And(lst_get(sol.ranks, j) <= lst_get(g0.ranks, j), lst_get(sol.ranks, j) >= 1))
        yield 'boundary', z3.And(lst_get(sol.ranks, 0) == 1, lst_get(sol.ranks, d) == 1)
        yield 'buffers-fresh', FA(0, d, lambda j: z3.And(lst_get(sol.cores, j).buf >= V.mark0, z3.Not(lst_get(sol.cores, j).cplx)))
        for nm in ('stack_left', 'stack_right'):
            yield 'len(%s)' % nm, z3.And(zi(V[nm].length) == d, V[nm].ref >= V.mark0)
        yield 'order', zi(V['order']) == d

    def invariant(self, key, inst):
        me = self

        def inv_outer(V, k, it):
            lst, g0, y = V['solution'], V.old('initial_guess'), V.old('y_data')
            n = y.shape[0]
            yield 'solution-list', z3.And(lst.ref >= V.mark0, zi(lst.len_term()) == n, z3.BoolVal(lst.kind == 'tt'))
            ws = lst.__dict__.get('writes') or []
            if ws:
                base, cur, kk = ws[0][2], ws[-1][1], zi(k)
                for i0, _, _ in ws:
                    if not _same_slot(i0, kk):
                        raise Unsupported('several slots of the list of solutions were materialised in one iteration')
                yield 'solutions', z3.And(elem_ok(cur, g0, V.mark0), FA(0, n, lambda j: z3.Implies(j != kk, elem_ok(base(j), g0, V.mark0))))
            else:
                yield 'solutions', FA(0, n, lambda j: elem_ok(lst.fn(j), g0, V.mark0))
            yield 'order', zi(V['order']) == zi(g0.order)

        def m_of(V):
            return V.old('x_data').shape[1]

        def inv_init(V, i, it):
            from vt.e1.contract import wf
            sol = _cur(V['solution'], V['k'])
            d = zi(V.old('initial_guess').order)
            yield from me.common(V)
            yield 'wf(solution)', wf(sol)
            yield 'right-stacks', FA(0, d, lambda j: z3.Implies(j > i, R(V['stack_right'], sol, j, m_of(V))))

        def inv_while(V, i, it):
            from vt.e1.contract import wf
            sol = _cur(V['solution'], V['k'])
            d = zi(V.old('initial_guess').order)
            yield from me.common(V)
            yield 'wf(solution)', wf(sol)
            yield 'right-stacks', FA(0, d, lambda j: R(V['stack_right'], sol, j, m_of(V)))

        def inv_fwd(V, i, it):
            sol = _cur(V['solution'], V['k'])
            d = zi(V.old('initial_guess').order)
            dirty = z3.If(i < d - 1, i, d - 1)
            yield from me.common(V)
            yield 'cores', FA(0, d, lambda j: z3.Implies(j != dirty, sol_core_ok(sol, j)))
            yield 'left-stacks', FA(0, d, lambda j: z3.Implies(j < i, L(V['stack_left'], sol, j, m_of(V))))
            yield 'right-stacks', FA(0, d, lambda j: z3.Implies(j >= i, R(V['stack_right'], sol, j, m_of(V))))

        def inv_bwd(V, i, it):
            sol = _cur(V['solution'], V['k'])
            d = zi(V.old('initial_guess').order)
            yield from me.common(V)
            yield 'cores', FA(0, d, lambda j: z3.Implies(j != i, sol_core_ok(sol, j)))
            yield 'left-stacks', FA(0, d, lambda j: z3.Implies(j <= i, L(V['stack_left'], sol, j, m_of(V))))
            yield 'right-stacks', FA(0, d, lambda j: z3.Implies(j > i, R(V['stack_right'], sol, j, m_of(V))))
        return {self.K0: inv_outer, self.K1: inv_init, self.K2: inv_while, self.K3: inv_fwd, self.K4: inv_bwd}.get(key)

    def effect(self, ex, state, A, inst, line):
        from vt.e1.symexec import sym_elem_fn as sef
        n = fresh('nsol')
        state.assume(n >= 0)
        return SList(state.alloc(), n, fn=sef('tt', state), kind='tt')
