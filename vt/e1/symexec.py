"""E1: verification-condition generation by symbolic execution of the real AST (re-read from /repo on every run).

What is dropped from the code (stated exactly): array *contents*; calls to utl.progress / print / _time.time (pure output);
string formatting; the `except:` arm of try/except around linalg.svd (a retry with another LAPACK driver: same contract);
type annotations and docstrings.  Everything else in a function body is executed symbolically; a construct outside the
subset raises Unsupported and the function is reported as *unverified* (exit 2), never skipped silently.

Python semantics assumed (A-python): mathematical integers, CPython evaluation order, lists/TT objects by reference,
no operator overloading other than on TT (resolved to the sidecar contracts), `is`/`==` on None/bool/str constants.
"""
import ast
import os
import copy
import time
import z3
from vt.e1.values import (SArr, SList, STT, SNum, SMaxRank, SInf, INF, SNone, NONE, SOpt, SFunc, SModule, SExc, Unsupported,
                          fresh, fresh_fun, zi, zb, as_conc, is_conc_int, val_ite, arr_ite)
from vt.e1 import npmodel
from vt.e1 import heap
from vt.e1.values import is_tag, SObj, SArrN, _Memo


class Obligation:
    def __init__(self, name, kind, line, pc, goal, expect='unsat', detail=''):
        self.name, self.kind, self.line, self.pc, self.goal, self.expect, self.detail = name, kind, line, list(pc), goal, expect, detail


class Ctx:
    """per-function verification context"""

    def __init__(self, contract, inst, registry, src_name):
        self.contract, self.inst, self.registry, self.src_name = contract, inst, registry, src_name
        self.obls = []
        self.axioms = []
        self.mark0 = z3.Int('mark0')
        self.n_ob = {}
        self.modifies_lists = []      # refs (terms) of pre-existing lists the function may mutate
        self.modifies_bufs = None     # function(buf_term, state) -> Bool: pre-existing buffers the function may write
        self.unsupported = []
        self.feas_cache = {}
        self.model_facts = set()
        self.reach = []               # per verified loop: path conditions at the start and at every end of the body (vacuity guard)
        self.muted = False

    def oblige(self, state, kind, line, goal, detail=''):
        if getattr(self, 'muted', False):
            return
        structural = False
        if isinstance(goal, bool):
            if goal:
                return
            goal = z3.BoolVal(False)
            # a loop-invariant clause that is False as a *Python* value (an isinstance / number-of-axes test of the sidecar
            # invariant): the loop no longer has the structure the invariant describes - nothing is decided about the code
            structural = kind.startswith(('inv-init', 'inv-pres'))
        k = '%s@%s' % (kind, line)
        n = self.n_ob.get(k, 0)
        self.n_ob[k] = n + 1
        ob = Obligation('%s#%d' % (k, n), kind, line, state.pc, goal, detail=detail)
        ob.structural = structural
        self.obls.append(ob)


class State:
    def __init__(self, ctx):
        self.ctx = ctx
        self.env = {}
        self.pc = []
        self.mark = ctx.mark0
        self.old = {}            # snapshots of parameters at entry
        self.decisions = {}      # resolved data-dependent result kinds of contract calls (see ForkRequest)

    def clone(self):
        memo = {}
        s = State(self.ctx)
        s.pc = list(self.pc)
        s.mark = self.mark
        s.old = self.old
        s.decisions = dict(self.decisions)
        s.loop_marks = list(getattr(self, 'loop_marks', []))
        s.env = {k: _clone(v, memo) for k, v in self.env.items()}
        return s

    def assume(self, b, model=False):
        """model=True: a definitional fact of the encoding (e.g. an unfolding instance of an uninterpreted product), exempt
        from the domain-covers-setup guard"""
        if isinstance(b, bool):
            if not b:
                self.pc.append(z3.BoolVal(False))
            return
        if model:
            self.ctx.model_facts.add(b.get_id())
        self.pc.append(b)

    def alloc(self):
        i = self.mark
        self.mark = self.mark + 1
        return i

    def alloc_block(self, name='blk'):
        """reserve an unbounded block of fresh ids [base, new mark)"""
        base = self.mark
        nm = fresh(name + '_mark')
        self.assume(nm >= base)
        self.mark = nm
        return base, nm


def _clone(v, memo):
    if isinstance(v, SList):
        if id(v) in memo:
            return memo[id(v)]
        n = SList(v.ref, v.length, v.fn, None, v.kind)
        n.transients = dict(getattr(v, 'transients', {}) or {})
        for extra in ('slice_of', 'split_points', 'role_tag', 'index_role', 'role_strict', 'stride_writes', 'writes'):
            if extra in v.__dict__:
                setattr(n, extra, v.__dict__[extra])
        memo[id(v)] = n
        if v.items is not None:
            n.items = [_clone(x, memo) for x in v.items]
            n.length = len(n.items)
            n.fn = None
        elif v.kind == 'tt' and v.__dict__.get('writes'):
            # materialised (mutable) elements live in the element function's closures: rebuild them around cloned objects
            ws, f = [], v.writes[0][2]
            for i0, val, _ in v.writes:
                val2 = _clone(val, memo)
                ws.append((i0, val2, f))
                f = _Memo(lambda j, f=f, i0=i0, val2=val2: val_ite(j == i0, val2, f(j)))
            n.fn = f
            n.writes = ws
        return n
    if isinstance(v, STT):
        if id(v) in memo:
            return memo[id(v)]
        n = STT(v.ref, None, None, None, None, None)
        memo[id(v)] = n
        n.f = {k: _clone(x, memo) for k, x in v.f.items()}
        return n
    if isinstance(v, SObj):
        if id(v) in memo:
            return memo[id(v)]
        n = SObj(v.ref)
        memo[id(v)] = n
        n.f = {k: _clone(x, memo) for k, x in v.f.items()}
        return n
    if isinstance(v, (list, tuple)):
        return type(v)(_clone(x, memo) for x in v)
    if isinstance(v, dict):
        return {k: _clone(x, memo) for k, x in v.items()}
    return v


_FA_DEPTH = [0]


def FA(lo, hi, body, name='j'):
    """forall j in [lo, hi): body(j).  The bound variable is named by nesting depth, so that the same clause built twice over
    unchanged values is the *same* term (an obligation that literally repeats a hypothesis is then discharged at once,
    independently of quantifier instantiation heuristics)."""
    d = _FA_DEPTH[0]
    j = z3.Int('fa!%d' % d)
    _FA_DEPTH[0] = d + 1
    try:
        b = body(j)
    finally:
        _FA_DEPTH[0] = d
    if isinstance(b, bool):
        b = z3.BoolVal(b)
    return z3.ForAll([j], z3.Implies(z3.And(zi(lo) <= j, j < zi(hi)), b))


class ForkRequest(Exception):
    """a contract call whose *kind* of result depends on a symbolic condition (TT @ TT: scalar iff all dims are 1)"""

    def __init__(self, key, cond):
        self.key, self.cond = key, cond


def _may_fork(node):
    for n in ast.walk(node):
        if isinstance(n, ast.BinOp) and isinstance(n.op, ast.MatMult):
            return True
        if isinstance(n, ast.Call) and isinstance(n.func, ast.Attribute) and n.func.attr in ('dot', '__matmul__', 'matricize'):
            return True
    return False


class _IterLocalUsed(Exception):
    pass


class _IterLocal:
    """placeholder for an argument that denotes an object created inside the loop iteration"""

    def __getattr__(self, k):
        raise _IterLocalUsed(k)

    def __getitem__(self, k):
        raise _IterLocalUsed(k)


class _UnknownArg:
    """placeholder for an argument that cannot be evaluated at the loop head"""

    def __getattr__(self, k):
        raise AttributeError('argument not evaluable at the loop head (.%s)' % k)


class Outcome:
    def __init__(self, kind, state, value=None):
        self.kind, self.state, self.value = kind, state, value     # kind: normal | return | raise | break


class Executor:
    def __init__(self, ctx, module_globals):
        self.ctx = ctx
        self.globals = module_globals
        self.t_feas = 0.0

    # ------------------------------------------------------------------------------------------------------------------
    # feasibility / branching
    def feasible(self, state, cond):
        if isinstance(cond, bool):
            return cond
        s = z3.Solver()
        s.set('timeout', int(os.environ.get('VERIF_FEAS_TIMEOUT_MS', '700')))
        from vt.e1 import calls as _calls
        for a in list(self.ctx.axioms) + list(_calls.AXIOMS):
            s.add(a)
        for p in state.pc:
            s.add(p)
        s.add(cond)
        t0 = time.time()
        r = s.check()
        self.t_feas += time.time() - t0
        return r != z3.unsat

    def branch(self, state, cond):
        """returns [(state_true or None), (state_false or None)]"""
        if isinstance(cond, bool):
            return (state, None) if cond else (None, state)
        cond = z3.simplify(cond)
        if z3.is_true(cond):
            return state, None
        if z3.is_false(cond):
            return None, state
        t_ok = self.feasible(state, cond)
        f_ok = self.feasible(state, z3.Not(cond))
        st = sf = None
        if t_ok and f_ok:
            st = state
            sf = state.clone()
            st.assume(cond)
            sf.assume(z3.Not(cond))
        elif t_ok:
            st = state
            st.assume(cond)
        elif f_ok:
            sf = state
            sf.assume(z3.Not(cond))
        return st, sf

    # ------------------------------------------------------------------------------------------------------------------
    # statements
    def exec_block(self, stmts, state):
        """returns list[Outcome]"""
        outs = []
        pending = [state]
        for st in stmts:
            nxt = []
            for s in pending:
                for o in self.exec_stmt(st, s):
                    if o.kind == 'normal':
                        nxt.append(o.state)
                    else:
                        outs.append(o)
            pending = nxt
            if not pending:
                break
        outs += [Outcome('normal', s) for s in pending]
        return outs

    def exec_stmt(self, node, state):
        m = getattr(self, 'st_' + type(node).__name__, None)
        if m is None:
            raise Unsupported('statement %s at line %d' % (type(node).__name__, node.lineno))
        from vt.e1 import values as _V

        def decide(cond, state=state):
            if not self.feasible(state, z3.Not(cond)):
                return True
            if not self.feasible(state, cond):
                return False
            return None
        _V.PROVER['decide'] = decide
        simple = isinstance(node, (ast.Assign, ast.AugAssign, ast.Expr, ast.Return))
        pre = state.clone() if (simple and _may_fork(node)) else None
        try:
            return m(node, state)
        except ForkRequest as fr:
            if pre is None:
                raise Unsupported('result type of a call depends on data inside a compound statement (line %d)' % node.lineno)
            outs = []
            st, sf = self.branch(pre, fr.cond)
            for s2, val in ((st, True), (sf, False)):
                if s2 is not None:
                    s2.decisions = dict(s2.decisions)
                    s2.decisions[fr.key] = val
                    outs += self.exec_stmt(node, s2)
            return outs

    def st_Pass(self, node, state):
        return [Outcome('normal', state)]

    def st_Expr(self, node, state):
        if isinstance(node.value, ast.Constant):       # docstring
            return [Outcome('normal', state)]
        res = []
        for s, _ in self.eval_forks(node.value, state):
            res.append(Outcome('normal', s))
        return res

    def st_FunctionDef(self, node, state):
        state.env[node.name] = SFunc(node, state.env)
        return [Outcome('normal', state)]

    def st_Return(self, node, state):
        if node.value is None:
            return [Outcome('return', state, NONE)]
        return [Outcome('return', s, v) for s, v in self.eval_forks(node.value, state)]

    def st_Raise(self, node, state):
        name = None
        e = node.exc
        if isinstance(e, ast.Call) and isinstance(e.func, ast.Name):
            name = e.func.id
        elif isinstance(e, ast.Name):
            name = e.id
        return [Outcome('raise', state, SExc(name or 'Exception'))]

    def st_Try(self, node, state):
        # the except arm only retries the same LAPACK call with another driver (same contract): body only
        return self.exec_block(node.body, state)

    def st_Assign(self, node, state):
        outs = []
        for s, v in self.eval_forks(node.value, state):
            for tgt in node.targets:
                if isinstance(v, SList) and isinstance(tgt, ast.Name) and tgt.id in getattr(self.ctx.contract, 'list_kinds', {}):
                    v.kind = self.ctx.contract.list_kinds[tgt.id]
                    if v.kind == 'ttref':
                        heap.freeze_items(self, s, v, node.lineno)
                self.assign(tgt, v, s, node)
            outs.append(Outcome('normal', s))
        return outs

    def st_AugAssign(self, node, state):
        if isinstance(node.target, ast.Name) and isinstance(state.env.get(node.target.id), SArr) and isinstance(node.op, (ast.Add, ast.Sub, ast.Mult)):
            # ndarray.__iadd__ etc. work in place: same object, same buffer, same dtype (NumPy refuses to cast complex into real),
            # the operand is broadcast into the target
            tgt = state.env[node.target.id]
            outs = []
            for s, v in self.eval_forks(node.value, state):
                t = s.env[node.target.id]
                if isinstance(v, SArr):
                    npmodel.oblige_broadcast_into(self, s, v.shape, t.shape, node.lineno)
                    self.ctx.oblige(s, 'no-complex-into-real', node.lineno, z3.Or(z3.Not(v.cplx), t.cplx), 'in-place arithmetic cannot cast a complex operand into a real array')
                elif isinstance(v, SNum):
                    self.ctx.oblige(s, 'no-complex-into-real', node.lineno, z3.Or(z3.Not(v.cplx), t.cplx), 'in-place arithmetic cannot cast a complex operand into a real array')
                elif not (is_conc_int(v) or isinstance(v, (float, z3.ArithRef))):
                    raise Unsupported('in-place arithmetic with %s at line %d' % (type(v).__name__, node.lineno))
                self.write_buffer(t.buf, s, node.lineno, 'in-place arithmetic')
                outs.append(Outcome('normal', s))
            return outs
        binop = ast.BinOp(left=_load(node.target), op=node.op, right=node.value)
        ast.copy_location(binop, node)
        ast.fix_missing_locations(binop)
        outs = []
        for s, v in self.eval_forks(binop, state):
            if isinstance(node.target, ast.Subscript):
                base = self.ev(node.target.value, s)
                if isinstance(base, SArr):
                    # in-place arithmetic on a slice: a write to the buffer, contents dropped
                    self.array_setitem(base, node.target, v, s)
                    outs.append(Outcome('normal', s))
                    continue
            self.assign(node.target, v, s, node)
            outs.append(Outcome('normal', s))
        return outs

    def st_If(self, node, state):
        outs = []
        for s, c in self.eval_forks(node.test, state):
            c = self.truth(c, s)
            st, sf = self.branch(s, c)
            if st is not None:
                outs += self.exec_block(node.body, st)
            if sf is not None:
                outs += self.exec_block(node.orelse, sf) if node.orelse else [Outcome('normal', sf)]
        return outs

    def st_While(self, node, state):
        return self.loop(node, state, kind='while')

    def st_For(self, node, state):
        return self.loop(node, state, kind='for')

    # ------------------------------------------------------------------------------------------------------------------
    # loops with supplied invariants
    def loop(self, node, state, kind):
        ctx = self.ctx
        arange = None
        elem_of = None
        if kind == 'for':
            if not (isinstance(node.iter, ast.Call) and isinstance(node.iter.func, ast.Name) and node.iter.func.id == 'range'):
                itv = self.ev(node.iter, state) if isinstance(node.iter, ast.Name) else None
                arange = getattr(itv, 'arange', None) if isinstance(itv, SArr) else None
                if arange is None and isinstance(itv, SList) and itv.kind == 'int' and node.iter.id not in {n_.id for st_ in node.body for n_ in ast.walk(st_) if isinstance(n_, ast.Name) and isinstance(n_.ctx, ast.Store)}:
                    # for x in <list of integers> (the list is not rebound in the body): iteration k visits list[k]
                    src = itv.snapshot()
                    src.to_fn()
                    arange = (z3.IntVal(0), zi(src.length), 1)
                    elem_of = src
                if arange is None:
                    raise Unsupported('for loop over %s at line %d' % (ast.unparse(node.iter), node.lineno))
            if not isinstance(node.target, ast.Name):
                raise Unsupported('for target at line %d' % node.lineno)
            key = '%s in %s' % (node.target.id, ast.unparse(node.iter))
        else:
            key = 'while %s' % ast.unparse(node.test)
        ordinal0 = getattr(ctx, 'loop_ordinals', {}).get(id(node))
        inv = ctx.contract.invariant('%s#%s' % (key, ordinal0), ctx.inst) or ctx.contract.invariant(key, ctx.inst)
        if inv is None:
            # fallback: the loop header was edited; attach the invariant registered for the loop's ordinal position
            ordinal = getattr(ctx, 'loop_ordinals', {}).get(id(node))
            canon = getattr(ctx.contract, 'loop_ordinals', {}).get(ordinal)
            if canon is not None:
                inv = ctx.contract.invariant(canon, ctx.inst)
        if inv is None:
            # no invariant supplied: try full unrolling when the trip count is concrete and small
            if kind == 'for':
                return self.unroll_for(node, state, key)
            raise Unsupported('no invariant for loop `%s` (line %d)' % (key, node.lineno))
        outs = []
        entry = {k: (v.snapshot() if isinstance(v, (SList, STT)) else v) for k, v in state.env.items()}
        inv0 = inv

        def inv(V, i, k, inv0=inv0, entry=entry, key=key):
            # an invariant that cannot be evaluated on the current code (a local it speaks about was renamed or removed, a value
            # changed kind) leaves the function undecided - it is neither a crash of the checker nor a verdict
            try:
                return list(inv0(_with_entry(V, entry), i, k))
            except Unsupported:
                raise
            except (KeyError, AttributeError, TypeError, IndexError) as e:
                raise Unsupported('the invariant of loop `%s` cannot be evaluated on this code (%s: %s)' % (key, type(e).__name__, e))
        if kind == 'for':
            if arange is not None:
                lo, hi, step = arange
            else:
                args = [self.ev(a, state) for a in node.iter.args]
                lo, hi, step = (0, args[0], 1) if len(args) == 1 else (args[0], args[1], 1) if len(args) == 2 else tuple(args)
            step = as_conc(step)
            if step is None or step == 0 or step < -1:
                raise Unsupported('range step at line %d' % node.lineno)
            lo, hi = zi(lo), zi(hi)
            var = node.target.id
            # number of iterations: k-th iteration has i = lo + k*step
            if step in (1, -1):
                n = z3.If(step * (hi - lo) > 0, step * (hi - lo), z3.IntVal(0))
            else:
                n = z3.If(hi > lo, (hi - lo + (step - 1)) / step, z3.IntVal(0))
            # 1. initiation: invariant at k = 0
            s0 = state
            bindvar = (lambda st_, pos: st_.env.__setitem__(var, pos)) if elem_of is None else \
                (lambda st_, pos: st_.env.__setitem__(var, elem_of.fn(zi(pos))))      # element loops: the variable holds list[pos]
            bindvar(s0, lo)
            for lbl, g in inv(View(s0, self), lo, z3.IntVal(0)):
                ctx.oblige(s0, 'inv-init[%s]:%s' % (key, lbl), node.lineno, g)
            # 2. arbitrary iteration
            sb = state.clone()
            k = fresh('k')
            self.havoc(node.body, sb, extra=[var])
            self.havoc_mark(sb, state)
            sb.assume(z3.And(k >= 0, k < n))
            iv = lo + k * step
            bindvar(sb, iv)
            # variables declared by the contract as carried from one iteration to the next although they are first bound inside
            # the loop: bound at the head of every iteration but the first (checked at the end of every path through the body)
            carried = getattr(ctx.contract, 'loop_carried', {}).get(key, {})
            for nm, mk in carried.items():
                if nm not in sb.env:
                    sb.env[nm] = ('maybe-unbound', k > 0, mk(sb))
            for lbl, g in inv(View(sb, self), iv, k):
                sb.assume(g)
            start_pc = list(sb.pc)
            body_outs = self.exec_block(node.body, sb)
            ctx.reach.append({'key': key, 'line': node.lineno, 'start': start_pc, 'ends': [list(o.state.pc) for o in body_outs]})
            for o in body_outs:
                if o.kind == 'normal':
                    bindvar(o.state, iv + step)
                    for nm in carried:
                        v_ = o.state.env.get(nm)
                        if isinstance(v_, tuple) and len(v_) == 3 and v_[0] == 'maybe-unbound':
                            ctx.oblige(o.state, 'loop-carried-variable-bound[%s]' % nm, node.lineno, v_[1], 'declared as carried to the next iteration')
                        elif v_ is None:
                            ctx.oblige(o.state, 'loop-carried-variable-bound[%s]' % nm, node.lineno, z3.BoolVal(False), 'declared as carried to the next iteration')
                    for lbl, g in inv(View(o.state, self), iv + step, k + 1):
                        ctx.oblige(o.state, 'inv-pres[%s]:%s' % (key, lbl), node.lineno, g)
                elif o.kind in ('return', 'raise'):
                    outs.append(o)
                else:
                    raise Unsupported('break/continue in loop with invariant, line %d' % node.lineno)
            # 3. after the loop
            sa = state.clone()
            self.havoc(node.body, sa, extra=[var])
            self.havoc_mark(sa, state)
            bindvar(sa, lo + n * step)
            # variables first bound inside the body exist after the loop iff it ran at least once: reading one is an obligation
            def _mu(x):
                return isinstance(x, tuple) and len(x) == 3 and x[0] == 'maybe-unbound'
            done_mu = set()
            normal_envs = [o.state.env for o in body_outs if o.kind == 'normal']

            def _binds(env_, nm):
                return nm in env_ and not _mu(env_[nm])
            # a name bound on some but not all paths of an arbitrary iteration (e.g. only in the branch of the last index): it is
            # bound after the loop if every path of the *last* iteration binds it (the body is executed once more for k = n - 1)
            partial = {nm for e_ in normal_envs for nm in e_ if nm != var and (nm not in state.env or _mu(state.env.get(nm))) and _binds(e_, nm)
                       and not all(_binds(e2, nm) for e2 in normal_envs)}
            last_binds = set()
            if partial:
                sl = state.clone()
                self.havoc(node.body, sl, extra=[var])
                self.havoc_mark(sl, state)
                sl.assume(n > 0)
                il = lo + (n - 1) * step
                bindvar(sl, il)
                for nm, mk in carried.items():
                    if nm not in sl.env:
                        sl.env[nm] = ('maybe-unbound', n - 1 > 0, mk(sl))
                for lbl, g in inv(View(sl, self), il, n - 1):
                    sl.assume(g)
                was = ctx.muted
                ctx.muted = True
                try:
                    louts = [o for o in self.exec_block(node.body, sl) if o.kind == 'normal']
                finally:
                    ctx.muted = was
                last_binds = {nm for nm in partial if louts and all(_binds(o.state.env, nm) for o in louts)}
            for o in body_outs:
                if o.kind == 'normal':
                    for nm, val in o.state.env.items():
                        pre = state.env.get(nm)
                        if nm in partial and nm not in last_binds:
                            continue        # may be unbound after the loop: a later read is rejected (unknown name)
                        if nm != var and nm not in done_mu and (nm not in state.env or _mu(pre)) and not _mu(val):
                            done_mu.add(nm)
                            self._rebound = {nm}
                            try:
                                cond = z3.Or(pre[1], n > 0) if _mu(pre) else n > 0
                                sa.env[nm] = ('maybe-unbound', cond, self.havoc_value(val, sa, nm))
                            finally:
                                self._rebound = ()
            for nm, mk in carried.items():
                if nm not in state.env:
                    sa.env[nm] = ('maybe-unbound', n > 0, mk(sa))
            for lbl, g in inv(View(sa, self), lo + n * step, n):
                sa.assume(g)
            # python leaves the loop variable at its last value (if any iteration ran); it is rarely used: havoc it
            sa.env[var] = z3.If(n > 0, lo + (n - 1) * step, fresh(var + '_undef')) if elem_of is None else fresh(var + '_last')
            outs.append(Outcome('normal', sa))
            return outs
        # while loop --------------------------------------------------------------------------------------------------------
        for lbl, g in inv(View(state, self), None, None):
            ctx.oblige(state, 'inv-init[%s]:%s' % (key, lbl), node.lineno, g)
        # the loop runs at least once iff its test holds in the entry state
        try:
            ent = self.eval_forks(node.test, state.clone())
            ran_once = self.truth(ent[0][1], ent[0][0]) if len(ent) == 1 else None
            if isinstance(ran_once, bool):
                ran_once = z3.BoolVal(ran_once)
        except Unsupported:
            ran_once = None
        body_envs = []
        sb = state.clone()
        self.havoc(node.body, sb)
        self.havoc_mark(sb, state)
        for lbl, g in inv(View(sb, self), None, None):
            sb.assume(g)
        sa = sb.clone()
        for s, c in self.eval_forks(node.test, sb):
            c = self.truth(c, s)
            st, _ = self.branch(s, c)
            if st is not None:
                start_pc = list(st.pc)
                wouts = self.exec_block(node.body, st)
                ctx.reach.append({'key': key, 'line': node.lineno, 'start': start_pc, 'ends': [list(o.state.pc) for o in wouts]})
                for o in wouts:
                    if o.kind == 'normal':
                        body_envs.append(o.state.env)
                        for lbl, g in inv(View(o.state, self), None, None):
                            ctx.oblige(o.state, 'inv-pres[%s]:%s' % (key, lbl), node.lineno, g)
                    elif o.kind in ('return', 'raise'):
                        outs.append(o)
                    else:
                        raise Unsupported('break in while loop, line %d' % node.lineno)
        # variables first bound inside the body exist after the loop iff it ran at least once
        for env_ in body_envs:
            for nm, val in env_.items():
                if nm not in state.env and nm not in sa.env and not (isinstance(val, tuple) and len(val) == 3 and val[0] == 'maybe-unbound'):
                    self._rebound = {nm}
                    try:
                        sa.env[nm] = ('maybe-unbound', ran_once if ran_once is not None else z3.BoolVal(False), self.havoc_value(val, sa, nm))
                    finally:
                        self._rebound = ()
        for s, c in self.eval_forks(node.test, sa):
            c = self.truth(c, s)
            _, sf = self.branch(s, c)
            if sf is not None:
                outs.append(Outcome('normal', sf))
        return outs

    def unroll_for(self, node, state, key):
        args = [self.ev(a, state) for a in node.iter.args]
        lo, hi, step = (0, args[0], 1) if len(args) == 1 else (args[0], args[1], 1) if len(args) == 2 else tuple(args)
        lo, hi, step = as_conc(lo), as_conc(hi), as_conc(step)
        if lo is None or hi is None or step is None or len(range(lo, hi, step)) > 12:
            raise Unsupported('no invariant for loop `%s` (line %d) and trip count not a small constant' % (key, node.lineno))
        pending, outs = [state], []
        for i in range(lo, hi, step):
            nxt = []
            for s in pending:
                s.env[node.target.id] = i
                for o in self.exec_block(node.body, s):
                    if o.kind == 'normal':
                        nxt.append(o.state)
                    elif o.kind == 'break':
                        outs.append(Outcome('normal', o.state))
                    else:
                        outs.append(o)
            pending = nxt
        return outs + [Outcome('normal', s) for s in pending]

    def st_Break(self, node, state):
        return [Outcome('break', state)]

    def havoc(self, body, state, extra=()):
        """forget everything the loop body may change"""
        names = set(extra)
        objs = []
        calls_ = []
        for n in ast.walk(ast.Module(body=list(body), type_ignores=[])):
            if isinstance(n, ast.Name) and isinstance(n.ctx, ast.Store):
                names.add(n.id)
            tgt = None
            grows = False
            if isinstance(n, (ast.Assign, ast.AugAssign)):
                for t in (n.targets if isinstance(n, ast.Assign) else [n.target]):
                    for sub in ast.walk(t):
                        if isinstance(sub, ast.Subscript) and isinstance(sub.ctx, ast.Store):
                            objs.append((sub.value, False))
                        if isinstance(sub, ast.Attribute) and isinstance(sub.ctx, ast.Store):
                            objs.append((sub, 'attr'))
            if isinstance(n, ast.Call) and isinstance(n.func, ast.Attribute) and n.func.attr in ('append', 'extend', 'insert', 'reverse', 'pop'):
                objs.append((n.func.value, n.func.attr != 'reverse'))
            elif isinstance(n, ast.Call):
                calls_.append(n)
        done = set()
        self._havoc_body = list(body)
        self.ctx.muted = True       # the scan only identifies the mutated objects; it generates no obligations
        try:
            self._havoc_objs(objs, state, done)
            self._havoc_callee_effects(calls_, state, done)
        finally:
            self.ctx.muted = False
        self._rebound = names
        try:
            for nm in names:
                if nm in state.env:
                    state.env[nm] = self.havoc_value(state.env[nm], state, nm)
        finally:
            self._rebound = ()

    def _havoc_callee_effects(self, calls_, state, done):
        """lists mutated by contract callees inside the loop body (declared by Contract.mutated).  Arguments that cannot be
        evaluated at the loop head (variables bound later in the body) are passed as None; if the callee's `mutated` needs one
        of them the function is reported as outside the subset - effects are never skipped silently."""
        from vt.e1 import calls as C
        from vt.e1.contract import Contract as _C
        reg = self.ctx.registry

        body_nodes = getattr(self, '_havoc_body', [])

        def iteration_local(name):
            """every assignment to `name` in the loop body yields an object created in the iteration (a copy, TT arithmetic) or the
            same object again (a call that receives `name`): nothing that exists at the loop head is reached through it"""
            rhs = []
            for st_ in body_nodes:
                for n_ in ast.walk(st_):
                    if isinstance(n_, ast.Assign) and any(isinstance(t, ast.Name) and t.id == name for t in n_.targets):
                        rhs.append(n_.value)
                    elif isinstance(n_, ast.AugAssign) and isinstance(n_.target, ast.Name) and n_.target.id == name:
                        rhs.append(n_.value)
            if not rhs:
                return False
            for e in rhs:
                if isinstance(e, ast.BinOp):
                    continue
                if (isinstance(e, ast.Subscript) and isinstance(e.value, ast.Name) and isinstance(state.env.get(e.value.id), SList)
                        and state.env[e.value.id].kind == 'ttref' and getattr(self.ctx.contract, 'heap_guard', True)):
                    continue        # a stored (frozen) state: nothing in the environment is reached; a write to it is refuted by the heap guard in the body
                if isinstance(e, ast.Call):
                    if isinstance(e.func, ast.Attribute) and e.func.attr == 'copy':
                        continue
                    names = {x.id for x in ast.walk(e) if isinstance(x, ast.Name)}
                    if name in names:
                        continue
                return False
            return True

        def safe(node):
            if isinstance(node, ast.Subscript) and isinstance(node.value, ast.Name):
                l_ = state.env.get(node.value.id)
                if isinstance(l_, SList) and l_.kind == 'tt':
                    # an element of a list of mutable tensor trains is handed to a callee: every element is abstracted
                    if id(l_) not in done:
                        done.add(id(l_))
                        self.havoc_list(l_, state, False)
                    return _IterLocal()
            try:
                return self.ev(node, state)
            except Exception:
                if isinstance(node, ast.Name) and node.id not in state.env and iteration_local(node.id):
                    return _IterLocal()
                return _UnknownArg()
        for n in calls_:
            c = None
            args = None
            if isinstance(n.func, ast.Name) and ('fn:' + n.func.id) in reg:
                c = reg['fn:' + n.func.id]
                if type(c).mutated is _C.mutated:
                    continue
                args = [safe(a) for a in n.args]
            elif isinstance(n.func, ast.Attribute):
                recv = safe(n.func.value)
                if isinstance(recv, STT) and ('TT.' + n.func.attr) in reg:
                    c = reg['TT.' + n.func.attr]
                    if type(c).mutated is _C.mutated:
                        continue
                    args = [recv] + [safe(a) for a in n.args]
                elif isinstance(recv, SModule) and ('fn:' + n.func.attr) in reg:
                    c = reg['fn:' + n.func.attr]
                    if type(c).mutated is _C.mutated:
                        continue
                    args = [safe(a) for a in n.args]
            if c is None:
                continue
            kw = {k.arg: safe(k.value) for k in n.keywords if k.arg}
            try:
                A = c.bind(args, kw)
                muts = list(c.mutated(A))
            except Unsupported:
                raise
            except _IterLocalUsed:
                continue            # the mutated lists belong to an object created inside the iteration
            except Exception as e:
                raise Unsupported('cannot determine what %s mutates at the head of the loop (line %d): %r' % (c.name, n.lineno, e))
            for lst in muts:
                if isinstance(lst, SList) and id(lst) not in done:
                    done.add(id(lst))
                    self.havoc_list(lst, state, False)

    def _havoc_objs(self, objs, state, done):
        for expr, grows in objs:
            if grows == 'attr':
                try:
                    base = self.ev(expr.value, state)
                except Exception:
                    continue
                if isinstance(base, (STT, SObj)):
                    cur = base.f.get(expr.attr)
                    base.f[expr.attr] = self.havoc_value(cur, state, expr.attr, grows=True)
                continue
            try:
                obj = self.ev(expr, state)
            except Exception:
                continue
            if isinstance(obj, SList):
                if id(obj) not in done:
                    done.add(id(obj))
                    self.havoc_list(obj, state, grows)
                elif grows and not getattr(obj, '_grown', False):
                    obj.length = fresh('len')
                    state.assume(zi(obj.length) >= 0)
                if grows:
                    obj._grown = True

    def havoc_mark(self, s, pre):
        """earlier iterations allocated an unknown number of ids: the watermark of an arbitrary iteration is unknown"""
        m = fresh('lmark')
        s.assume(m >= pre.mark)
        s.mark = m
        s.loop_marks = list(getattr(s, 'loop_marks', [])) + [m]

    def havoc_list(self, lst, state, grows):
        kind = lst.kind
        if kind == 'any':
            # infer from a sample element
            try:
                sample = lst.get(0) if (lst.items is None or lst.items) else None
            except Exception:
                sample = None
            kind = 'arr' if isinstance(sample, (SArr, SOpt, SNone)) else 'int' if isinstance(sample, (int, z3.ExprRef)) else 'ttref' if isinstance(sample, STT) else 'any'
            if isinstance(sample, (SOpt, SNone)):
                kind = 'optarr%d' % (len(sample.val.shape) if isinstance(sample, SOpt) else 3)
        if kind == 'any':
            raise Unsupported('cannot havoc a heterogeneous list')
        length = fresh('len') if grows else lst.length
        if grows:
            state.assume(zi(length) >= 0)
        lst.items = None
        lst.transients = {}
        lst.length = length
        lst.kind = kind if not kind.startswith('optarr') else lst.kind
        lst.fn = sym_elem_fn(kind, state)
        tag = lst.__dict__.get('role_tag')
        if tag is not None:
            # ghost index roles declared for the elements of this list survive the abstraction of the loop
            from vt.e1.sle_contracts import tag_list
            tag_list(lst, tag)

    def havoc_value(self, v, state, nm, grows=False):
        if isinstance(v, bool) or isinstance(v, z3.BoolRef):
            return fresh(nm, 'bool')
        if isinstance(v, int) or isinstance(v, z3.ArithRef):
            return fresh(nm)
        if isinstance(v, SArr):
            a = SArr([fresh(nm + '_sh') for _ in v.shape], fresh(nm + '_cx', 'bool'), fresh(nm + '_buf'), fresh(nm + '_ct', 'bool'),
                     flags={f: fresh(nm + '_' + f, 'bool') for f in SArr.FLAGS}, kind=v.kind, own=fresh(nm + '_own', 'bool'))
            for s in a.shape:
                state.assume(s >= 0)
            return a
        if isinstance(v, SList) and v.kind == 'any' and v.items == [] and nm in getattr(self, '_rebound', ()):
            return ('unknown-after-loop-rebinding', nm)      # e.g. `t_2 = []` before the loop, `t_2 = <TT>` inside: any read before the assignment is rejected
        if isinstance(v, SList):
            n = SList(v.ref, v.length, v.fn, None if v.items is None else list(v.items), v.kind)
            self.havoc_list(n, state, grows=True)
            return n
        if getattr(self.ctx.contract, 'var_kinds', {}).get(nm) == 'array-any' and nm in getattr(self, '_rebound', ()):
            # declared by the contract: an array whose rank changes between iterations - only its size is tracked
            a = SArrN(fresh(nm + '_size'), fresh(nm + '_ndim'), fresh(nm + '_cx', 'bool'), fresh(nm + '_buf'), None)
            state.assume(a.size >= 0)
            return a
        if getattr(self.ctx.contract, 'var_kinds', {}).get(nm) == 'optional-tt' and nm in getattr(self, '_rebound', ()):
            # declared by the contract: None before the loop, possibly a tensor train after some iteration
            from vt.e1.contract import mk_fresh_tt
            t = mk_fresh_tt(state, nm)
            state.assume(z3.And(t.ref >= 0, t.row_dims.ref >= 0, t.col_dims.ref >= 0, t.ranks.ref >= 0, t.cores.ref >= 0))
            return ('optional-tt', fresh(nm + '_defined', 'bool'), t)
        if isinstance(v, STT) and nm in getattr(self, '_rebound', ()):
            # the variable is *rebound* in the loop body (x = f(x)): at the head of an arbitrary iteration it refers to an unknown
            # tensor train - only the loop invariant says anything about it
            from vt.e1.contract import mk_fresh_tt
            t = mk_fresh_tt(state, nm)
            state.assume(z3.And(t.ref >= 0, t.row_dims.ref >= 0, t.col_dims.ref >= 0, t.ranks.ref >= 0, t.cores.ref >= 0))
            return t
        return v      # STT objects mutated in place keep identity; their lists are havoced through the object scan

    # ------------------------------------------------------------------------------------------------------------------
    # assignment
    def assign(self, tgt, v, state, node):
        ctx = self.ctx
        if isinstance(tgt, ast.Name):
            state.env[tgt.id] = v
        elif isinstance(tgt, (ast.Tuple, ast.List)):
            if is_tag(v, 'shape-of'):
                # a, b, c, d = x.shape for an array taken from a list: the number of targets fixes the rank
                arr = v[1]
                ctx.oblige(state, 'array-rank', node.lineno, zi(arr.ndim) == len(tgt.elts), 'cannot unpack the shape into %d names' % len(tgt.elts))
                v = tuple(arr.shape[:len(tgt.elts)])
            vals = v.items if isinstance(v, SList) and v.items is not None else v
            if not isinstance(vals, (list, tuple)) or len(vals) != len(tgt.elts):
                raise Unsupported('unpacking at line %d' % node.lineno)
            for t, x in zip(tgt.elts, vals):
                self.assign(t, x, state, node)
        elif isinstance(tgt, ast.Attribute):
            obj = self.ev(tgt.value, state)
            if isinstance(obj, (STT, SObj)):
                self.frame_obj(obj, state, node.lineno, 'attribute %s' % tgt.attr)
                kinds = getattr(self.ctx.contract, 'list_kinds', {})
                key = '%s.%s.cores' % (ast.unparse(tgt.value), tgt.attr)
                if isinstance(v, STT) and kinds.get(key) == 'arr5' and v.cores.kind == 'arr':
                    # this tensor train's first core will hold a 5-d block of eigenvectors: five shape slots per core from now on
                    from vt.e1.values import widen5
                    cs = v.cores
                    cs.to_fn()
                    old = cs.fn
                    cs.fn = lambda j, old=old: widen5(old(j))
                    cs.kind = 'arr5'
                ek = kinds.get('%s.%s[]' % (ast.unparse(tgt.value), tgt.attr))
                if ek is not None and isinstance(v, SList) and v.items is not None:
                    # a list of lists declared by the contract: every inner list holds Optional arrays of the declared rank
                    for inner in v.items:
                        if isinstance(inner, SList) and inner.kind == 'any':
                            inner.kind = ek
                obj.f[tgt.attr] = v
            else:
                raise Unsupported('attribute store on %s at line %d' % (type(obj).__name__, node.lineno))
        elif isinstance(tgt, ast.Subscript):
            base = self.ev(tgt.value, state)
            if isinstance(base, SList):
                idx = self.ev(tgt.slice, state)
                if is_tag(idx, 'slice'):
                    self.list_store_strided(base, idx, v, state, node.lineno)
                    return
                i = self.norm_index(base, idx, state, node.lineno)
                self.frame_list(base, state, node.lineno)
                if base.kind == 'arr' and not isinstance(v, SArr):
                    raise Unsupported('non-array stored into a core list at line %d' % node.lineno)
                base.set(i, v)
            elif isinstance(base, SArr):
                self.array_setitem(base, tgt, v, state)
            else:
                raise Unsupported('subscript store on %s at line %d' % (type(base).__name__, node.lineno))
        else:
            raise Unsupported('assignment target at line %d' % node.lineno)

    def list_store_strided(self, base, sl, v, state, line):
        """lst[a::s] = values  with constant a >= 0, s >= 2 (extended slice: CPython raises ValueError unless the number of values
        equals the number of selected slots).  Slot a + k*s receives values[k]; every other slot keeps its content."""
        _, lo, hi, step = sl
        a, st_ = (0 if lo is None else as_conc(lo)), (None if step is None else as_conc(step))
        if hi is not None or a is None or a < 0 or st_ is None or st_ < 2 or not isinstance(v, SList):
            raise Unsupported('slice assignment to a list at line %d' % line)
        self.frame_list(base, state, line)
        n = zi(base.len_term())
        slots = z3.If(n > a, (n - a + (st_ - 1)) / st_, z3.IntVal(0))
        src = v.snapshot()
        self.ctx.oblige(state, 'extended-slice-length', line, zi(src.len_term()) == slots,
                        'attempt to assign a sequence of another size to an extended slice')
        src.to_fn()
        base.to_fn()
        old, f = base.fn, src.fn
        writes = list(base.__dict__.get('stride_writes') or [])
        base.fn = lambda j, old=old, f=f, a=a, st_=st_: val_ite(z3.And(zi(j) >= a, (zi(j) - a) % st_ == 0), f((zi(j) - a) / st_), old(j))
        base.stride_writes = writes + [(a, st_, src)]
        if base.kind != src.kind:
            base.kind = 'any'

    def array_setitem(self, base, tgt, v, state):
        line = tgt.lineno
        idx = self.ev(tgt.slice, state)
        sub = npmodel.getitem(self, state, base, idx, line, for_store=True)
        # broadcast compatibility of the stored value
        if isinstance(v, SArr):
            npmodel.oblige_broadcast_into(self, state, v.shape, sub.shape, line)
            self.ctx.oblige(state, 'no-complex-into-real', line, z3.Or(z3.Not(v.cplx), base.cplx),
                            'storing a complex array into a real one drops the imaginary part')
        elif isinstance(v, SNum):
            self.ctx.oblige(state, 'no-complex-into-real', line, z3.Or(z3.Not(v.cplx), base.cplx))
        self.write_buffer(base.buf, state, line)

    def write_buffer(self, buf, state, line, what='array write'):
        ctx = self.ctx
        allowed = buf >= ctx.mark0
        if ctx.modifies_bufs is not None:
            allowed = z3.Or(allowed, ctx.modifies_bufs(buf, state))
        ctx.oblige(state, 'frame:buffer-write', line, allowed, what)
        heap.guard_buf(self, state, buf, line)

    def frame_list(self, lst, state, line):
        ctx = self.ctx
        allowed = lst.ref >= ctx.mark0
        for r in ctx.modifies_lists:
            allowed = z3.Or(allowed, lst.ref == r)
        ctx.oblige(state, 'frame:list-write', line, allowed)
        if lst.kind != 'ttref':
            heap.guard_list(self, state, lst.ref, line)

    def frame_obj(self, obj, state, line, what):
        ctx = self.ctx
        allowed = obj.ref >= ctx.mark0
        for r in ctx.modifies_lists:
            allowed = z3.Or(allowed, obj.ref == r)
        ctx.oblige(state, 'frame:object-write', line, allowed, what)
        heap.guard_list(self, state, obj.ref, line)

    def norm_index(self, lst, idx, state, line, what='index'):
        """python index semantics: negative indices count from the end; obligation: -len <= idx < len"""
        n = lst.len_term()
        c = as_conc(idx)
        if c is not None:
            if c >= 0:
                self.ctx.oblige(state, 'index-in-range', line, c < n, what)
                return c
            self.ctx.oblige(state, 'index-in-range', line, -c <= n, what)
            return z3.simplify(n + c)
        i = zi(idx)
        self.ctx.oblige(state, 'index-in-range', line, z3.And(-n <= i, i < n), what)
        return z3.If(i < 0, i + n, i)

    # ------------------------------------------------------------------------------------------------------------------
    # expressions
    def eval_forks(self, node, state):
        """evaluate an expression that may contain calls with several outcomes; returns [(state, value)].
        (only contract calls with exceptional outcomes fork; they are reported through state.pending_raise)"""
        v = self.ev(node, state)
        return [(state, v)]

    def truth(self, v, state):
        if isinstance(v, (bool, z3.BoolRef)):
            return v
        if isinstance(v, SNone):
            return False
        if is_conc_int(v):
            return v != 0
        if isinstance(v, z3.ArithRef):
            return v != 0
        if isinstance(v, SList):
            return zi(v.length) > 0 if not is_conc_int(v.length) else v.length > 0
        if isinstance(v, SArr) and len(v.shape) == 0:
            return fresh('cond', 'bool')        # a 0-d array / NumPy scalar: data dependent
        if isinstance(v, SArr):
            # numpy raises ValueError for arrays with more than one element
            self.ctx.oblige(state, 'truth-of-array', 0, z3.And(*[x == 1 for x in v.shape]), 'the truth value of an array with more than one element is ambiguous')
            return fresh('cond', 'bool')
        raise Unsupported('truth value of %s' % type(v).__name__)

    def ev(self, node, state):
        m = getattr(self, 'ex_' + type(node).__name__, None)
        if m is None:
            raise Unsupported('expression %s at line %d' % (type(node).__name__, getattr(node, 'lineno', 0)))
        return m(node, state)

    def ex_Constant(self, node, state):
        v = node.value
        if v is None:
            return NONE
        if isinstance(v, (bool, int, str)):
            return v
        if isinstance(v, float):
            if v == int(v) and abs(v) < 2 ** 31:
                return SNum('lit', nonzero=z3.BoolVal(v != 0), nonneg=z3.BoolVal(v >= 0))
            return SNum('lit', nonzero=z3.BoolVal(v != 0), nonneg=z3.BoolVal(v >= 0))
        if isinstance(v, complex):
            return SNum('lit', nonzero=z3.BoolVal(v != 0), cplx=z3.BoolVal(True))
        raise Unsupported('constant %r' % (v,))

    def ex_Name(self, node, state):
        if node.id in state.env:
            v = state.env[node.id]
            if isinstance(v, tuple) and len(v) == 3 and v[0] == 'maybe-unbound':
                self.ctx.oblige(state, 'variable-bound', node.lineno, v[1], 'variable %s is only bound inside a loop that may not have run' % node.id)
                state.env[node.id] = v[2]
                return v[2]
            if isinstance(v, tuple) and len(v) == 2 and v[0] == 'unknown-after-loop-rebinding':
                raise Unsupported('variable %s (an empty list before the loop, rebound inside it) is read before it is assigned in the iteration (line %d)' % (node.id, node.lineno))
            return v
        if node.id in self.globals:
            return self.globals[node.id]
        if node.id in ('ValueError', 'TypeError', 'IndexError', 'Exception'):
            return SExc(node.id)
        if node.id in ('int', 'float', 'complex', 'list', 'str', 'bool', 'tuple'):
            return ('type', node.id)
        raise Unsupported('unknown name %s at line %d' % (node.id, node.lineno))

    def ex_Tuple(self, node, state):
        return tuple(self.ev(e, state) for e in node.elts)

    def ex_List(self, node, state):
        items = [self.ev(e, state) for e in node.elts]
        return SList(state.alloc(), None, items=items)

    def ex_Slice(self, node, state):
        return ('slice', None if node.lower is None else self.ev(node.lower, state), None if node.upper is None else self.ev(node.upper, state),
                None if node.step is None else self.ev(node.step, state))

    def ex_Attribute(self, node, state):
        obj = self.ev(node.value, state)
        a = node.attr
        if isinstance(obj, STT):
            if a in obj.f:
                return obj.f[a]
            return ('method', obj, a)
        if isinstance(obj, SObj):
            if a not in obj.f:
                raise Unsupported('attribute %s of a plain object is read before it is set (line %d)' % (a, node.lineno))
            return obj.f[a]
        if isinstance(obj, SModule):
            if obj.name == 'np' and a == 'inf':
                return INF
            if obj.name == 'np' and a == 'newaxis':
                return NONE
            if obj.name == 'np' and a in ('int32', 'int64', 'float32', 'float64', 'intp'):
                return ('type', 'np.' + a)
            if obj.name == 'np' and a == 'linalg':
                return SModule('np.linalg')
            if obj.name == 'sp' and a == 'linalg':
                return SModule('sp.linalg')
            if obj.name == 'np' and a == 'random':
                return SModule('np.random')
            return ('modfunc', obj.name, a)
        if isinstance(obj, SArrN):
            if a == 'shape' and obj.shape is not None:
                return obj.shape
            if a == 'ndim':
                return obj.ndim
            if a in ('copy', 'transpose'):
                return ('method', obj, a)
            raise Unsupported('attribute %s of an array of symbolic rank at line %d' % (a, node.lineno))
        if isinstance(obj, SArr):
            if a == 'shape':
                if not is_conc_int(obj.ndim):
                    return ('shape-of', obj)
                return tuple(obj.shape)
            if a == 'ndim':
                return obj.ndim
            if a == 'T':
                return npmodel.transpose(self, state, obj, None, node.lineno)
            if a == 'dtype':
                return ('dtype', obj)
            return ('method', obj, a)
        if isinstance(obj, SList):
            return ('method', obj, a)
        if is_tag(obj, 'squeezed'):
            return ('method', obj, a)
        if is_tag(obj, 'TTclass'):
            return ('ttfunc', a)
        raise Unsupported('attribute %s of %s at line %d' % (a, type(obj).__name__, node.lineno))

    def ex_Subscript(self, node, state):
        base = self.ev(node.value, state)
        idx = self.ev(node.slice, state)
        line = node.lineno
        if isinstance(base, SList):
            if is_tag(idx, 'slice'):
                return self.list_slice(base, idx, state, line)
            i = self.norm_index(base, idx, state, line)
            v = base.get_resolved(i)
            if base.kind == 'ttref' and not isinstance(v, STT):
                if not getattr(self.ctx.contract, 'heap_guard', True):
                    raise Unsupported('read of a state of a trajectory list in a contract without heap guards (line %d)' % line)
                heap.reveal(self, state, v)
                return heap.tt_at(v)
            return v
        if is_tag(base, 'shape-of'):
            arr = base[1]
            c = as_conc(idx)
            if c is None or c >= len(arr.shape) or c < -len(arr.shape):
                raise Unsupported('shape index at line %d' % line)
            if c < 0:
                self.ctx.oblige(state, 'array-rank', line, zi(arr.ndim) == len(arr.shape), 'shape[%d] needs a known rank' % c)
                return arr.shape[c]
            self.ctx.oblige(state, 'index-in-range', line, c < zi(arr.ndim), 'shape[%d] of an array of unknown rank' % c)
            return arr.shape[c]
        if isinstance(base, tuple):
            if is_tag(idx, 'slice'):
                lo = as_conc(idx[1]) if idx[1] is not None else None
                hi = as_conc(idx[2]) if idx[2] is not None else None
                if (idx[1] is not None and lo is None) or (idx[2] is not None and hi is None) or idx[3] is not None:
                    raise Unsupported('symbolic slice of a tuple at line %d' % line)
                return base[lo:hi]
            c = as_conc(idx)
            if c is None:
                raise Unsupported('symbolic index into a tuple at line %d' % line)
            if not (-len(base) <= c < len(base)):
                self.ctx.oblige(state, 'index-in-range', line, False, 'tuple index')
                raise Unsupported('tuple index out of range at line %d' % line)
            return base[c]
        if isinstance(base, SArr):
            return npmodel.getitem(self, state, base, idx, line)
        if isinstance(base, SOpt):
            self.ctx.oblige(state, 'not-None', line, base.defined, 'subscript of an Optional value')
            return npmodel.getitem(self, state, base.val, idx, line)
        if isinstance(base, SNone):
            self.ctx.oblige(state, 'not-None', line, False, 'subscript of None')
            raise Unsupported('subscript of None at line %d' % line)
        raise Unsupported('subscript of %s at line %d' % (type(base).__name__, line))

    def list_slice(self, base, sl, state, line):
        _, lo, hi, step = sl
        n = base.len_term()
        stepc = 1 if step is None else as_conc(step)
        if stepc not in (1, -1):
            raise Unsupported('slice step at line %d' % line)

        def clamp(v, default):
            if v is None:
                return default
            v = zi(v)
            v = z3.If(v < 0, v + n, v)
            return z3.If(v < 0, z3.IntVal(0), z3.If(v > n, n, v))
        if stepc == 1:
            a, b = clamp(lo, z3.IntVal(0)), clamp(hi, n)
            length = z3.simplify(z3.If(b > a, b - a, z3.IntVal(0)))
            base.to_fn() if base.items is not None and as_conc(length) is None else None
            ca, cl = as_conc(z3.simplify(a)), as_conc(length)
            if base.items is not None and ca is not None and cl is not None:
                return SList(state.alloc(), None, items=base.items[ca:ca + cl], kind=base.kind)
            src = base.snapshot()
            src.to_fn()
            f = src.fn
            res = SList(state.alloc(), length, fn=lambda j, f=f, a=a: f(a + j), kind=base.kind)
            so = getattr(base, 'slice_of', None)
            if so is not None:
                # a slice of a slice is a slice of the root list (products over it are products of the root list)
                res.slice_of = (so[0], z3.simplify(so[1] + a), z3.simplify(so[1] + a + length))
            else:
                res.slice_of = (src, a, z3.simplify(a + length))
            sp = getattr(base, 'split_points', None)
            if sp is not None:
                sp.extend([a, z3.simplify(a + length)])
            return res
        # reversed full/partial slice  x[a:b:-1] : only the idiom  x[...][::-1] (lo, hi None)
        if lo is not None or hi is not None:
            raise Unsupported('reverse slice with bounds at line %d' % line)
        if base.items is not None:
            return SList(state.alloc(), None, items=base.items[::-1], kind=base.kind)
        f = base.fn
        return SList(state.alloc(), base.length, fn=lambda j, f=f, n=n: f(n - 1 - j), kind=base.kind)

    def ex_UnaryOp(self, node, state):
        v = self.ev(node.operand, state)
        if isinstance(node.op, ast.Not):
            t = self.truth(v, state)
            return (not t) if isinstance(t, bool) else z3.Not(t)
        if isinstance(node.op, ast.USub):
            if is_conc_int(v) or isinstance(v, z3.ArithRef):
                return -v
            if isinstance(v, SNum):
                return SNum('neg', nonzero=v.nonzero, cplx=v.cplx)
            if isinstance(v, SArr):
                return npmodel.elementwise(self, state, [v], node.lineno)
        raise Unsupported('unary op at line %d' % node.lineno)

    def ex_BoolOp(self, node, state):
        vals = []
        is_and = isinstance(node.op, ast.And)
        for v in node.values:
            t = self.truth(self.ev(v, state), state)
            if isinstance(t, bool) and t != is_and:
                return t            # short circuit on a concrete operand: the remaining operands are not evaluated (Python semantics)
            vals.append(t)          # symbolic operands: all are evaluated (they are pure in the verified subset)
        if all(isinstance(v, bool) for v in vals):
            return all(vals) if isinstance(node.op, ast.And) else any(vals)
        vals = [zb(v) for v in vals]
        return z3.And(*vals) if isinstance(node.op, ast.And) else z3.Or(*vals)

    def ex_IfExp(self, node, state):
        c = self.truth(self.ev(node.test, state), state)
        if isinstance(c, bool):
            return self.ev(node.body if c else node.orelse, state)
        a, b = self.ev(node.body, state), self.ev(node.orelse, state)
        return val_ite(c, a, b)

    def ex_Compare(self, node, state):
        if len(node.ops) != 1:
            # chained comparison  a <= b < c
            left = node.left
            res = []
            for op, right in zip(node.ops, node.comparators):
                res.append(self.compare(op, self.ev(left, state), self.ev(right, state), state, node.lineno))
                left = right
            if all(isinstance(r, bool) for r in res):
                return all(res)
            return z3.And(*[zb(r) for r in res])
        return self.compare(node.ops[0], self.ev(node.left, state), self.ev(node.comparators[0], state), state, node.lineno)

    def compare(self, op, a, b, state, line):
        if isinstance(op, (ast.Is, ast.IsNot)):
            neg = isinstance(op, ast.IsNot)
            if isinstance(b, SNone) or isinstance(a, SNone):
                other = a if isinstance(b, SNone) else b
                if isinstance(other, SOpt):
                    r = z3.Not(other.defined)
                else:
                    r = isinstance(other, SNone)
            elif isinstance(a, bool) and isinstance(b, bool):
                r = a == b
            elif isinstance(a, z3.BoolRef) or isinstance(b, z3.BoolRef):
                r = zb(a) == zb(b)
            elif isinstance(a, (SList, STT)) and isinstance(b, (SList, STT)):
                r = a is b
            else:
                raise Unsupported('`is` on %s, %s at line %d' % (type(a).__name__, type(b).__name__, line))
            return (not r) if (neg and isinstance(r, bool)) else (z3.Not(r) if neg else r)
        if isinstance(op, (ast.Eq, ast.NotEq)):
            neg = isinstance(op, ast.NotEq)
            r = self.equal(a, b, state, line)
            return (not r) if (neg and isinstance(r, bool)) else (z3.Not(r) if neg else r)
        if isinstance(op, (ast.Lt, ast.LtE, ast.Gt, ast.GtE)):
            if isinstance(a, SArr) or isinstance(b, SArr):
                arr = a if isinstance(a, SArr) else b
                res = npmodel.new_arr(state, arr.shape, False, kind='bool')
                # (descending non-negative vector / its first entry) > threshold : the true entries form a prefix
                if isinstance(a, SArr) and getattr(a, 'descending_nonneg', False) and isinstance(op, (ast.Gt, ast.GtE)) and isinstance(b, SNum):
                    res.prefix_mask = True
                return res
            if isinstance(a, SNum) or isinstance(b, SNum):
                # only  threshold >= 0  style tests occur
                num, other = (a, b) if isinstance(a, SNum) else (b, a)
                if is_conc_int(other) and other == 0 and isinstance(op, ast.GtE) and num is a:
                    return num.nonneg
                return fresh('cmp', 'bool')
            if isinstance(a, SMaxRank) or isinstance(b, SMaxRank):
                mr, other, flip = (a, b, False) if isinstance(a, SMaxRank) else (b, a, True)
                o = zi(other)
                f = {ast.Lt: lambda x, y: x < y, ast.LtE: lambda x, y: x <= y, ast.Gt: lambda x, y: x > y, ast.GtE: lambda x, y: x >= y}[type(op)]
                fin = f(o, mr.val) if flip else f(mr.val, o)
                inf_res = isinstance(op, (ast.Lt, ast.LtE)) if flip else isinstance(op, (ast.Gt, ast.GtE))
                return z3.If(mr.is_inf, z3.BoolVal(inf_res), fin)
            if isinstance(a, SInf) or isinstance(b, SInf):
                raise Unsupported('ordering with inf at line %d' % line)
            a, b = zi(a), zi(b)
            r = {ast.Lt: a < b, ast.LtE: a <= b, ast.Gt: a > b, ast.GtE: a >= b}[type(op)]
            return r
        raise Unsupported('comparison %s at line %d' % (type(op).__name__, line))

    def equal(self, a, b, state, line):
        if isinstance(a, str) or isinstance(b, str):
            if isinstance(a, str) and isinstance(b, str):
                return a == b
            if is_tag(a, 'dtype') or is_tag(b, 'dtype'):
                d, s = (a, b) if isinstance(a, tuple) else (b, a)
                if s == 'complex':
                    return d[1].cplx
            return False
        if isinstance(a, (SInf,)) or isinstance(b, (SInf,)):
            other = b if isinstance(a, SInf) else a
            if isinstance(other, SInf):
                return True
            if isinstance(other, SMaxRank):
                return other.is_inf
            if is_conc_int(other) or isinstance(other, z3.ArithRef):
                return False
            if isinstance(other, (SList, STT, SNone)):
                return False            # a list / object never equals a number
            raise Unsupported('== inf on %s at line %d' % (type(other).__name__, line))
        if isinstance(a, SNum) or isinstance(b, SNum):
            num, other = (a, b) if isinstance(a, SNum) else (b, a)
            if is_conc_int(other) and other == 0:
                return z3.Not(num.nonzero)
            return fresh('eq', 'bool')
        if isinstance(a, SMaxRank) or isinstance(b, SMaxRank):
            mr, other = (a, b) if isinstance(a, SMaxRank) else (b, a)
            return z3.And(z3.Not(mr.is_inf), mr.val == zi(other))
        if isinstance(a, SList) and isinstance(b, SList):
            a2, b2 = a.snapshot(), b.snapshot()
            a2.to_fn(), b2.to_fn()
            la, lb = zi(a2.length), zi(b2.length)
            sa, sb_ = getattr(a, 'slice_of', None), getattr(b, 'slice_of', None)
            if sa is not None and sb_ is not None:
                # slices of two lists: quantify over the absolute index of the first base list, so that the solver can
                # instantiate the equality by matching on base(t) (arithmetic inside a pattern would block E-matching)
                (ba, a0, a1), (bb, b0, b1) = sa, sb_
                return z3.And(la == lb, FA(a0, a0 + la, lambda t: self.equal(ba.fn(t), bb.fn(t - a0 + b0), state, line), name='t'))
            return z3.And(la == lb, FA(0, la, lambda j: self.equal(a2.fn(j), b2.fn(j), state, line)))
        if isinstance(a, SNone) or isinstance(b, SNone):
            other = b if isinstance(a, SNone) else a
            if isinstance(other, SOpt):
                return z3.Not(other.defined)
            return isinstance(a, SNone) and isinstance(b, SNone)
        if isinstance(a, bool) and isinstance(b, bool):
            return a == b
        if isinstance(a, (bool, z3.BoolRef)) and isinstance(b, (bool, z3.BoolRef)):
            return zb(a) == zb(b)
        if (is_conc_int(a) or isinstance(a, z3.ArithRef)) and (is_conc_int(b) or isinstance(b, z3.ArithRef)):
            if is_conc_int(a) and is_conc_int(b):
                return a == b
            return zi(a) == zi(b)
        raise Unsupported('== on %s, %s at line %d' % (type(a).__name__, type(b).__name__, line))

    def ex_BinOp(self, node, state):
        a, b = self.ev(node.left, state), self.ev(node.right, state)
        return self.binop(node.op, a, b, state, node.lineno)

    def binop(self, op, a, b, state, line):
        ints = lambda x: is_conc_int(x) or isinstance(x, z3.ArithRef)  # noqa
        if isinstance(a, SOpt) or isinstance(b, SOpt):
            # arithmetic on an element of a list created as [None] * n: the element must have been set
            for x in (a, b):
                if isinstance(x, SOpt):
                    self.ctx.oblige(state, 'not-None', line, x.defined, 'arithmetic on an Optional value')
            a = a.val if isinstance(a, SOpt) else a
            b = b.val if isinstance(b, SOpt) else b
        if ints(a) and ints(b):
            if isinstance(op, ast.Add):
                return a + b
            if isinstance(op, ast.Sub):
                return a - b
            if isinstance(op, ast.Mult):
                return a * b
            if isinstance(op, ast.FloorDiv):
                if is_conc_int(a) and is_conc_int(b):
                    return a // b
                self.ctx.oblige(state, 'division-by-zero', line, zi(b) != 0)
                q = zi(a) / zi(b)          # z3 integer division is floor for positive divisors
                self.ctx.oblige(state, 'floor-division-positive-divisor', line, zi(b) > 0)
                return q
            if isinstance(op, ast.Mod):
                if is_conc_int(a) and is_conc_int(b):
                    return a % b
                self.ctx.oblige(state, 'floor-division-positive-divisor', line, zi(b) > 0)
                return zi(a) % zi(b)
            if isinstance(op, ast.Div):
                return SNum('quot')
            if isinstance(op, ast.Pow):
                if is_conc_int(a) and is_conc_int(b):
                    return a ** b
                return SNum('pow')
        if isinstance(a, SList) and isinstance(b, SList) and isinstance(op, ast.Add):
            return self.list_concat(a, b, state)
        if isinstance(op, ast.Mult) and ((isinstance(a, SList) and ints(b)) or (isinstance(b, SList) and ints(a))):
            lst, n = (a, b) if isinstance(a, SList) else (b, a)
            return self.list_repeat(lst, n, state, line)
        if isinstance(b, STT) and isinstance(a, SArr) and len(a.shape) == 0 and isinstance(op, ast.Mult):
            # a NumPy scalar (element of an array) times a TT: numpy returns NotImplemented, Python calls TT.__rmul__
            return self.tt_binop(op, SNum('elem', cplx=a.cplx), b, state, line)
        if isinstance(a, SArr) or isinstance(b, SArr):
            if isinstance(op, ast.MatMult):
                return npmodel.matmul(self, state, a, b, line)
            return npmodel.elementwise(self, state, [a, b], line)
        if isinstance(a, STT) or isinstance(b, STT):
            return self.tt_binop(op, a, b, state, line)
        if (isinstance(a, (SNum, SInf)) or isinstance(b, (SNum, SInf))) and not isinstance(a, SArr) and not isinstance(b, SArr):
            cx = z3.Or(a.cplx if isinstance(a, SNum) else z3.BoolVal(False), b.cplx if isinstance(b, SNum) else z3.BoolVal(False))
            return SNum('arith', cplx=cx)
        if isinstance(a, STT) or isinstance(b, STT):
            return self.tt_binop(op, a, b, state, line)
        if isinstance(a, str) or isinstance(b, str):
            return 'str'
        raise Unsupported('binary op %s on %s, %s at line %d' % (type(op).__name__, type(a).__name__, type(b).__name__, line))

    def list_concat(self, a, b, state):
        if a.items is not None and b.items is not None:
            return SList(state.alloc(), None, items=a.items + b.items, kind=a.kind if a.kind == b.kind else 'any')
        a2, b2 = a.snapshot(), b.snapshot()
        a2.to_fn(), b2.to_fn()
        la, lb = zi(a2.length), zi(b2.length)
        fa, fb = a2.fn, b2.fn
        kind = a.kind if a.kind != 'any' else b.kind
        if 'arr5' in (a.kind, b.kind):
            # cores with five shape slots (a possible 5-d block core) next to ordinary 4-d cores: one representation
            from vt.e1.values import widen5
            fa0, fb0 = fa, fb
            fa = lambda j: widen5(fa0(j)) if isinstance(fa0(j), SArr) else fa0(j)     # noqa
            fb = lambda j: widen5(fb0(j)) if isinstance(fb0(j), SArr) else fb0(j)     # noqa
            kind = 'arr5'
        return SList(state.alloc(), z3.simplify(la + lb), fn=lambda j: val_ite(j < la, fa(j), fb(j - la)), kind=kind)

    def list_repeat(self, lst, n, state, line):
        if lst.items is None or len(lst.items) != 1:
            src = lst.snapshot()
            if src.items is not None and not src.items:
                return SList(state.alloc(), None, items=[])
            src.to_fn()
            f, L = src.fn, zi(src.length)
            nn = z3.If(zi(n) > 0, zi(n), z3.IntVal(0))
            return SList(state.alloc(), z3.simplify(L * nn), fn=lambda j, f=f, L=L: f(j % z3.If(L > 0, L, z3.IntVal(1))), kind=lst.kind)
        x = lst.items[0]
        c = as_conc(n)
        if c is not None and c <= 16:
            return SList(state.alloc(), None, items=[x] * c)
        self.ctx.oblige(state, 'nonneg-length', line, zi(n) >= 0) if False else None
        kind = 'int' if is_conc_int(x) or isinstance(x, z3.ArithRef) else 'any'
        return SList(state.alloc(), z3.If(zi(n) > 0, zi(n), z3.IntVal(0)), fn=lambda j, x=x: x, kind=kind)

    def ex_ListComp(self, node, state):
        if len(node.generators) == 2 and not any(g.ifs for g in node.generators):
            # [e for i in range(n) for j in range(c)]: only the length is tracked (an opaque list of integers)
            ns = []
            for g in node.generators:
                if not (isinstance(g.iter, ast.Call) and isinstance(g.iter.func, ast.Name) and g.iter.func.id == 'range' and len(g.iter.args) == 1):
                    raise Unsupported('nested comprehension at line %d' % node.lineno)
                ns.append(zi(self.ev(g.iter.args[0], state)))
            length = z3.If(z3.And(ns[0] > 0, ns[1] > 0), ns[0] * ns[1], z3.IntVal(0))
            v0, v1 = node.generators[0].target, node.generators[1].target
            if not (isinstance(v0, ast.Name) and isinstance(v1, ast.Name)):
                raise Unsupported('comprehension target at line %d' % node.lineno)
            I, J = fresh(v0.id), fresh(v1.id)
            sub = state.clone()
            sub.env[v0.id], sub.env[v1.id] = I, J
            sub.assume(z3.And(I >= 0, I < ns[0], J >= 0, J < ns[1]))
            T = self.ev(node.elt, sub)
            if not (is_conc_int(T) or isinstance(T, z3.ArithRef)):
                raise Unsupported('nested comprehension of non-integers at line %d' % node.lineno)
            T, c = zi(T), ns[1]
            # element number q belongs to the outer index q // c and the inner index q % c
            return SList(state.alloc(), z3.simplify(length), kind='int',
                         fn=lambda q, T=T, I=I, J=J, c=c: z3.substitute(T, (I, zi(q) / c), (J, zi(q) % c)))
        if len(node.generators) != 1 or node.generators[0].ifs:
            raise Unsupported('nested/filtered comprehension at line %d' % node.lineno)
        g = node.generators[0]
        if not isinstance(g.target, ast.Name):
            raise Unsupported('comprehension target at line %d' % node.lineno)
        var = g.target.id
        elem_of = None
        if isinstance(g.iter, ast.Call) and isinstance(g.iter.func, ast.Name) and g.iter.func.id == 'range':
            args = [self.ev(a, state) for a in g.iter.args]
            lo, hi = (0, args[0]) if len(args) == 1 else (args[0], args[1])
            if len(args) == 3:
                raise Unsupported('comprehension with step at line %d' % node.lineno)
        else:
            src = self.ev(g.iter, state)
            if not isinstance(src, SList):
                raise Unsupported('comprehension over %s at line %d' % (ast.unparse(g.iter), node.lineno))
            src = src.snapshot()
            lo, hi = 0, src.length
            elem_of = src
        lo, hi = zi(lo), zi(hi)
        n = z3.simplify(z3.If(hi > lo, hi - lo, z3.IntVal(0)))
        cn = as_conc(n)
        if cn is not None and cn <= 8:
            items = []
            saved = state.env.get(var)
            for k in range(cn):
                ik = as_conc(z3.simplify(lo + k)) if as_conc(z3.simplify(lo + k)) is not None else lo + k
                state.env[var] = ik if elem_of is None else elem_of.get(ik)
                items.append(self.ev(node.elt, state))
            if saved is not None:
                state.env[var] = saved
            return SList(state.alloc(), None, items=items)
        if (isinstance(node.elt, ast.Call) and isinstance(node.elt.func, ast.Attribute) and node.elt.func.attr == 'copy' and not node.elt.args
                and not node.elt.keywords and var not in {x.id for x in ast.walk(node.elt) if isinstance(x, ast.Name)}):
            recv = self.ev(node.elt.func.value, state)
            if isinstance(recv, STT):
                return self.tt_copies(recv, n, state, node.lineno)
        # symbolic length: map semantics.  The element expression is evaluated once for a generic index j under the
        # assumption lo <= j < hi; its obligations are thereby proved for every element.  Buffers allocated while
        # evaluating the element are numbered  base + (j - lo) * width + offset  (width = allocations per element).
        j = fresh(var)
        sub = state.clone()
        sub.assume(z3.And(lo <= j, j < hi))
        if elem_of is not None:
            elem_of.to_fn()
            sub.env[var] = elem_of.fn(j)
        else:
            sub.env[var] = j
        m0 = fresh('cm')
        sub.mark = m0
        val = self.ev(node.elt, sub)
        width = as_conc(z3.simplify(sub.mark - m0))
        if width is None:
            raise Unsupported('comprehension element with a non-constant number of allocations at line %d' % node.lineno)
        base = state.mark
        state.mark = z3.simplify(state.mark + n * width)
        lref = state.alloc()

        def fn(idx, val=val, j=j, m0=m0, base=base, width=width, lo=lo):
            sub_ = [(j, lo + idx), (m0, base + idx * width)]
            return subst_value(val, sub_)
        kind = 'arr' if isinstance(val, SArr) else 'int' if (is_conc_int(val) or isinstance(val, z3.ArithRef)) else 'bool' if isinstance(val, (bool, z3.BoolRef)) else 'any'
        return SList(lref, n, fn=fn, kind=kind)

    def tt_copies(self, recv, n, state, line):
        """[t.copy() for _ in range(n)] with symbolic n: a list of n mutable tensor trains.  The call is checked once against
        the contract of TT.copy (its preconditions do not depend on the slot); every element satisfies the post-condition of
        that contract, and the elements are distinct objects (allocation model: each call allocates fresh ids)."""
        from vt.e1 import calls
        from vt.e1.contract import SpecView, snapshot, valid
        c = self.ctx.registry.get('TT.copy')
        if c is None:
            raise Unsupported('no contract for TT.copy (line %d)' % line)
        calls.call_contract(self, state.clone(), 'TT.copy', [recv], {}, line)
        A = c.bind([recv], {})
        S = SpecView(A, {k: snapshot(v) for k, v in A.items()}, state.mark, c.call_inst(A), state)
        S.at_call = True
        lst = SList(state.alloc(), n, fn=sym_elem_fn('tt', state), kind='tt')
        m_new = fresh('cm')
        state.assume(m_new >= state.mark)

        def body(j):
            e = lst.fn(j)
            below = z3.And(*[zi(r) < m_new for r in (e.ref, e.row_dims.ref, e.col_dims.ref, e.ranks.ref, e.cores.ref)],
                           FA(0, zi(e.order), lambda q: e.cores.fn(q).buf < m_new))
            return z3.And(*[zb(g) for _, g in c.ensures(S, e)], valid(e), below)
        state.assume(FA(0, n, body))
        state.mark = m_new
        return lst

    def ex_Call(self, node, state):
        from vt.e1 import calls
        return calls.call(self, node, state)

    def ex_JoinedStr(self, node, state):
        return 'str'

    def ex_Lambda(self, node, state):
        raise Unsupported('lambda at line %d' % node.lineno)

    def tt_binop(self, op, a, b, state, line):
        from vt.e1 import calls
        name = {ast.Add: '__add__', ast.Sub: '__sub__', ast.Mult: '__mul__', ast.MatMult: '__matmul__'}.get(type(op))
        if name is None:
            raise Unsupported('operator on TT at line %d' % line)
        if isinstance(a, STT):
            return calls.call_contract(self, state, 'TT.' + name, [a, b], {}, line)
        if name == '__mul__':
            return calls.call_contract(self, state, 'TT.__rmul__', [b, a], {}, line)
        raise Unsupported('reflected operator on TT at line %d' % line)


def _load(t):
    t2 = copy.deepcopy(t)
    for n in ast.walk(t2):
        if hasattr(n, 'ctx'):
            n.ctx = ast.Load()
    return t2


def subst_value(v, pairs):
    if isinstance(v, z3.ExprRef):
        return z3.substitute(v, *[(a, zi(b)) for a, b in pairs])
    if isinstance(v, SArr):
        f = lambda t: z3.substitute(t, *[(a, zi(b)) for a, b in pairs])  # noqa
        return SArr([f(s) for s in v.shape], f(v.cplx), f(v.buf), f(v.contig), v.ndim if is_conc_int(v.ndim) else f(v.ndim),
                    {k: f(x) for k, x in v.flags.items()}, v.kind, f(v.own))
    return v


def sym_elem_fn(kind, state):
    """fresh uninterpreted element function for a havoced / parameter list"""
    if kind in ('int', 'ttref'):
        f = fresh_fun('li', z3.IntSort(), z3.IntSort())
        return lambda j, f=f: f(j)
    if kind == 'bool':
        f = fresh_fun('lb', z3.IntSort(), z3.BoolSort())
        return lambda j, f=f: f(j)
    if kind == 'maxrank':
        fi, fv = fresh_fun('mri', z3.IntSort(), z3.BoolSort()), fresh_fun('mrv', z3.IntSort(), z3.IntSort())
        return lambda j: SMaxRank('ite', fi(j), fv(j))
    if kind == 'num':
        fz, fn_ = fresh_fun('lnz', z3.IntSort(), z3.BoolSort()), fresh_fun('lge0', z3.IntSort(), z3.BoolSort())
        return lambda j: SNum('elem', nonzero=fz(j), nonneg=fn_(j))
    if kind == 'arr':
        fs = [fresh_fun('sh%d' % k, z3.IntSort(), z3.IntSort()) for k in range(4)]
        fnd = fresh_fun('nd', z3.IntSort(), z3.IntSort())
        fc = fresh_fun('cx', z3.IntSort(), z3.BoolSort())
        fb = fresh_fun('buf', z3.IntSort(), z3.IntSort())
        fk = fresh_fun('ct', z3.IntSort(), z3.BoolSort())
        fo = fresh_fun('own', z3.IntSort(), z3.BoolSort())
        ff = {n: fresh_fun(n, z3.IntSort(), z3.BoolSort()) for n in SArr.FLAGS}
        return lambda j: SArr([f(j) for f in fs], fc(j), fb(j), fk(j), ndim=fnd(j), flags={n: g(j) for n, g in ff.items()}, own=fo(j))
    if kind == 'arr5':
        fs = [fresh_fun('bsh%d' % k, z3.IntSort(), z3.IntSort()) for k in range(5)]
        fnd = fresh_fun('bnd', z3.IntSort(), z3.IntSort())
        fc = fresh_fun('bcx', z3.IntSort(), z3.BoolSort())
        fb = fresh_fun('bbuf', z3.IntSort(), z3.IntSort())
        fk = fresh_fun('bct', z3.IntSort(), z3.BoolSort())
        ff = {n: fresh_fun('b' + n, z3.IntSort(), z3.BoolSort()) for n in SArr.FLAGS}
        return lambda j: SArr([f(j) for f in fs], fc(j), fb(j), fk(j), ndim=fnd(j), flags={n: g(j) for n, g in ff.items()})
    if kind == 'tt':
        # a list of *mutable, pairwise distinct* tensor trains (one fresh object per slot - allocation model): element j is
        # described by uninterpreted functions of j (ids, order) and of (j, q) (metadata entries, cores)
        I, B = z3.IntSort(), z3.BoolSort()
        f1 = {n: fresh_fun('t' + n, I, I) for n in ('ref', 'order', 'rdref', 'cdref', 'rkref', 'cref')}
        f2 = {n: fresh_fun('t' + n, I, I, I) for n in ('rd', 'cd', 'rk', 'sh0', 'sh1', 'sh2', 'sh3', 'nd', 'buf')}
        b2 = {n: fresh_fun('t' + n, I, I, B) for n in ('cx', 'ct', 'own') + tuple(SArr.FLAGS)}

        def elem(j):
            j = zi(j)
            d = f1['order'](j)
            mk = lambda nm, ref, n: SList(f1[ref](j), n, fn=lambda q, nm=nm: f2[nm](j, zi(q)), kind='int')      # noqa
            cores = SList(f1['cref'](j), d, kind='arr', fn=lambda q: SArr(
                [f2['sh%d' % k](j, zi(q)) for k in range(4)], b2['cx'](j, zi(q)), f2['buf'](j, zi(q)), b2['ct'](j, zi(q)), ndim=f2['nd'](j, zi(q)),
                flags={n: b2[n](j, zi(q)) for n in SArr.FLAGS}, own=b2['own'](j, zi(q))))
            return STT(f1['ref'](j), d, mk('rd', 'rdref', d), mk('cd', 'cdref', d), mk('rk', 'rkref', d + 1), cores)
        return elem
    if kind.startswith('optarr'):
        nd = int(kind[6:])
        fs = [fresh_fun('osh%d' % k, z3.IntSort(), z3.IntSort()) for k in range(nd)]
        fd = fresh_fun('def', z3.IntSort(), z3.BoolSort())
        fc = fresh_fun('ocx', z3.IntSort(), z3.BoolSort())
        fb = fresh_fun('obuf', z3.IntSort(), z3.IntSort())
        return lambda j: SOpt(fd(j), SArr([f(j) for f in fs], fc(j), fb(j), True))
    raise Unsupported('element kind %s' % kind)


def _with_entry(V, entry):
    V.entry = entry
    return V


class View:
    """what invariants and contract clauses see of a state (entry: values at the entry of the loop being verified)"""

    def __init__(self, state, ex):
        self.state, self.ex = state, ex

    def __getitem__(self, name):
        v = self.state.env[name]
        if isinstance(v, tuple) and len(v) == 3 and v[0] == 'maybe-unbound':
            return v[2]
        return v

    def has(self, name):
        return name in self.state.env

    def get(self, name, default=None):
        return self.state.env.get(name, default)

    def working_tt(self, preferred, params=('self',)):
        """the local tensor train a method works on (`tt_conj`, `tdot`, ...): looked up by its usual name first and,
        if that local was renamed, as the unique TT-valued local that is not bound to a parameter name"""
        env = self.state.env
        if isinstance(env.get(preferred), STT):
            return env[preferred]
        cands = {id(v): v for k, v in env.items() if isinstance(v, STT) and k not in params}
        if len(cands) == 1:
            return list(cands.values())[0]
        raise Unsupported('cannot identify the working tensor train of the loop (expected local `%s`)' % preferred)

    def old(self, name):
        return self.state.old[name]

    @property
    def mark0(self):
        return self.state.ctx.mark0
