"""NumPy / SciPy contract table of E1 (the trusted base A-numpy; differential-tested in vt/e1/nptest.py).

Per operation: preconditions (obligations at every call), result shape, complex-ness, aliasing (view of the same buffer /
fresh buffer / unknown = free Boolean), C-contiguity, ghost flags, may-write set.
"""
import z3
from vt.e1.values import is_tag
from vt.e1.values import (SArr, SList, SNum, SNone, NONE, SOpt, SMaxRank, SInf, Unsupported, fresh, zi, zb, as_conc, is_conc_int)


def prod(terms):
    r = z3.IntVal(1)
    for t in terms:
        r = r * zi(t)
    return z3.simplify(r)


def new_arr(state, shape, cplx=False, kind='float', flags=None):
    a = SArr(shape, cplx, state.alloc(), True, flags=flags, kind=kind, own=True)
    return a


def _clamp_slice(lo, hi, n):
    def norm(v, default):
        if v is None:
            return default
        if isinstance(v, SMaxRank):
            raise Unsupported('max-rank value as slice bound')
        v = zi(v)
        c = as_conc(v)
        if c is not None and c >= 0:
            return z3.If(n < c, n, z3.IntVal(c))
        v = z3.If(v < 0, v + n, v)
        return z3.If(v < 0, z3.IntVal(0), z3.If(v > n, n, v))
    a, b = norm(lo, z3.IntVal(0)), norm(hi, n)
    return a, z3.simplify(z3.If(b > a, b - a, z3.IntVal(0)))


def need_rank(ex, state, arr, line, want=4):
    """an array taken from a list has a symbolic rank: using it as an n-d array needs rank == number of tracked dims"""
    if isinstance(arr, SOpt):
        ex.ctx.oblige(state, 'not-None', line, arr.defined, 'environment / stack entry used before it is set')
        arr = arr.val
    if isinstance(arr, SNone):
        ex.ctx.oblige(state, 'not-None', line, False, 'None used as an array')
        raise Unsupported('None used as an array at line %d' % line)
    if isinstance(arr, SArr) and not is_conc_int(arr.ndim):
        if len(arr.shape) == 5:
            # element of a core list that may hold a 5-d block core: the use decides which rank is meant
            ex.ctx.oblige(state, 'array-rank', line, zi(arr.ndim) == want, 'array rank is not %d' % want)
            return arr.with_(shape=list(arr.shape[:want]), ndim=want)
        ex.ctx.oblige(state, 'array-rank', line, zi(arr.ndim) == len(arr.shape), 'array rank is not %d' % len(arr.shape))
        return arr.with_(ndim=len(arr.shape))
    return arr


def getitem(ex, state, arr, idx, line, for_store=False):
    res = _getitem(ex, state, arr, idx, line, for_store)
    ro = roles_of(arr) if isinstance(arr, SArr) else None
    if ro is not None and isinstance(res, SArr):
        items = idx if (isinstance(idx, tuple) and not is_tag(idx, 'slice')) else (idx,)
        if len(arr.shape) == 5 and not is_conc_int(arr.ndim):
            ro = ro[:5 if sum(1 for i_ in items if not isinstance(i_, SNone)) == 5 else 4]      # a five-slot core used as a 4-d / 5-d array
        out, ax, ok = [], 0, True
        for it in items:
            if isinstance(it, SNone):
                out.append('1')
                continue
            if ax >= len(ro):
                ok = False
                break
            if is_tag(it, 'slice'):
                out.append(ro[ax])
            elif isinstance(it, (SArr, SList)):
                ok = False
                break
            elif isinstance(it, z3.ExprRef):
                from vt.e1.values import note_index_use
                note_index_use(it, ro[ax])
            ax += 1
        if ok:
            out += list(ro[ax:])
            set_roles(res, out)
    return res


def _getitem(ex, state, arr, idx, line, for_store=False):
    """basic + advanced indexing.  Returns the selected sub-array (a view for basic indexing, a fresh array otherwise)."""
    if not isinstance(idx, tuple) or (is_tag(idx, 'slice')):
        idx = (idx,)
    n_real = sum(1 for i in idx if not isinstance(i, SNone))
    arr = need_rank(ex, state, arr, line, want=5 if n_real == 5 else 4)
    if n_real > len(arr.shape):
        ex.ctx.oblige(state, 'index-rank', line, False, 'too many indices')
        raise Unsupported('too many indices at line %d' % line)
    out = []          # result dims in order
    adv = []          # (position in out, shape list) of advanced indices
    ax = 0
    full_view = True
    keeps = {'rows': True, 'cols': True}     # whether the selection is a prefix along an axis / untouched
    axis_sel = {}
    for it in idx:
        if isinstance(it, SNone):
            out.append(z3.IntVal(1))
            continue
        n = arr.shape[ax]
        if is_tag(it, 'slice'):
            _, lo, hi, step = it
            if step is not None:
                if as_conc(step) == -1 and lo is None and hi is None:
                    # a[::-1]: the whole axis reversed (a view of the same length; not a prefix, not contiguous)
                    out.append(n)
                    axis_sel[ax] = ('slice', z3.IntVal(0), n)
                    full_view = False
                    ax += 1
                    continue
                raise Unsupported('strided array slice at line %d' % line)
            if isinstance(lo, SMaxRank) or isinstance(hi, SMaxRank):
                for b_ in (lo, hi):
                    if isinstance(b_, SMaxRank):
                        ex.ctx.oblige(state, 'slice-bound-is-an-integer', line, z3.Not(b_.is_inf), 'slice indices must be integers (got inf)')
                lo = lo.val if isinstance(lo, SMaxRank) else lo
                hi = hi.val if isinstance(hi, SMaxRank) else hi
            a, ln = _clamp_slice(lo, hi, n)
            if lo is None and hi is None:
                a, ln = z3.IntVal(0), n
            elif lo is None:
                a = z3.IntVal(0)
            out.append(ln)
            axis_sel[ax] = ('slice', a, ln)
            if lo is not None or hi is not None:
                full_view = False
        elif isinstance(it, SArr):
            if it.kind != 'int':
                raise Unsupported('non-integer index array at line %d' % line)
            ub = getattr(it, 'ubound', None)
            if ub is None:
                raise Unsupported('index array without a known bound at line %d' % line)
            ex.ctx.oblige(state, 'index-in-range', line, zi(ub) <= n, 'index array values < axis length')
            adv.append((len(out), list(it.shape), ax))
            out.append(('adv', len(adv) - 1))
            axis_sel[ax] = ('adv', it)
            full_view = False
        else:
            if isinstance(it, (SList,)):
                raise Unsupported('list index at line %d' % line)
            i = zi(it)
            ex.ctx.oblige(state, 'index-in-range', line, z3.And(-n <= i, i < n), 'array index')
            axis_sel[ax] = ('int', i)
            full_view = False
        ax += 1
    for k in range(ax, len(arr.shape)):
        out.append(arr.shape[k])
    flags = {}
    if adv:
        # broadcast the advanced index shapes together
        bshape = []
        for _, sh, _ in adv:
            bshape = _broadcast(ex, state, bshape, sh, line)
        positions = [p for p, _, _ in adv]
        adjacent = positions == list(range(positions[0], positions[0] + len(positions))) and all(
            not isinstance(o, tuple) or True for o in out)
        rest = [o for o in out if not (is_tag(o, 'adv'))]
        # numpy: adjacent advanced indices -> broadcast dims replace them in place; separated -> broadcast dims first
        sep = False
        real_positions = [p for p in positions]
        # determine separation by checking whether a slice/newaxis lies between the first and last advanced index
        for k in range(positions[0], positions[-1] + 1):
            if not (isinstance(out[k], tuple) and out[k] and out[k][0] == 'adv'):
                sep = True
        if sep:
            shape = list(bshape) + rest
        else:
            shape = [o for o in out[:positions[0]]] + list(bshape) + [o for o in out[positions[-1] + 1:]]
        res = new_arr(state, shape, arr.cplx, arr.kind)
        if getattr(arr, 'descending_nonneg', False) and len(arr.shape) == 1 and len(adv) == 1 and getattr(axis_sel[adv[0][2]][1], 'is_prefix', False):
            res.descending_nonneg = True
        # ghost flags: selecting a prefix of the columns (rows) of a matrix with orthonormal columns (rows)
        if len(arr.shape) == 2 and len(adv) == 1:
            sel_ax = adv[0][2]
            it = axis_sel[sel_ax][1]
            if getattr(it, 'is_prefix', False):
                other = axis_sel.get(1 - sel_ax)
                untouched = other is None or (other[0] == 'slice' and _is_full(other, arr.shape[1 - sel_ax]))
                if untouched:
                    if sel_ax == 1:
                        res.flags['isocols'] = arr.flags['isocols']
                    else:
                        res.flags['isorows'] = arr.flags['isorows']
        return res
    shape = out
    contig = arr.contig if full_view else z3.BoolVal(False)
    res = SArr(shape, arr.cplx, arr.buf, contig, kind=arr.kind, own=False)
    if getattr(arr, 'descending_nonneg', False) and len(shape) == 1:
        res.descending_nonneg = True
    if getattr(arr, 'ubound', None) is not None:
        res.ubound = arr.ubound
        res.is_prefix = getattr(arr, 'is_prefix', False)
    if len(arr.shape) == 2 and len(shape) == 2:
        r, c = axis_sel.get(0), axis_sel.get(1)
        if r and r[0] == 'slice' and c and c[0] == 'slice':
            if _is_full(r, arr.shape[0]) and _starts_at_zero(c):
                res.flags['isocols'] = arr.flags['isocols']
            if _is_full(c, arr.shape[1]) and _starts_at_zero(r):
                res.flags['isorows'] = arr.flags['isorows']
        elif r and r[0] == 'slice' and c is None:
            if _starts_at_zero(r):
                res.flags['isorows'] = arr.flags['isorows']
    if full_view:
        res.flags = dict(arr.flags)
    return res


def _is_full(sel, n):
    _, a, ln = sel
    return z3.is_true(z3.simplify(z3.And(a == 0, ln == n)))


def _starts_at_zero(sel):
    return z3.is_true(z3.simplify(sel[1] == 0))


def _broadcast(ex, state, s1, s2, line, oblige=True):
    s1, s2 = list(s1), list(s2)
    while len(s1) < len(s2):
        s1.insert(0, z3.IntVal(1))
    while len(s2) < len(s1):
        s2.insert(0, z3.IntVal(1))
    out = []
    for a, b in zip(s1, s2):
        a, b = zi(a), zi(b)
        if oblige:
            ex.ctx.oblige(state, 'broadcast', line, z3.Or(a == b, a == 1, b == 1), 'operands could not be broadcast together')
        out.append(z3.simplify(z3.If(a == 1, b, a)))
    return out


def oblige_broadcast_into(ex, state, src, dst, line):
    """value of shape src is assigned into a selection of shape dst"""
    src, dst = [zi(s) for s in src], [zi(s) for s in dst]
    # leading dims of src beyond dst must be 1
    while len(src) > len(dst):
        ex.ctx.oblige(state, 'broadcast-into', line, src[0] == 1, 'value has more dimensions than the target selection')
        src = src[1:]
    off = len(dst) - len(src)
    for k, a in enumerate(src):
        b = dst[off + k]
        ex.ctx.oblige(state, 'broadcast-into', line, z3.Or(a == b, a == 1), 'could not broadcast input array into the target shape')


def elementwise(ex, state, operands, line):
    operands = [need_rank(ex, state, o, line) for o in operands]
    arrs = [o for o in operands if isinstance(o, SArr)]
    shape = []
    for a in arrs:
        shape = _broadcast(ex, state, shape, a.shape, line)
    cx = z3.BoolVal(False)
    for o in operands:
        if isinstance(o, (SArr, SNum)):
            cx = z3.Or(cx, o.cplx)
    res = new_arr(state, shape, z3.simplify(cx))
    # ufuncs keep the memory layout of their operands: C-contiguous only if every array operand is (otherwise unknown)
    if arrs:
        allc = z3.simplify(z3.And(*[a.contig for a in arrs]))
        res.contig = allc if z3.is_true(allc) else z3.If(allc, z3.BoolVal(True), fresh('ct', 'bool'))
    # scaling a descending non-negative vector by a positive scalar (s / s[0]) keeps the order
    first = operands[0]
    if isinstance(first, SArr) and getattr(first, 'descending_nonneg', False) and all(
            (isinstance(o, SArr) and len(o.shape) == 0) or isinstance(o, SNum) or isinstance(o, int) for o in operands[1:]):
        res.descending_nonneg = True
    # ghost: a scalar multiple of an array has the legs of the array
    full = [a for a in arrs if len(a.shape) > 0]
    if len(full) == 1 and roles_of(full[0]) is not None and len(full[0].shape) == len(shape):
        set_roles(res, roles_of(full[0]))
    # ghost: a merged micro matrix plus a matrix of the same size keeps its merge order; if the legs of the other summand are
    # known (an outer product of merged vectors) they must be the same legs (the column legs of |t><t| are row legs of <t|)
    with_m = [a for a in arrs if a.__dict__.get('merged_from') is not None]
    if len(with_m) == 1 and all(len(a.shape) == len(with_m[0].shape) or len(a.shape) == 0 for a in arrs):
        m = with_m[0].merged_from
        for a in arrs:
            ro = roles_of(a)
            if a is with_m[0] or ro is None or not all(isinstance(x, MRole) for x in ro):
                continue
            flat = tuple(r for x in ro for r in x.roles)
            same = len(flat) == len(m) and all(u == v or {u, v} == {'r', 'c'} for u, v in zip(flat, m))
            ex.ctx.oblige(state, 'sesquilinear-structure', line, z3.BoolVal(same),
                          'a matrix merged from the legs %s is added to a matrix merged from the legs %s' % (flat, tuple(m)))
        res.merged_from = m
    return res


# ----------------------------------------------------------------------------------------------------------------------
# ghost index roles: which leg of the sesquilinear form  <bra| A |ket>  an array axis belongs to
#   K / B  rank axis of a ket (plain) / bra (conjugated) solution core,  O  rank axis of an operator (or right-hand side) core,
#   k / b  physical axis of a ket / bra core,  r / c  row / column axis of an operator core (a right-hand side core has r),
#   1  an axis of length 1 introduced by indexing.  None: unknown.  Contractions may only pair the legs listed in ROLE_PAIRS.
#   p  index of a basis function (the physical leg of a transformed data tensor: pairs with the ket leg k of a coefficient core),
#   s  sample index (a batch axis).  A merged axis carries the tuple of the roles it was merged from, in order.
ROLE_PAIRS = {('K', 'K'), ('B', 'B'), ('O', 'O'), ('k', 'c'), ('c', 'k'), ('b', 'r'), ('r', 'b'), ('1', '1'), ('k', 'p'), ('p', 'k'), ('s', 's')}
ROLE_CONJ = {'K': 'B', 'B': 'K', 'k': 'b', 'b': 'k'}


class MRole:
    """role of a merged axis: the (role, length) of the axes it was merged from, in C order.  Equality is by composition."""
    def __init__(self, parts):
        self.parts = tuple(parts)

    @property
    def roles(self):
        return tuple(r for r, _ in self.parts)

    def __eq__(self, other):
        return isinstance(other, MRole) and self.roles == other.roles

    def __hash__(self):
        return hash(self.roles)

    def __repr__(self):
        return '(' + '*'.join(str(r) for r in self.roles) + ')'

    def map(self, table):
        return MRole([(table.get(r, r), n) for r, n in self.parts])


ROLE_DUAL = {'p': 'k', 'k': 'p', 'c': 'k', 'r': 'b'}       # the leg that pairs with a given leg (solution of a least-squares system)


def conj_role(x):
    return x.map(ROLE_CONJ) if isinstance(x, MRole) else ROLE_CONJ.get(x, x)


def dual_role(x):
    return x.map(ROLE_DUAL) if isinstance(x, MRole) else ROLE_DUAL.get(x, x)


def pair_ok(x, y):
    """may an axis of role x be contracted with an axis of role y?  (None: unknown - no claim)"""
    if x is None or y is None:
        return True
    if isinstance(x, MRole) or isinstance(y, MRole):
        if not (isinstance(x, MRole) and isinstance(y, MRole)):
            return False            # a merged axis against a single leg
        return len(x.roles) == len(y.roles) and all(pair_ok(u, v) for u, v in zip(x.roles, y.roles))
    return (x, y) in ROLE_PAIRS


def roles_of(a):
    return a.__dict__.get('roles') if isinstance(a, SArr) else None


def set_roles(a, roles):
    if isinstance(a, SArr) and roles is not None and len(roles) == len(a.shape):
        a.roles = tuple(roles)
    return a


def conj(ex, state, a, line):
    a = need_rank(ex, state, a, line)
    r = new_arr(state, a.shape, a.cplx)
    r.contig = z3.If(a.contig, z3.BoolVal(True), fresh('ct', 'bool'))      # a ufunc: the layout of the operand is kept
    ro = roles_of(a)
    if ro is not None:
        set_roles(r, [conj_role(x) if x is not None else None for x in ro])
    return r


def copy(ex, state, a, line):
    a = need_rank(ex, state, a, line)
    r = new_arr(state, a.shape, a.cplx, a.kind, flags=dict(a.flags))
    set_roles(r, roles_of(a))
    return r


def transpose(ex, state, a, axes, line):
    a = need_rank(ex, state, a, line)
    nd = len(a.shape)
    if axes is None:
        axes = list(range(nd))[::-1]
    axes = [as_conc(x) for x in (axes.items if isinstance(axes, SList) else axes)]
    if any(x is None for x in axes) or sorted(axes) != list(range(nd)):
        ex.ctx.oblige(state, 'transpose-axes', line, False, 'axes %s do not match array of rank %d' % (axes, nd))
        raise Unsupported('transpose axes at line %d' % line)
    ident = axes == list(range(nd))
    res = SArr([a.shape[k] for k in axes], a.cplx, a.buf, a.contig if ident else z3.BoolVal(False), kind=a.kind, own=False)
    if ident:
        res.flags = dict(a.flags)
    if nd == 4 and axes == [3, 1, 2, 0]:
        res.flags['lorth'], res.flags['rorth'] = z3.BoolVal(False), z3.BoolVal(False)
    if nd == 2 and axes == [1, 0]:
        # the transpose of a matrix with orthonormal columns has orthonormal rows and vice versa (also for complex entries)
        res.flags['isorows'], res.flags['isocols'] = a.flags['isocols'], a.flags['isorows']
    ro = roles_of(a)
    if ro is not None:
        set_roles(res, [ro[k] for k in axes])
    return res


def reshape(ex, state, a, newshape, line):
    a = need_rank(ex, state, a, line)
    if isinstance(newshape, SList):
        if newshape.items is None:
            raise Unsupported('reshape to a list of symbolic length at line %d' % line)
        newshape = newshape.items
    newshape = [zi(s) for s in newshape]
    if any(z3.is_int_value(z3.simplify(s)) and z3.simplify(s).as_long() == -1 for s in newshape):
        free = _infer_minus_one(a.shape, roles_of(a), newshape)
        if free is None:
            raise Unsupported('reshape with -1 whose free axis is not a run of axes of the operand at line %d' % line)
        newshape = [free if (z3.is_int_value(z3.simplify(s)) and z3.simplify(s).as_long() == -1) else s for s in newshape]
    ex.ctx.oblige(state, 'reshape-size', line, prod(a.shape) == prod(newshape), 'cannot reshape array into the requested shape')
    for s in newshape:
        ex.ctx.oblige(state, 'reshape-nonneg', line, s >= 0)
    u = fresh('rv', 'bool')
    fb = state.alloc()
    buf = z3.If(a.contig, a.buf, z3.If(u, a.buf, fb))
    # a reshaped contiguous array is a contiguous view; otherwise NumPy returns a view with other strides or a contiguous copy
    res = SArr(newshape, a.cplx, buf, z3.If(a.contig, z3.BoolVal(True), fresh('ct', 'bool')), kind=a.kind, own=False)
    # ghost: (m x k) with orthonormal columns, m = r*p*q  ->  left-orthonormal core (r, p, q, k); rows analogously
    if len(a.shape) == 2 and len(newshape) == 4:
        res.flags['lorth'] = z3.And(a.flags['isocols'], newshape[3] == a.shape[1])
        res.flags['rorth'] = z3.And(a.flags['isorows'], newshape[0] == a.shape[0])
    if len(a.shape) == 4 and len(newshape) == 2:
        res.flags['isocols'] = z3.And(a.flags['lorth'], newshape[1] == a.shape[3])
        res.flags['isorows'] = z3.And(a.flags['rorth'], newshape[0] == a.shape[0])
    ro = roles_of(a)
    if ro is not None:
        res.merged_from = tuple(ro)         # the axes this array was merged from (checked by contracts of the micro systems)
        if len(newshape) == len(a.shape):
            set_roles(res, ro)
        else:
            g = _group_roles(a.shape, ro, newshape)
            if g is not None:
                set_roles(res, g)
    return res


def _same(x, y):
    c = z3.simplify(zi(x) == zi(y))
    if z3.is_true(c):
        return True
    if z3.is_false(c):
        return False
    from vt.e1.values import PROVER
    return PROVER['decide'](c) is True if PROVER.get('decide') is not None else False


def _components(shape, roles):
    """the elementary (role, length) legs of an array, merged axes expanded"""
    out = []
    for n, r in zip(shape, roles):
        out.extend(r.parts if isinstance(r, MRole) else [(r, n)])
    return out


def _group_roles(old_shape, roles, new_shape):
    """roles of a reshaped array: every new axis must be (provably) the product of a run of elementary legs of the old array
    (merged axes count with the legs they were merged from, so a merged axis can be split again).  A run whose legs of length
    other than 1 all carry one role keeps that role; a run of different roles becomes a merged role.  None if no such grouping."""
    comps = _components(old_shape, roles)
    out, k = [], 0
    for n in new_shape:
        acc, run = None, []
        if _same(n, 1) and not (k < len(comps) and _same(comps[k][1], 1)):
            out.append('1')                 # a new axis of length 1 that is not an axis of the operand
            continue
        while k < len(comps):
            acc = comps[k][1] if acc is None else acc * comps[k][1]
            run.append(comps[k])
            k += 1
            if _same(acc, n):
                break
        else:
            return None
        if acc is None or not _same(acc, n):
            return None
        real = [(r, m) for r, m in run if r != '1']
        if any(r is None for r, _ in real):
            return None
        if not real:
            out.append('1')
        elif len({r for r, _ in real}) == 1:
            out.append(real[0][0])          # one leg, or several legs of one kind merged into one mode (two-site blocks)
        else:
            out.append(MRole(real))         # a genuinely merged axis: remembers its composition, in order
    # trailing legs of length 1 may remain
    for r, m in comps[k:]:
        if r != '1' and not _same(m, 1):
            return None
    return out


def _infer_minus_one(old_shape, roles, newshape):
    """reshape(..., -1, ...): the free axis is the product of the old axes (legs) left over when the other new axes are matched
    against runs of old axes from the left and from the right.  Returns the length term or None."""
    p = [k for k, s in enumerate(newshape) if z3.is_int_value(z3.simplify(zi(s))) and z3.simplify(zi(s)).as_long() == -1]
    if len(p) != 1:
        return None
    p = p[0]
    comps = _components(old_shape, roles) if roles is not None else [(None, n) for n in old_shape]
    lo = 0
    for n in newshape[:p]:
        acc = None
        while lo < len(comps):
            acc = comps[lo][1] if acc is None else acc * comps[lo][1]
            lo += 1
            if _same(acc, n):
                break
        else:
            return None
    hi = len(comps)
    for n in reversed(newshape[p + 1:]):
        acc = None
        while hi > lo:
            hi -= 1
            acc = comps[hi][1] if acc is None else comps[hi][1] * acc
            if _same(acc, n):
                break
        else:
            return None
    return prod([c[1] for c in comps[lo:hi]]) if hi > lo else z3.IntVal(1)


def tensordot(ex, state, a, b, axes, line):
    a, b = need_rank(ex, state, a, line), need_rank(ex, state, b, line)
    def norm_axes(x, nd):
        if isinstance(x, SList):
            x = x.items
        if isinstance(x, tuple):
            x = list(x)
        if not isinstance(x, list):
            x = [x]
        out = []
        for v in x:
            c = as_conc(v)
            if c is None:
                raise Unsupported('symbolic tensordot axis at line %d' % line)
            if c < 0:
                c += nd
            if not (0 <= c < nd):
                ex.ctx.oblige(state, 'tensordot-axes', line, False, 'axis out of range')
                raise Unsupported('tensordot axis out of range at line %d' % line)
            out.append(c)
        return out
    if is_conc_int(axes):
        k = axes
        ax_a = list(range(len(a.shape) - k, len(a.shape)))
        ax_b = list(range(k))
    else:
        if isinstance(axes, SList):
            axes = axes.items
        ax_a, ax_b = norm_axes(axes[0], len(a.shape)), norm_axes(axes[1], len(b.shape))
    if len(ax_a) != len(ax_b):
        ex.ctx.oblige(state, 'tensordot-axes', line, False, 'axes lists of different length')
        raise Unsupported('tensordot axes at line %d' % line)
    for x, y in zip(ax_a, ax_b):
        ex.ctx.oblige(state, 'tensordot-shape', line, a.shape[x] == b.shape[y], 'shape mismatch for sum (axis %d of a, axis %d of b)' % (x, y))
    shape = [s for k, s in enumerate(a.shape) if k not in ax_a] + [s for k, s in enumerate(b.shape) if k not in ax_b]
    res = new_arr(state, shape, z3.simplify(z3.Or(a.cplx, b.cplx)))
    ra, rb = roles_of(a), roles_of(b)
    if ra is not None and rb is not None:
        for x, y in zip(ax_a, ax_b):
            if ra[x] is not None and rb[y] is not None:
                ex.ctx.oblige(state, 'sesquilinear-structure', line, z3.BoolVal(pair_ok(ra[x], rb[y])),
                              'axis %d (%s) of the first array is contracted with axis %d (%s) of the second: these legs of <bra|A|ket> do not pair' % (x, ra[x], y, rb[y]))
        set_roles(res, [r for k, r in enumerate(ra) if k not in ax_a] + [r for k, r in enumerate(rb) if k not in ax_b])
    # L-iso (product): (k x r) with orthonormal rows times a right-orthonormal core (r, m, n, r') is right-orthonormal;
    # a left-orthonormal core (r, m, n, r') times (r' x k) with orthonormal columns is left-orthonormal
    if len(a.shape) == 2 and len(b.shape) == 4 and ax_a == [1] and ax_b == [0]:
        res.flags['rorth'] = z3.And(a.flags['isorows'], b.flags['rorth'])
    if len(a.shape) == 4 and len(b.shape) == 2 and ax_a == [3] and ax_b == [0]:
        res.flags['lorth'] = z3.And(a.flags['lorth'], b.flags['isocols'])
    return res


def einsum(ex, state, subscripts, operands, line):
    """np.einsum with an explicit output ('ab,bc->ac'): every operand has as many axes as its subscript has letters, axes that
    share a letter have equal length, the result has the lengths of the output letters (a fresh array)."""
    if not isinstance(subscripts, str) or '->' not in subscripts or '.' in subscripts:
        raise Unsupported('einsum without an explicit output at line %d' % line)
    ins, out = subscripts.replace(' ', '').split('->')
    ins = ins.split(',')
    if len(ins) != len(operands):
        ex.ctx.oblige(state, 'einsum-operands', line, False, 'number of operands does not match the subscripts')
        raise Unsupported('einsum operands at line %d' % line)
    dim = {}
    cplx = z3.BoolVal(False)
    for sub, a in zip(ins, operands):
        if isinstance(a, (SNum, int)) and sub == '':
            continue
        a = need_rank(ex, state, a, line)
        if len(sub) != len(a.shape):
            ex.ctx.oblige(state, 'einsum-rank', line, False, 'operand has %d axes, subscript %r has %d letters' % (len(a.shape), sub, len(sub)))
            raise Unsupported('einsum operand rank at line %d' % line)
        cplx = z3.Or(cplx, a.cplx)
        for ch, n in zip(sub, a.shape):
            if ch in dim:
                # NumPy broadcasts axes of length 1 in einsum
                ex.ctx.oblige(state, 'einsum-shape', line, z3.Or(dim[ch] == n, dim[ch] == 1, zi(n) == 1), 'axes labelled %r have different lengths' % ch)
                dim[ch] = z3.simplify(z3.If(dim[ch] == 1, zi(n), dim[ch]))
            else:
                dim[ch] = zi(n)
    for ch in out:
        if ch not in dim:
            ex.ctx.oblige(state, 'einsum-output', line, False, 'output letter %r does not occur in the inputs' % ch)
            raise Unsupported('einsum output at line %d' % line)
    res = new_arr(state, [dim[ch] for ch in out], z3.simplify(cplx))
    # ghost index roles: a letter summed over pairs two legs (ROLE_PAIRS); an output letter keeps the role of its axis
    role, known = {}, True
    for sub, a in zip(ins, operands):
        a = a.val if isinstance(a, SOpt) else a
        ro = roles_of(a) if isinstance(a, SArr) else None
        if ro is None:
            known = False
            continue
        for ch, r_ in zip(sub, ro):
            role.setdefault(ch, []).append(r_)
    if known:
        for ch, rs in role.items():
            if ch not in out and len(rs) == 2 and rs[0] is not None and rs[1] is not None:
                ex.ctx.oblige(state, 'sesquilinear-structure', line, z3.BoolVal(pair_ok(rs[0], rs[1])),
                              'einsum letter %r sums an axis of role %s with an axis of role %s: these legs do not pair' % (ch, rs[0], rs[1]))
            if ch in out and len(rs) >= 2 and all(r is not None for r in rs):
                real = {r for r in rs if r != '1'}
                ex.ctx.oblige(state, 'sesquilinear-structure', line, z3.BoolVal(len(real) <= 1),
                              'einsum letter %r runs jointly over axes of different roles %s' % (ch, sorted(map(str, real))))
        def out_role(ch):
            rs = [r for r in role.get(ch, [None]) if r != '1'] or ['1']
            return rs[0] if len(set(rs)) == 1 else None
        set_roles(res, [out_role(ch) for ch in out])
    return res


def dot(ex, state, a, b, line):
    a, b = need_rank(ex, state, a, line), need_rank(ex, state, b, line)
    if len(a.shape) == 0 or len(b.shape) == 0:
        return elementwise(ex, state, [a, b], line)
    if len(a.shape) == 1 and len(b.shape) == 1:
        # inner product of two vectors (no conjugation): a NumPy scalar, complex if an operand is
        ex.ctx.oblige(state, 'dot-shape', line, a.shape[0] == b.shape[0], 'shapes not aligned')
        return SNum('dot', cplx=z3.simplify(z3.Or(a.cplx, b.cplx)))
    if len(b.shape) == 1:
        ex.ctx.oblige(state, 'dot-shape', line, a.shape[-1] == b.shape[0], 'shapes not aligned')
        shape = a.shape[:-1]
    else:
        ex.ctx.oblige(state, 'dot-shape', line, a.shape[-1] == b.shape[-2], 'shapes not aligned')
        shape = a.shape[:-1] + b.shape[:-2] + b.shape[-1:]
    res = new_arr(state, shape, z3.simplify(z3.Or(a.cplx, b.cplx)))
    ra, rb = roles_of(a), roles_of(b)
    if ra is not None and rb is not None:
        yb = 0 if len(b.shape) == 1 else len(b.shape) - 2
        ex.ctx.oblige(state, 'sesquilinear-structure', line, z3.BoolVal(pair_ok(ra[-1], rb[yb])),
                      'the last axis (%s) of the first array is contracted with axis %d (%s) of the second: these legs do not pair' % (ra[-1], yb, rb[yb]))
        set_roles(res, list(ra[:-1]) + ([] if len(b.shape) == 1 else list(rb[:-2]) + [rb[-1]]))
    return res


def matmul(ex, state, a, b, line):
    a, b = need_rank(ex, state, a, line), need_rank(ex, state, b, line)
    if not (isinstance(a, SArr) and isinstance(b, SArr)):
        raise Unsupported('matmul with a non-array at line %d' % line)
    if len(a.shape) < 2 or len(b.shape) < 2:
        if len(a.shape) == 2 and len(b.shape) == 1:
            ex.ctx.oblige(state, 'matmul-shape', line, a.shape[1] == b.shape[0])
            return new_arr(state, [a.shape[0]], z3.simplify(z3.Or(a.cplx, b.cplx)))
        if len(a.shape) == 1 and len(b.shape) == 2:
            ex.ctx.oblige(state, 'matmul-shape', line, a.shape[0] == b.shape[0])
            return new_arr(state, [b.shape[1]], z3.simplify(z3.Or(a.cplx, b.cplx)))
        raise Unsupported('matmul of rank-%d and rank-%d arrays at line %d' % (len(a.shape), len(b.shape), line))
    ex.ctx.oblige(state, 'matmul-shape', line, a.shape[-1] == b.shape[-2], 'core dimension mismatch')
    batch = _broadcast(ex, state, a.shape[:-2], b.shape[:-2], line)
    return new_arr(state, batch + [a.shape[-2], b.shape[-1]], z3.simplify(z3.Or(a.cplx, b.cplx)))


def diag(ex, state, a, line):
    a = need_rank(ex, state, a, line)
    if len(a.shape) == 1:
        return new_arr(state, [a.shape[0], a.shape[0]], a.cplx)
    if len(a.shape) == 2:
        m = z3.If(a.shape[0] < a.shape[1], a.shape[0], a.shape[1])
        return SArr([m], a.cplx, a.buf, False, own=False)
    ex.ctx.oblige(state, 'diag-rank', line, False, 'Input must be 1- or 2-d')
    raise Unsupported('np.diag of a rank-%d array at line %d' % (len(a.shape), line))


def svd(ex, state, a, full_matrices, overwrite_a, line):
    if len(a.shape) != 2:
        ex.ctx.oblige(state, 'svd-rank', line, False, 'expected matrix')
        raise Unsupported('svd of a non-matrix at line %d' % line)
    m, n = a.shape
    if full_matrices is True:
        # full SVD: u is m x m and v is n x n (both unitary), min(m, n) singular values
        k = fresh('k')
        state.assume(k == z3.If(m < n, m, n))
        if overwrite_a:
            ex.write_buffer(a.buf, state, line, 'LAPACK overwrite_a=True may clobber the argument buffer')
        u = new_arr(state, [m, m], a.cplx, flags={'isocols': True, 'isorows': True})
        s = new_arr(state, [k], False)
        v = new_arr(state, [n, n], a.cplx, flags={'isocols': True, 'isorows': True})
        s.descending_nonneg = True
        return u, s, v
    if full_matrices is not False:
        raise Unsupported('svd with symbolic full_matrices at line %d' % line)
    # LAPACK rejects empty matrices in older versions; k = min(m, n)
    k = fresh('k')
    state.assume(k == z3.If(m < n, m, n))
    if overwrite_a:
        ex.write_buffer(a.buf, state, line, 'LAPACK overwrite_a=True may clobber the argument buffer')
    u = new_arr(state, [m, k], a.cplx, flags={'isocols': True})
    s = new_arr(state, [k], False)
    v = new_arr(state, [k, n], a.cplx, flags={'isorows': True})
    s.descending_nonneg = True
    return u, s, v
