"""Sidecar contracts for scikit_tt/data_driven/tdmd.py (structural part: E1) - C17: every contraction / reshape of the reduced
matrix is shape-consistent for all orders, dimensions and ranks, the reduced matrix is square, the returned modes form a
valid fresh tensor train whose last mode counts the eigenvalues, and the snapshot tensors x and y are never written."""
import z3
from vt.e1.values import (SArr, SList, STT, SNum, SMaxRank, SInf, INF, SNone, NONE, SOpt, Unsupported, fresh, zi, zb)
from vt.e1.symexec import FA, sym_elem_fn
from vt.e1.contract import (Contract, wf, positive_dims, lists_distinct, cores_fresh, meta_fresh, same_ints, lst_get, mk_tt,
                            mk_int_list, valid)
from vt.e1.tt_contracts import boundary_one

REG = {}
FILE = 'scikit_tt/data_driven/tdmd.py'


def register(c):
    inst = c()
    REG[inst.name] = inst
    return c


def snapshots_ok(x, y):
    """x and y are vector-type tensor trains of the same order >= 2 with equal mode sizes and boundary ranks 1"""
    d = zi(x.order)
    return z3.And(zi(y.order) == d, d >= 2, same_ints(x.row_dims, y.row_dims, d),
                  FA(0, d, lambda j: z3.And(lst_get(x.col_dims, j) == 1, lst_get(y.col_dims, j) == 1)), boundary_one(x), boundary_one(y))


@register
class ReducedMatrix(Contract):
    name, func, file, cls = 'fn:__tdmd_reduced_matrix', '__tdmd_reduced_matrix', FILE, None
    props = ('C17',)
    KEY = 'i in range(1, x.order - 1)'
    loop_ordinals = {0: KEY}

    def setup(self, ex, state, inst):
        m0 = ex.ctx.mark0
        x = mk_tt(state, 'x', m0)
        y = mk_tt(state, 'y', m0, order=x.order)
        return {'x': x, 'y': y}

    def requires(self, S):
        yield 'snapshot-tensors-compatible', snapshots_ok(S.a['x'], S.a['y'])

    def ensures(self, S, res):
        x = S.o['x']
        d = zi(x.order)
        ok = isinstance(res, SArr) and len(res.shape) == 2
        yield 'returns-matrix', ok
        if ok:
            r = lst_get(x.ranks, d - 1)
            yield 'square-of-the-last-rank-of-x', z3.And(res.shape[0] == r, res.shape[1] == r)
            yield 'fresh', res.buf >= S.mark0

    def canary(self, S, res):
        return res.shape[0] == res.shape[1] + 1

    def invariant(self, key, inst):
        if key != self.KEY:
            return None

        def inv(V, i, k):
            x, y, m = V.old('x'), V.old('y'), V['reduced_matrix']
            yield 'reduced_matrix', z3.And(m.shape[0] == 1, m.shape[1] == lst_get(x.ranks, zi(i)) * lst_get(y.ranks, zi(i))) if len(m.shape) == 2 else False
        return inv

    def effect(self, ex, state, A, inst, line):
        from vt.e1 import npmodel
        return npmodel.new_arr(state, [fresh('rm0'), fresh('rm1')], fresh('rmcx', 'bool'))


class _Tdmd(Contract):
    file, cls = FILE, None
    props = ('C17',)

    def defaults(self):
        return {'threshold': SNum('thr0', nonzero=z3.BoolVal(False), nonneg=z3.BoolVal(True)), 'ortho_l': True, 'ortho_r': True}

    def setup(self, ex, state, inst):
        m0 = ex.ctx.mark0
        x = mk_tt(state, 'x', m0)
        y = mk_tt(state, 'y', m0, order=x.order)
        return {'x': x, 'y': y, 'threshold': SNum('threshold', nonneg=z3.BoolVal(True)), 'ortho_l': True, 'ortho_r': True}

    def requires(self, S):
        yield 'snapshot-tensors-compatible', snapshots_ok(S.a['x'], S.a['y'])
        yield 'distinct-objects', S.a['x'].ref != S.a['y'].ref

    def ensures(self, S, res):
        x, y = S.o['x'], S.o['y']
        d = zi(x.order)
        ok = isinstance(res, tuple) and len(res) == 2 and isinstance(res[0], SArr) and isinstance(res[1], STT)
        yield 'returns-(eigenvalues, modes)', ok
        if not ok:
            return
        lam, t = res
        n = lam.shape[0]
        yield 'eigenvalue-vector', len(lam.shape) == 1
        yield 'modes-valid', z3.And(zi(t.order) == d, valid(t))
        yield 'modes-dims', z3.And(FA(0, d - 1, lambda j: lst_get(t.row_dims, j) == lst_get(x.row_dims, j)), lst_get(t.row_dims, d - 1) == n,
                                   FA(0, d, lambda j: lst_get(t.col_dims, j) == 1), boundary_one(t))
        yield 'modes-fresh', z3.And(meta_fresh(t, S.mark0), cores_fresh(t, S.mark0))

    def canary(self, S, res):
        return zi(res[1].order) == zi(S.o['x'].order) + 1 if isinstance(res, tuple) and isinstance(res[1], STT) else None


@register
class TdmdExact(_Tdmd):
    name, func = 'fn:tdmd_exact', 'tdmd_exact'


@register
class TdmdStandard(_Tdmd):
    name, func = 'fn:tdmd_standard', 'tdmd_standard'
