"""Sidecar contracts for scikit_tt/solvers/sle.py (structural part: E1) - C07 (dims, ranks), C06 (frame, freshness),
environment definedness and shapes for every order / rank pattern / repeat count.

The ALS sweep keeps the solution *almost* well-formed: exactly one core (the "dirty" index) may have a stale rank
dimension between two micro steps; the invariants name that window explicitly.
"""
import z3
from vt.e1.values import (SArr, SList, STT, SNum, SMaxRank, SInf, INF, SNone, NONE, SOpt, Unsupported, fresh, fresh_fun, zi, zb,
                          as_conc, is_conc_int)
from vt.e1.symexec import FA, sym_elem_fn
from vt.e1.contract import (Contract, wf, positive_dims, lists_distinct, cores_fresh, meta_fresh, same_ints, lst_get, mk_tt,
                            mk_int_list, core_shape_ok)
from vt.e1 import npmodel
from vt.e1.tt_contracts import REG as TTREG, boundary_one

REG = {}
FILE = 'scikit_tt/solvers/sle.py'


def register(c):
    inst = c()
    REG[inst.name] = inst
    return c


# ----------------------------------------------------------------------------------------------------------------------
# predicates

def opt(v):
    """(defined, array) of a stack entry"""
    if isinstance(v, SOpt):
        return v.defined, v.val
    if isinstance(v, SNone):
        return z3.BoolVal(False), None
    return z3.BoolVal(True), v


def stack_ok(stack, j, shape):
    d_, a = opt(lst_get(stack, j))
    if a is None:
        return z3.BoolVal(False)
    if len(a.shape) != len(shape):
        return z3.BoolVal(False)
    return z3.And(d_, *[x == zi(y) for x, y in zip(a.shape, shape)])


def sol_core_ok(sol, j):
    return core_shape_ok(lst_get(sol.cores, j), lst_get(sol.ranks, j), lst_get(sol.row_dims, j), 1, lst_get(sol.ranks, j + 1))


def Lop(st, op, sol, j):
    return stack_ok(st, j, [lst_get(sol.ranks, j), lst_get(op.ranks, j), lst_get(sol.ranks, j)])


def Rop(st, op, sol, j):
    return stack_ok(st, j, [lst_get(sol.ranks, j + 1), lst_get(op.ranks, j + 1), lst_get(sol.ranks, j + 1)])


def Lrhs(st, rhs, sol, j):
    return stack_ok(st, j, [lst_get(rhs.ranks, j), lst_get(sol.ranks, j)])


def Rrhs(st, rhs, sol, j):
    return stack_ok(st, j, [lst_get(rhs.ranks, j + 1), lst_get(sol.ranks, j + 1)])


def mk_stack(state, name, n, nd, mark0):
    l = SList(fresh(name + '_ref'), n, fn=sym_elem_fn('optarr%d' % nd, state), kind='optarr%d' % nd)
    # environments handed to a helper are sesquilinear: (ket rank, operator rank, bra rank) resp. (rhs rank, bra rank)
    return tag_list(l, ('K', 'O', 'B') if nd == 3 else ('O', 'B'))


def mk_solution(state, op, mark0, fresh_obj=True):
    """the working solution inside a sweep: metadata lists of the right lengths, cores unconstrained (dirty window)"""
    d = zi(op.order)
    rd = mk_int_list(state, 'sol_rd', d)
    cd = mk_int_list(state, 'sol_cd', d)
    rk = mk_int_list(state, 'sol_rk', d + 1)
    cs = SList(fresh('sol_cores_ref'), d, fn=sym_elem_fn('arr', state), kind='arr')
    t = STT(fresh('sol_ref'), d, rd, cd, rk, cs)
    # nothing is assumed here: what the helpers may rely on is stated by _Helper.domain (obliged at every call site)
    # the working copy is owned by the solver: the helpers may write its lists
    return t


def square(op):
    return same_ints(op.row_dims, op.col_dims, zi(op.order))


# ghost index roles (npmodel.ROLE_PAIRS): which leg of <bra| A |ket> an axis of a core / an environment belongs to
ROLES_OP, ROLES_SOL, ROLES_RHS = ('O', 'r', 'c', 'O'), ('K', 'k', '1', 'K'), ('O', 'r', '1', 'O')
ROLES_ENV_OP, ROLES_ENV_RHS = ('K', 'O', 'B'), ('O', 'B')


def tag_list(lst, roles):
    """every element of the list (an array, possibly Optional) carries the given index roles"""
    if lst.items is not None:
        lst.to_fn()
    old = lst.fn

    def f(j):
        v = old(j)
        a = v.val if isinstance(v, SOpt) else v
        if isinstance(a, SArr) and len(a.shape) >= len(roles):
            a.roles = tuple(roles) + (None,) * (len(a.shape) - len(roles))
        return v
    lst.fn = f
    lst.role_tag = tuple(roles)
    return lst


def tag_tt(t, roles):
    if isinstance(t, STT) and isinstance(t.f.get('cores'), SList):
        tag_list(t.cores, roles)
    return t


def with_roles(a, roles):
    a.roles = tuple(roles)
    return a


def merged_ok(res, roles):
    """the matrix / vector was obtained by merging exactly these legs, in this order (rows first)"""
    m = res.__dict__.get('merged_from') if isinstance(res, SArr) else None
    if m is None:
        if getattr(res, 'at_call_site', False):
            return True
        raise Unsupported('the index roles of a micro system were lost (an operation outside the role calculus was applied)')
    return tuple(m) == tuple(roles)


def roles_ok(v, roles):
    """the (defined) entry carries exactly these roles; an entry whose axes all have length 1 (boundary) fits every role"""
    d_, a = opt(v)
    if a is None:
        return True
    if all(z3.is_int_value(z3.simplify(x)) and z3.simplify(x).as_long() == 1 for x in a.shape):
        return True
    r = a.__dict__.get('roles')
    if r is None:
        raise Unsupported('the index roles of an environment were lost (an operation outside the role calculus was applied)')
    return tuple(r[:len(roles)]) == tuple(roles)


class _Helper(Contract):
    file, cls = FILE, None
    auto_valid = False      # the working solution is inside a dirty window: the helpers state exactly which cores are consistent
    props = ('C07', 'C06', 'C11')

    def base(self, ex, state):
        m0 = ex.ctx.mark0
        if 'operator' in getattr(self, 'param_names', ['operator']):
            op = mk_tt(state, 'operator', m0)
        else:
            import types
            op = types.SimpleNamespace(order=fresh('order'))      # the helper has no operator parameter: only the order is shared
        sol = mk_solution(state, op, m0)
        tag_tt(op, ROLES_OP)
        tag_tt(sol, ROLES_SOL)
        i = fresh('i')
        return op, sol, i

    def domain(self, S):
        """what the private helpers rely on about their arguments (the working solution is owned by the solver: no
        allocation facts, only its metadata)"""
        from vt.e1.contract import type_domain
        a, m0 = S.a, S.mark0
        op, rhs, sol, i = a.get('operator'), a.get('right_hand_side'), a['solution'], zi(a['i'])
        d = zi(sol.order)
        for k, v in (('operator', op), ('right_hand_side', rhs)):
            if v is not None:
                yield from type_domain(k, v, m0)
                yield 'order(%s)==order(solution)' % k, zi(v.order) == d
        for k, v in a.items():
            if isinstance(v, SList) or isinstance(v, SArr):
                for lbl, g in type_domain(k, v, m0):
                    if lbl.startswith('model:'):
                        yield lbl, g
        if op is not None:
            yield 'square-operator', square(op)
        yield 'solution-metadata', z3.And(d >= 1, zi(sol.row_dims.len_term()) == d, zi(sol.col_dims.len_term()) == d, zi(sol.ranks.len_term()) == d + 1,
                                          zi(sol.cores.len_term()) == d, lists_distinct(sol))
        yield 'solution-dims', FA(0, d, lambda j: z3.And(lst_get(sol.row_dims, j) >= 1, lst_get(sol.col_dims, j) == 1,
                                                         *([lst_get(sol.row_dims, j) == lst_get(op.col_dims, j)] if op is not None else []),
                                                         *([lst_get(sol.row_dims, j) == lst_get(rhs.row_dims, j), lst_get(rhs.col_dims, j) == 1] if rhs is not None else [])))
        yield 'solution-ranks>=1', FA(0, d + 1, lambda j: lst_get(sol.ranks, j) >= 1)
        yield 'i-in-range', z3.And(i >= 0, i < d)
        mr = a.get('max_rank')
        if isinstance(mr, SMaxRank):
            yield 'max_rank>=1', z3.Or(mr.is_inf, mr.val >= 1)
        yield from self.domain_extra(S)

    def modifies(self, S):
        return [S.o[self.stack_name].ref], []


class _StackHelper(_Helper):
    """__construct_stack_*: writes slot i of one stack list"""

    def mutated(self, A):
        return [A[self.stack_name]]

    def ensures(self, S, res):
        st, st0 = S.a[self.stack_name], S.o[self.stack_name]
        i = zi(S.o['i'])
        n = zi(st0.length)
        yield 'length-unchanged', zi(st.length) == n
        yield 'slot-i', self.slot(S, st, i)
        yield 'other-slots-unchanged', FA(0, n, lambda j: z3.Implies(j != i, self.same_entry(lst_get(st, j), lst_get(st0, j))))
        d_, a = opt(lst_get(st, i))
        yield 'slot-buffer-fresh', a is not None and a.buf >= S.mark0
        # the new environment is again <bra| ... |ket>: conjugated cores on the bra legs, plain cores on the ket legs
        yield 'sesquilinear-roles', z3.BoolVal(roles_ok(lst_get(st, i), self.env_roles))

    @staticmethod
    def same_entry(a, b):
        da, va = opt(a)
        db, vb = opt(b)
        if va is None or vb is None:
            return da == db
        return z3.And(da == db, *[x == y for x, y in zip(va.shape, vb.shape)], va.buf == vb.buf)

    def canary(self, S, res):
        st = S.a[self.stack_name]
        d_, a = opt(lst_get(st, zi(S.o['i'])))
        return a.shape[0] == 0 if a is not None else None

    def effect(self, ex, state, A, inst, line):
        st = A[self.stack_name]
        i = zi(A['i'])
        nd = self.nd
        arr = with_roles(SArr([fresh('st') for _ in range(nd)], fresh('stcx', 'bool'), state.alloc(), True), self.env_roles)
        st.set(i, arr)
        return NONE


@register
class StackLeftOp(_StackHelper):
    name, func = 'fn:__construct_stack_left_op', '__construct_stack_left_op'
    stack_name, nd, env_roles = 'stack_left_op', 3, ROLES_ENV_OP

    def setup(self, ex, state, inst):
        op, sol, i = self.base(ex, state)
        return {'i': i, 'stack_left_op': mk_stack(state, 'stack_left_op', zi(op.order), 3, ex.ctx.mark0), 'operator': op, 'solution': sol}

    def requires(self, S):
        st, op, sol, i = S.a['stack_left_op'], S.a['operator'], S.a['solution'], zi(S.a['i'])
        yield 'i-in-range', z3.And(i >= 0, i < zi(st.length), i < zi(op.order), zi(st.length) == zi(op.order))
        yield 'previous-entry-and-core', z3.Implies(i > 0, z3.And(Lop(st, op, sol, i - 1), sol_core_ok(sol, i - 1)))

    def slot(self, S, st, i):
        op, sol = S.o['operator'], S.o['solution']
        return z3.If(i == 0, stack_ok(st, i, [1, 1, 1]), Lop(st, op, sol, i))


@register
class StackRightOp(_StackHelper):
    name, func = 'fn:__construct_stack_right_op', '__construct_stack_right_op'
    stack_name, nd, env_roles = 'stack_right_op', 3, ROLES_ENV_OP

    def setup(self, ex, state, inst):
        op, sol, i = self.base(ex, state)
        return {'i': i, 'stack_right_op': mk_stack(state, 'stack_right_op', zi(op.order), 3, ex.ctx.mark0), 'operator': op, 'solution': sol}

    def requires(self, S):
        st, op, sol, i = S.a['stack_right_op'], S.a['operator'], S.a['solution'], zi(S.a['i'])
        d = zi(op.order)
        yield 'i-in-range', z3.And(i >= 0, i < d, zi(st.length) == d)
        yield 'boundary-rank', z3.And(lst_get(op.ranks, d) == 1, lst_get(sol.ranks, d) == 1)
        yield 'next-entry-and-core', z3.Implies(i < d - 1, z3.And(Rop(st, op, sol, i + 1), sol_core_ok(sol, i + 1)))

    def slot(self, S, st, i):
        op, sol = S.o['operator'], S.o['solution']
        return Rop(st, op, sol, i)


@register
class StackLeftRhs(_StackHelper):
    name, func = 'fn:__construct_stack_left_rhs', '__construct_stack_left_rhs'
    stack_name, nd, env_roles = 'stack_left_rhs', 2, ROLES_ENV_RHS

    def setup(self, ex, state, inst):
        op, sol, i = self.base(ex, state)
        rhs = tag_tt(mk_tt(state, 'right_hand_side', ex.ctx.mark0, order=op.order), ROLES_RHS)
        return {'i': i, 'stack_left_rhs': mk_stack(state, 'stack_left_rhs', zi(op.order), 2, ex.ctx.mark0), 'right_hand_side': rhs, 'solution': sol}

    def requires(self, S):
        st, rhs, sol, i = S.a['stack_left_rhs'], S.a['right_hand_side'], S.a['solution'], zi(S.a['i'])
        d = zi(rhs.order)
        yield 'i-in-range', z3.And(i >= 0, i < d, zi(st.length) == d)
        yield 'boundary-rank', z3.And(lst_get(rhs.ranks, 0) == 1, lst_get(sol.ranks, 0) == 1)
        yield 'previous-entry-and-core', z3.Implies(i > 0, z3.And(Lrhs(st, rhs, sol, i - 1), sol_core_ok(sol, i - 1)))

    def slot(self, S, st, i):
        return Lrhs(st, S.o['right_hand_side'], S.o['solution'], i)


@register
class StackRightRhs(_StackHelper):
    name, func = 'fn:__construct_stack_right_rhs', '__construct_stack_right_rhs'
    stack_name, nd, env_roles = 'stack_right_rhs', 2, ROLES_ENV_RHS

    def setup(self, ex, state, inst):
        op, sol, i = self.base(ex, state)
        rhs = tag_tt(mk_tt(state, 'right_hand_side', ex.ctx.mark0, order=op.order), ROLES_RHS)
        return {'i': i, 'stack_right_rhs': mk_stack(state, 'stack_right_rhs', zi(op.order), 2, ex.ctx.mark0), 'right_hand_side': rhs, 'solution': sol}

    def requires(self, S):
        st, rhs, sol, i = S.a['stack_right_rhs'], S.a['right_hand_side'], S.a['solution'], zi(S.a['i'])
        d = zi(rhs.order)
        yield 'i-in-range', z3.And(i >= 0, i < d, zi(st.length) == d)
        yield 'boundary-rank', z3.And(lst_get(rhs.ranks, d) == 1, lst_get(sol.ranks, d) == 1)
        yield 'next-entry-and-core', z3.Implies(i < d - 1, z3.And(Rrhs(st, rhs, sol, i + 1), sol_core_ok(sol, i + 1)))

    def slot(self, S, st, i):
        return Rrhs(st, S.o['right_hand_side'], S.o['solution'], i)


@register
class MicroMatrixAls(_Helper):
    name, func = 'fn:__construct_micro_matrix_als', '__construct_micro_matrix_als'

    def modifies(self, S):
        return [], []

    def setup(self, ex, state, inst):
        op, sol, i = self.base(ex, state)
        d = zi(op.order)
        return {'i': i, 'stack_left_op': mk_stack(state, 'sl', d, 3, ex.ctx.mark0), 'stack_right_op': mk_stack(state, 'sr', d, 3, ex.ctx.mark0), 'operator': op, 'solution': sol}

    def requires(self, S):
        l, r, op, sol, i = S.a['stack_left_op'], S.a['stack_right_op'], S.a['operator'], S.a['solution'], zi(S.a['i'])
        d = zi(op.order)
        yield 'i-in-range', z3.And(i >= 0, i < d, zi(l.length) == d, zi(r.length) == d)
        yield 'environments-defined', z3.And(Lop(l, op, sol, i), Rop(r, op, sol, i))

    def ensures(self, S, res):
        op, sol, i = S.o['operator'], S.o['solution'], zi(S.o['i'])
        ok = isinstance(res, SArr) and len(res.shape) == 2
        yield 'returns-matrix', ok
        if ok:
            n = lst_get(sol.ranks, i) * lst_get(op.row_dims, i) * lst_get(sol.ranks, i + 1)
            yield 'shape', z3.And(res.shape[0] == n, res.shape[1] == lst_get(sol.ranks, i) * lst_get(op.col_dims, i) * lst_get(sol.ranks, i + 1))
            yield 'fresh', res.buf >= S.mark0
            # M = P^H A P: rows are the bra legs (conjugated cores, operator rows), columns the ket legs
            yield 'sesquilinear-roles', z3.BoolVal(merged_ok(res, ('B', 'r', 'B', 'K', 'c', 'K')))

    def canary(self, S, res):
        return res.shape[0] == res.shape[1] + 1

    def effect(self, ex, state, A, inst, line):
        r = SArr([fresh('mm0'), fresh('mm1')], fresh('mmcx', 'bool'), state.alloc(), True)
        r.at_call_site = True
        return r


@register
class MicroRhsAls(_Helper):
    name, func = 'fn:__construct_micro_rhs_als', '__construct_micro_rhs_als'

    def modifies(self, S):
        return [], []

    def setup(self, ex, state, inst):
        op, sol, i = self.base(ex, state)
        d = zi(op.order)
        rhs = tag_tt(mk_tt(state, 'right_hand_side', ex.ctx.mark0, order=op.order), ROLES_RHS)
        return {'i': i, 'stack_left_rhs': mk_stack(state, 'sl', d, 2, ex.ctx.mark0), 'stack_right_rhs': mk_stack(state, 'sr', d, 2, ex.ctx.mark0), 'right_hand_side': rhs, 'solution': sol}

    def requires(self, S):
        l, r, rhs, sol, i = S.a['stack_left_rhs'], S.a['stack_right_rhs'], S.a['right_hand_side'], S.a['solution'], zi(S.a['i'])
        d = zi(rhs.order)
        yield 'i-in-range', z3.And(i >= 0, i < d, zi(l.length) == d, zi(r.length) == d)
        yield 'environments-defined', z3.And(Lrhs(l, rhs, sol, i), Rrhs(r, rhs, sol, i))

    def ensures(self, S, res):
        rhs, sol, i = S.o['right_hand_side'], S.o['solution'], zi(S.o['i'])
        ok = isinstance(res, SArr) and len(res.shape) == 2
        yield 'returns-matrix', ok
        if ok:
            yield 'shape', z3.And(res.shape[0] == lst_get(sol.ranks, i) * lst_get(rhs.row_dims, i) * lst_get(sol.ranks, i + 1), res.shape[1] == 1)
            yield 'fresh', res.buf >= S.mark0
            yield 'sesquilinear-roles', z3.BoolVal(merged_ok(res, ('B', 'r', 'B')))         # P^H b: bra legs only

    def canary(self, S, res):
        return res.shape[1] == 2

    def effect(self, ex, state, A, inst, line):
        r = SArr([fresh('mr0'), fresh('mr1')], fresh('mrcx', 'bool'), state.alloc(), True)
        r.at_call_site = True
        return r


@register
class UpdateCoreAls(_Helper):
    name, func = 'fn:__update_core_als', '__update_core_als'

    def instances(self):
        return [{'solver': s, 'direction': dr} for s in ('solve', 'lu') for dr in ('forward', 'backward')]

    def call_inst(self, A):
        if not isinstance(A['direction'], str):
            raise Unsupported('symbolic direction')
        return {'direction': A['direction'], 'solver': A['solver'] if isinstance(A['solver'], str) else 'solve'}

    def modifies(self, S):
        sol = S.o['solution']
        return [sol.cores.ref, sol.ranks.ref], []

    def mutated(self, A):
        return [A['solution'].cores, A['solution'].ranks]

    def setup(self, ex, state, inst):
        op, sol, i = self.base(ex, state)
        N = lst_get(sol.ranks, i) * lst_get(sol.row_dims, i) * lst_get(sol.ranks, i + 1)
        mo = SArr([N, N], fresh('mocx', 'bool'), fresh('mobuf'), True)
        mr = SArr([N, 1], fresh('mrcx', 'bool'), fresh('mrbuf'), True)
        return {'i': i, 'micro_op': mo, 'micro_rhs': mr, 'solution': sol, 'solver': inst['solver'], 'direction': inst['direction']}

    def requires(self, S):
        sol, i, mo, mr = S.a['solution'], zi(S.a['i']), S.a['micro_op'], S.a['micro_rhs']
        d = zi(sol.order)
        N = lst_get(sol.ranks, i) * lst_get(sol.row_dims, i) * lst_get(sol.ranks, i + 1)
        yield 'i-in-range', z3.And(i >= 0, i < d)
        if S.inst['direction'] == 'forward':
            # derived from the code: the forward step shifts the non-orthonormal part into core i + 1
            yield 'forward:i<order-1', i < d - 1
        yield 'micro-system-shape', z3.And(mo.shape[0] == N, mo.shape[1] == N, mr.shape[0] == N, mr.shape[1] == 1)
        yield 'micro-system-fresh', z3.And(mo.buf >= self._mark(S), mr.buf >= self._mark(S))
        yield 'solver', S.a['solver'] in ('solve', 'lu')

    def _mark(self, S):
        return S.state.ctx.mark0

    def ensures(self, S, res):
        sol, sol0, i = S.a['solution'], S.o['solution'], zi(S.o['i'])
        d = zi(sol0.order)
        fwd = S.inst['direction'] == 'forward'
        yield 'lists-kept', z3.And(sol.cores.ref == sol0.cores.ref, sol.ranks.ref == sol0.ranks.ref, zi(sol.cores.length) == d, zi(sol.ranks.length) == d + 1)
        yield 'core-i', sol_core_ok(sol, i)
        yield 'core-i-fresh', lst_get(sol.cores, i).buf >= S.mark0
        yield 'other-cores-unchanged', FA(0, d, lambda j: z3.Implies(j != i, z3.And(
            lst_get(sol.cores, j).buf == lst_get(sol0.cores, j).buf, zi(lst_get(sol.cores, j).ndim) == zi(lst_get(sol0.cores, j).ndim),
            *[a == b for a, b in zip(lst_get(sol.cores, j).shape, lst_get(sol0.cores, j).shape)])))
        k = i + 1 if fwd else i
        yield 'one-rank-updated', FA(0, d + 1, lambda j: z3.Implies(j != k, lst_get(sol.ranks, j) == lst_get(sol0.ranks, j)))
        yield 'rank-not-increased', z3.And(lst_get(sol.ranks, k) <= lst_get(sol0.ranks, k), lst_get(sol.ranks, k) >= 1)
        if not fwd:
            yield 'rank-0-kept', z3.Implies(i == 0, lst_get(sol.ranks, 0) == lst_get(sol0.ranks, 0))
        yield 'isometry', lst_get(sol.cores, i).flags['lorth'] if fwd else z3.Implies(i > 0, lst_get(sol.cores, i).flags['rorth'])

    def canary(self, S, res):
        return lst_get(S.a['solution'].ranks, zi(S.o['i'])) == lst_get(S.o['solution'].ranks, zi(S.o['i'])) + 1

    def effect(self, ex, state, A, inst, line):
        sol, i = A['solution'], zi(A['i'])
        k = i + 1 if inst['direction'] == 'forward' else i
        sol.ranks.set(k, fresh('newrank'))
        core = SArr([fresh('c%d' % q) for q in range(4)], fresh('ccx', 'bool'), state.alloc(), True, ndim=4,
                    flags={f: fresh('c' + f, 'bool') for f in SArr.FLAGS})
        sol.cores.set(i, core)
        return NONE


# ----------------------------------------------------------------------------------------------------------------------
# the ALS driver

def all_ranks_le(sol, guess0, d):
    return FA(0, d + 1, lambda j: z3.And(lst_get(sol.ranks, j) <= lst_get(guess0.ranks, j), lst_get(sol.ranks, j) >= 1))


@register
class Als(Contract):
    name, func, file, cls = 'fn:als', 'als', FILE, None
    props = ('C07', 'C06')
    list_kinds = {'stack_left_op': 'optarr3', 'stack_right_op': 'optarr3', 'stack_left_rhs': 'optarr2', 'stack_right_rhs': 'optarr2'}

    def instances(self):
        return [{'solver': 'solve'}, {'solver': 'lu'}]

    def defaults(self):
        return {'repeats': 1, 'solver': 'solve'}

    def call_inst(self, A):
        return {'solver': A.get('solver', 'solve')}

    def setup(self, ex, state, inst):
        m0 = ex.ctx.mark0
        op = mk_tt(state, 'operator', m0)
        d = op.order
        guess = mk_tt(state, 'initial_guess', m0, order=d)
        rhs = mk_tt(state, 'right_hand_side', m0, order=d)
        rep = fresh('repeats')
        return {'operator': op, 'initial_guess': guess, 'right_hand_side': rhs, 'repeats': rep, 'solver': inst['solver']}

    def requires(self, S):
        op, g, rhs = S.a['operator'], S.a['initial_guess'], S.a['right_hand_side']
        d = zi(op.order)
        yield 'orders-equal', z3.And(zi(g.order) == d, zi(rhs.order) == d)
        # derived from the micro systems being solved exactly: square operator acting on the solution's modes
        yield 'square-operator', square(op)
        yield 'dims-match', z3.And(same_ints(g.row_dims, op.col_dims, d), same_ints(rhs.row_dims, op.row_dims, d),
                                   FA(0, d, lambda j: z3.And(lst_get(g.col_dims, j) == 1, lst_get(rhs.col_dims, j) == 1)))
        yield 'boundary-ranks-1', z3.And(boundary_one(op), boundary_one(g), boundary_one(rhs))
        yield 'repeats>=0', zi(S.a['repeats']) >= 0

    def ensures(self, S, res):
        g0, rhs0 = S.o['initial_guess'], S.o['right_hand_side']
        d = zi(g0.order)
        yield 'returns-TT', isinstance(res, STT)
        if not isinstance(res, STT):
            return
        yield 'wf(result)', wf(res)
        yield 'result-object-and-lists-fresh', meta_fresh(res, S.mark0)
        yield 'result-buffers-fresh', cores_fresh(res, S.mark0)
        yield 'order', zi(res.order) == d
        yield 'dims==dims(rhs)', z3.And(same_ints(res.row_dims, rhs0.row_dims, d), same_ints(res.col_dims, rhs0.col_dims, d))
        yield 'ranks<=guess-ranks', all_ranks_le(res, g0, d)

    def canary(self, S, res):
        return lst_get(res.ranks, 1) == lst_get(S.o['initial_guess'].ranks, 1) + 1 if isinstance(res, STT) else None

    # -- loop invariants ---------------------------------------------------------------------------------------------------
    def common(self, V):
        sol, op, g0, rhs = V['solution'], V.old('operator'), V.old('initial_guess'), V.old('right_hand_side')
        d = zi(op.order)
        yield 'solution-identity', z3.And(meta_fresh(sol, V.mark0), lists_distinct(sol), zi(sol.order) == d, zi(sol.cores.length) == d,
                                          zi(sol.ranks.length) == d + 1, zi(sol.row_dims.length) == d, zi(sol.col_dims.length) == d)
        yield 'solution-dims', z3.And(same_ints(sol.row_dims, g0.row_dims, d), FA(0, d, lambda j: lst_get(sol.col_dims, j) == 1))
        yield 'ranks<=guess', all_ranks_le(sol, g0, d)
        yield 'boundary', z3.And(lst_get(sol.ranks, 0) == 1, lst_get(sol.ranks, d) == 1)
        yield 'buffers-fresh', FA(0, d, lambda j: lst_get(sol.cores, j).buf >= V.mark0)
        for nm in ('stack_left_op', 'stack_right_op', 'stack_left_rhs', 'stack_right_rhs'):
            yield 'len(%s)' % nm, z3.And(zi(V[nm].length) == d, V[nm].ref >= V.mark0)

    def invariant(self, key, inst):
        me = self

        def inv_init(V, i, k):       # initial right stacks, i descending from d-1
            sol, op, rhs = V['solution'], V.old('operator'), V.old('right_hand_side')
            d = zi(op.order)
            yield from me.common(V)
            yield 'wf(solution)', wf(sol)
            yield 'right-stacks', FA(0, d, lambda j: z3.Implies(j > i, z3.And(Rop(V['stack_right_op'], op, sol, j), Rrhs(V['stack_right_rhs'], rhs, sol, j))))

        def inv_while(V, i, k):
            sol, op, rhs = V['solution'], V.old('operator'), V.old('right_hand_side')
            d = zi(op.order)
            yield from me.common(V)
            yield 'wf(solution)', wf(sol)
            yield 'right-stacks', FA(0, d, lambda j: z3.And(Rop(V['stack_right_op'], op, sol, j), Rrhs(V['stack_right_rhs'], rhs, sol, j)))

        def inv_fwd(V, i, k):
            sol, op, rhs = V['solution'], V.old('operator'), V.old('right_hand_side')
            d = zi(op.order)
            dirty = z3.If(i < d - 1, i, d - 1)
            yield from me.common(V)
            yield 'cores', FA(0, d, lambda j: z3.Implies(j != dirty, sol_core_ok(sol, j)))
            yield 'left-stacks', FA(0, d, lambda j: z3.Implies(j < i, z3.And(Lop(V['stack_left_op'], op, sol, j), Lrhs(V['stack_left_rhs'], rhs, sol, j))))
            yield 'right-stacks', FA(0, d, lambda j: z3.Implies(j >= i, z3.And(Rop(V['stack_right_op'], op, sol, j), Rrhs(V['stack_right_rhs'], rhs, sol, j))))

        def inv_bwd(V, i, k):
            sol, op, rhs = V['solution'], V.old('operator'), V.old('right_hand_side')
            d = zi(op.order)
            yield from me.common(V)
            yield 'cores', FA(0, d, lambda j: z3.Implies(j != i, sol_core_ok(sol, j)))
            yield 'left-stacks', FA(0, d, lambda j: z3.Implies(j <= i, z3.And(Lop(V['stack_left_op'], op, sol, j), Lrhs(V['stack_left_rhs'], rhs, sol, j))))
            yield 'right-stacks', FA(0, d, lambda j: z3.Implies(j > i, z3.And(Rop(V['stack_right_op'], op, sol, j), Rrhs(V['stack_right_rhs'], rhs, sol, j))))
        table = {'i in range(operator.order - 1, -1, -1)#0': inv_init, 'while current_iteration <= repeats': inv_while,
                 'i in range(operator.order)': inv_fwd, 'i in range(operator.order - 1, -1, -1)#3': inv_bwd}
        return table.get(key)

    loop_ordinals = {0: 'i in range(operator.order - 1, -1, -1)#0', 1: 'while current_iteration <= repeats', 2: 'i in range(operator.order)',
                     3: 'i in range(operator.order - 1, -1, -1)#3'}

    def effect(self, ex, state, A, inst, line):
        from vt.e1.contract import mk_fresh_tt
        return mk_fresh_tt(state, 'als_result')


# ----------------------------------------------------------------------------------------------------------------------
# MALS (two-site)

@register
class MicroMatrixMals(_Helper):
    name, func = 'fn:__construct_micro_matrix_mals', '__construct_micro_matrix_mals'

    def modifies(self, S):
        return [], []

    def setup(self, ex, state, inst):
        op, sol, i = self.base(ex, state)
        d = zi(op.order)
        return {'i': i, 'stack_left_op': mk_stack(state, 'sl', d, 3, ex.ctx.mark0), 'stack_right_op': mk_stack(state, 'sr', d, 3, ex.ctx.mark0), 'operator': op, 'solution': sol}

    def requires(self, S):
        l, r, op, sol, i = S.a['stack_left_op'], S.a['stack_right_op'], S.a['operator'], S.a['solution'], zi(S.a['i'])
        d = zi(op.order)
        yield 'i-in-range', z3.And(i >= 0, i < d - 1, zi(l.length) == d, zi(r.length) == d)
        yield 'environments-defined', z3.And(Lop(l, op, sol, i), Rop(r, op, sol, i + 1))

    def _n(self, S, dims):
        op, sol, i = S.o['operator'], S.o['solution'], zi(S.o['i'])
        return lst_get(sol.ranks, i) * lst_get(dims, i) * lst_get(dims, i + 1) * lst_get(sol.ranks, i + 2)

    def ensures(self, S, res):
        op = S.o['operator']
        ok = isinstance(res, SArr) and len(res.shape) == 2
        yield 'returns-matrix', ok
        if ok:
            yield 'shape', z3.And(res.shape[0] == self._n(S, op.row_dims), res.shape[1] == self._n(S, op.col_dims))
            yield 'fresh', res.buf >= S.mark0
            yield 'sesquilinear-roles', z3.BoolVal(merged_ok(res, ('B', 'r', 'r', 'B', 'K', 'c', 'c', 'K')))

    def canary(self, S, res):
        return res.shape[0] == res.shape[1] + 1

    def effect(self, ex, state, A, inst, line):
        r = SArr([fresh('mm0'), fresh('mm1')], fresh('mmcx', 'bool'), state.alloc(), True)
        r.at_call_site = True
        return r


@register
class MicroRhsMals(_Helper):
    name, func = 'fn:__construct_micro_rhs_mals', '__construct_micro_rhs_mals'

    def modifies(self, S):
        return [], []

    def setup(self, ex, state, inst):
        op, sol, i = self.base(ex, state)
        d = zi(op.order)
        rhs = tag_tt(mk_tt(state, 'right_hand_side', ex.ctx.mark0, order=op.order), ROLES_RHS)
        return {'i': i, 'stack_left_rhs': mk_stack(state, 'sl', d, 2, ex.ctx.mark0), 'stack_right_rhs': mk_stack(state, 'sr', d, 2, ex.ctx.mark0), 'right_hand_side': rhs, 'solution': sol}

    def requires(self, S):
        l, r, rhs, sol, i = S.a['stack_left_rhs'], S.a['stack_right_rhs'], S.a['right_hand_side'], S.a['solution'], zi(S.a['i'])
        d = zi(rhs.order)
        yield 'i-in-range', z3.And(i >= 0, i < d - 1, zi(l.length) == d, zi(r.length) == d)
        yield 'environments-defined', z3.And(Lrhs(l, rhs, sol, i), Rrhs(r, rhs, sol, i + 1))

    def ensures(self, S, res):
        rhs, sol, i = S.o['right_hand_side'], S.o['solution'], zi(S.o['i'])
        ok = isinstance(res, SArr) and len(res.shape) == 2
        yield 'returns-matrix', ok
        if ok:
            yield 'shape', z3.And(res.shape[0] == lst_get(sol.ranks, i) * lst_get(rhs.row_dims, i) * lst_get(rhs.row_dims, i + 1) * lst_get(sol.ranks, i + 2), res.shape[1] == 1)
            yield 'fresh', res.buf >= S.mark0
            yield 'sesquilinear-roles', z3.BoolVal(merged_ok(res, ('B', 'r', 'r', 'B')))

    def canary(self, S, res):
        return res.shape[1] == 2

    def effect(self, ex, state, A, inst, line):
        r = SArr([fresh('mr0'), fresh('mr1')], fresh('mrcx', 'bool'), state.alloc(), True)
        r.at_call_site = True
        return r


def cap_ok(rank, mr):
    if isinstance(mr, SMaxRank):
        return z3.Or(mr.is_inf, zi(rank) <= mr.val)
    if isinstance(mr, SInf):
        return z3.BoolVal(True)
    return zi(rank) <= zi(mr)


@register
class UpdateCoreMals(_Helper):
    name, func = 'fn:__update_core_mals', '__update_core_mals'

    def instances(self):
        return [{'solver': s, 'direction': dr} for s in ('solve', 'lu') for dr in ('forward', 'backward')]

    def call_inst(self, A):
        if not isinstance(A['direction'], str):
            raise Unsupported('symbolic direction')
        return {'direction': A['direction'], 'solver': A['solver'] if isinstance(A['solver'], str) else 'solve'}

    def modifies(self, S):
        sol = S.o['solution']
        return [sol.cores.ref, sol.ranks.ref], []

    def mutated(self, A):
        return [A['solution'].cores, A['solution'].ranks]

    def setup(self, ex, state, inst):
        op, sol, i = self.base(ex, state)
        N = lst_get(sol.ranks, i) * lst_get(sol.row_dims, i) * lst_get(sol.row_dims, i + 1) * lst_get(sol.ranks, i + 2)
        mo = SArr([N, N], fresh('mocx', 'bool'), fresh('mobuf'), True)
        mr_ = SArr([N, 1], fresh('mrcx', 'bool'), fresh('mrbuf'), True)
        cap = SMaxRank('max_rank')
        return {'i': i, 'micro_op': mo, 'micro_rhs': mr_, 'solution': sol, 'solver': inst['solver'], 'threshold': SNum('threshold', nonneg=z3.BoolVal(True)),
                'max_rank': cap, 'direction': inst['direction']}

    def requires(self, S):
        sol, i, mo, mr_ = S.a['solution'], zi(S.a['i']), S.a['micro_op'], S.a['micro_rhs']
        d = zi(sol.order)
        N = lst_get(sol.ranks, i) * lst_get(sol.row_dims, i) * lst_get(sol.row_dims, i + 1) * lst_get(sol.ranks, i + 2)
        yield 'i-in-range', z3.And(i >= 0, i < d - 1)
        yield 'micro-system-shape', z3.And(mo.shape[0] == N, mo.shape[1] == N, mr_.shape[0] == N, mr_.shape[1] == 1)
        yield 'micro-system-fresh', z3.And(mo.buf >= S.state.ctx.mark0, mr_.buf >= S.state.ctx.mark0)

    def ensures(self, S, res):
        sol, sol0, i = S.a['solution'], S.o['solution'], zi(S.o['i'])
        d = zi(sol0.order)
        fwd = S.inst['direction'] == 'forward'
        yield 'lists-kept', z3.And(sol.cores.ref == sol0.cores.ref, sol.ranks.ref == sol0.ranks.ref, zi(sol.cores.length) == d, zi(sol.ranks.length) == d + 1)
        yield 'one-rank-updated', FA(0, d + 1, lambda j: z3.Implies(j != i + 1, lst_get(sol.ranks, j) == lst_get(sol0.ranks, j)))
        yield 'new-rank', z3.And(lst_get(sol.ranks, i + 1) >= 1, cap_ok(lst_get(sol.ranks, i + 1), S.o['max_rank']))
        if fwd:
            yield 'core-i', z3.And(sol_core_ok(sol, i), lst_get(sol.cores, i).buf >= S.mark0, lst_get(sol.cores, i).flags['lorth'])
            touched = lambda j: j == i  # noqa
        else:
            yield 'core-i+1', z3.And(sol_core_ok(sol, i + 1), lst_get(sol.cores, i + 1).buf >= S.mark0, lst_get(sol.cores, i + 1).flags['rorth'])
            yield 'core-0-when-i==0', z3.Implies(i == 0, z3.And(sol_core_ok(sol, 0), lst_get(sol.cores, 0).buf >= S.mark0))
            touched = lambda j: z3.Or(j == i, j == i + 1)  # noqa
        yield 'other-cores-unchanged', FA(0, d, lambda j: z3.Implies(z3.Not(touched(j)), z3.And(
            lst_get(sol.cores, j).buf == lst_get(sol0.cores, j).buf, zi(lst_get(sol.cores, j).ndim) == zi(lst_get(sol0.cores, j).ndim),
            *[a == b for a, b in zip(lst_get(sol.cores, j).shape, lst_get(sol0.cores, j).shape)])))

    def canary(self, S, res):
        return lst_get(S.a['solution'].ranks, zi(S.o['i'])) == lst_get(S.o['solution'].ranks, zi(S.o['i'])) + 1

    def effect(self, ex, state, A, inst, line):
        sol, i = A['solution'], zi(A['i'])
        sol.ranks.set(i + 1, fresh('newrank'))
        mk = lambda: SArr([fresh('c%d' % q) for q in range(4)], fresh('ccx', 'bool'), state.alloc(), True, ndim=fresh('cnd'),  # noqa
                          flags={f: fresh('c' + f, 'bool') for f in SArr.FLAGS})
        sol.cores.set(i, mk())
        if inst['direction'] == 'backward':
            sol.cores.set(i + 1, mk())
        return NONE


@register
class Mals(Contract):
    name, func, file, cls = 'fn:mals', 'mals', FILE, None
    props = ('C07', 'C06')
    list_kinds = Als.list_kinds

    def instances(self):
        return [{'solver': 'solve'}, {'solver': 'lu'}]

    def defaults(self):
        return {'repeats': 1, 'solver': 'solve', 'threshold': SNum('thr', nonzero=z3.BoolVal(True), nonneg=z3.BoolVal(True)), 'max_rank': INF}

    def call_inst(self, A):
        return {'solver': A.get('solver', 'solve')}

    def setup(self, ex, state, inst):
        p = Als.setup(self, ex, state, inst)
        cap = SMaxRank('max_rank')
        p.update({'threshold': SNum('threshold', nonneg=z3.BoolVal(True)), 'max_rank': cap})
        return p

    def domain_extra(self, S):
        mr = S.a.get('max_rank', INF)
        if isinstance(mr, SMaxRank):
            yield 'max_rank>=1', z3.Or(mr.is_inf, mr.val >= 1)
        elif not isinstance(mr, SInf):
            yield 'max_rank>=1', zi(mr) >= 1

    def requires(self, S):
        yield from Als.requires(self, S)
        # two-site scheme (for order 1 both sweeps are empty and the guess is returned)
        yield 'order>=2', zi(S.a['operator'].order) >= 2

    def ensures(self, S, res):
        g0, rhs0 = S.o['initial_guess'], S.o['right_hand_side']
        d = zi(g0.order)
        yield 'returns-TT', isinstance(res, STT)
        if not isinstance(res, STT):
            return
        yield 'wf(result)', wf(res)
        yield 'result-object-and-lists-fresh', meta_fresh(res, S.mark0)
        yield 'result-buffers-fresh', cores_fresh(res, S.mark0)
        yield 'order', zi(res.order) == d
        yield 'dims==dims(rhs)', z3.And(same_ints(res.row_dims, rhs0.row_dims, d), same_ints(res.col_dims, rhs0.col_dims, d))
        yield 'interior-ranks<=max_rank-after-a-sweep', z3.Implies(zi(S.o['repeats']) >= 1, FA(1, d, lambda j: cap_ok(lst_get(res.ranks, j), S.o['max_rank'])))
        yield 'boundary-ranks', z3.And(lst_get(res.ranks, 0) == 1, lst_get(res.ranks, d) == 1)

    def canary(self, S, res):
        return lst_get(res.ranks, 0) == 2 if isinstance(res, STT) else None

    def common(self, V):
        sol, op, g0 = V['solution'], V.old('operator'), V.old('initial_guess')
        d = zi(op.order)
        yield 'solution-identity', z3.And(meta_fresh(sol, V.mark0), lists_distinct(sol), zi(sol.order) == d, zi(sol.cores.length) == d,
                                          zi(sol.ranks.length) == d + 1, zi(sol.row_dims.length) == d, zi(sol.col_dims.length) == d)
        yield 'solution-dims', z3.And(same_ints(sol.row_dims, g0.row_dims, d), FA(0, d, lambda j: lst_get(sol.col_dims, j) == 1))
        yield 'ranks>=1', FA(0, d + 1, lambda j: lst_get(sol.ranks, j) >= 1)
        yield 'boundary', z3.And(lst_get(sol.ranks, 0) == 1, lst_get(sol.ranks, d) == 1)
        for nm in ('stack_left_op', 'stack_right_op', 'stack_left_rhs', 'stack_right_rhs'):
            yield 'len(%s)' % nm, z3.And(zi(V[nm].length) == d, V[nm].ref >= V.mark0)

    def invariant(self, key, inst):
        me = self

        def fresh_ok(V, sol, d, which):
            return FA(0, d, lambda j: z3.Implies(which(j), lst_get(sol.cores, j).buf >= V.mark0))

        def inv_init(V, i, k):       # right stacks for i = d-1 .. 1
            sol, op, rhs = V['solution'], V.old('operator'), V.old('right_hand_side')
            d = zi(op.order)
            yield from me.common(V)
            yield 'wf(solution)', wf(sol)
            yield 'buffers-fresh', fresh_ok(V, sol, d, lambda j: z3.BoolVal(True))
            yield 'right-stacks', FA(0, d, lambda j: z3.Implies(j > i, z3.And(Rop(V['stack_right_op'], op, sol, j), Rrhs(V['stack_right_rhs'], rhs, sol, j))))

        def inv_while(V, i, k):
            sol, op, rhs = V['solution'], V.old('operator'), V.old('right_hand_side')
            d = zi(op.order)
            it = zi(V['current_iteration'])
            yield from me.common(V)
            yield 'wf(solution)', wf(sol)
            yield 'buffers-fresh', fresh_ok(V, sol, d, lambda j: z3.BoolVal(True))
            yield 'right-stacks', FA(0, d, lambda j: z3.Implies(j >= 1, z3.And(Rop(V['stack_right_op'], op, sol, j), Rrhs(V['stack_right_rhs'], rhs, sol, j))))
            yield 'iteration>=1', it >= 1
            yield 'caps-after-first-sweep', z3.Implies(it >= 2, FA(1, d, lambda j: cap_ok(lst_get(sol.ranks, j), V.old('max_rank'))))

        def inv_fwd(V, i, k):
            # dirty core: i (its leading rank may be stale after the previous two-site step), except at the start
            sol, op, rhs = V['solution'], V.old('operator'), V.old('right_hand_side')
            d = zi(op.order)
            # (the last forward iteration, i = order - 2, only builds the left stacks: the stale core stays order - 2)
            nupd = z3.If(i <= d - 2, i, d - 2)          # two-site steps done so far (at 0 .. nupd - 1); the core after the last one is stale
            stale = lambda j: z3.And(nupd >= 1, j == nupd)  # noqa
            yield from me.common(V)
            yield 'cores', FA(0, d, lambda j: z3.Implies(z3.Not(stale(j)), sol_core_ok(sol, j)))
            yield 'buffers-fresh', fresh_ok(V, sol, d, lambda j: z3.Not(stale(j)))
            yield 'left-stacks', FA(0, d, lambda j: z3.Implies(j < i, z3.And(Lop(V['stack_left_op'], op, sol, j), Lrhs(V['stack_left_rhs'], rhs, sol, j))))
            yield 'right-stacks', FA(0, d, lambda j: z3.Implies(z3.And(j >= 1, j > i), z3.And(Rop(V['stack_right_op'], op, sol, j), Rrhs(V['stack_right_rhs'], rhs, sol, j))))

        def inv_bwd(V, i, k):
            # after the step at i+1 slot i+1 holds the raw micro solution; before the first step core d-2 (or d-1) may be stale
            sol, op, rhs = V['solution'], V.old('operator'), V.old('right_hand_side')
            d = zi(op.order)
            bad = lambda j: z3.If(i == d - 2, z3.And(j == d - 2, d > 2), z3.And(j == i + 1, i >= 0))  # noqa  (the step at i == 0 also finishes core 0)
            yield from me.common(V)
            yield 'cores', FA(0, d, lambda j: z3.Implies(z3.Not(bad(j)), sol_core_ok(sol, j)))
            yield 'buffers-fresh', fresh_ok(V, sol, d, lambda j: z3.Not(bad(j)))
            yield 'left-stacks', FA(0, d, lambda j: z3.Implies(j <= i, z3.And(Lop(V['stack_left_op'], op, sol, j), Lrhs(V['stack_left_rhs'], rhs, sol, j))))
            yield 'right-stacks', FA(0, d, lambda j: z3.Implies(j > i + 1, z3.And(Rop(V['stack_right_op'], op, sol, j), Rrhs(V['stack_right_rhs'], rhs, sol, j))))
            yield 'caps', FA(1, d, lambda j: z3.Implies(j > i + 1, cap_ok(lst_get(sol.ranks, j), V.old('max_rank'))))
        table = {'i in range(operator.order - 1, 0, -1)': inv_init, 'while current_iteration <= repeats': inv_while,
                 'i in range(operator.order - 1)': inv_fwd, 'i in range(operator.order - 2, -1, -1)': inv_bwd}
        return table.get(key)

    loop_ordinals = {0: 'i in range(operator.order - 1, 0, -1)', 1: 'while current_iteration <= repeats', 2: 'i in range(operator.order - 1)',
                     3: 'i in range(operator.order - 2, -1, -1)'}

    def effect(self, ex, state, A, inst, line):
        from vt.e1.contract import mk_fresh_tt
        return mk_fresh_tt(state, 'mals_result')
