"""Differential test of the NumPy/SciPy contract table (assumption A-numpy) against the real NumPy/SciPy.

Every modelled operation is run on random concrete arrays (i) by the real library and (ii) by vt/e1/npmodel.py / calls.py on
the abstract values of the same arrays.  Compared: whether the call is accepted (the model's obligations hold iff NumPy does
not raise), result shape, complexness, view-or-fresh (np.shares_memory vs buffer identity) and - where the model claims it -
contiguity.  Bounded (seeded random cases); reported under C06 as run-time obligations `A-numpy/<operation>`."""
import numpy as np
import z3
from vt.core import Ob, OK, FAIL, ERR
from vt.e1.values import SArr, SList, SNone, NONE, Unsupported, zi
from vt.e1 import npmodel


class _Ctx:
    def __init__(self):
        self.failed = []
        self.muted = False
        self.mark0 = z3.IntVal(0)
        self.model_facts = set()

    def oblige(self, state, kind, line, goal, detail=''):
        g = goal if isinstance(goal, bool) else z3.simplify(goal)
        if g is True or (not isinstance(g, bool) and z3.is_true(g)):
            return
        if g is False or z3.is_false(g):
            self.failed.append(kind)
            return
        # symbolic residue: decide it with the solver under the (concrete) assumptions made so far
        s = z3.Solver()
        for p in state.pc:
            s.add(p)
        s.add(z3.Not(g))
        if s.check() != z3.unsat:
            self.failed.append(kind)


class _State:
    def __init__(self, ctx):
        self.ctx, self.pc, self.n = ctx, [], 1000

    def alloc(self):
        self.n += 1
        return z3.IntVal(self.n)

    def assume(self, b, model=False):
        if not isinstance(b, bool):
            self.pc.append(b)

    def clone(self):
        c = _State(self.ctx)
        c.pc, c.n = list(self.pc), self.n
        return c


class _Ex:
    def __init__(self):
        self.ctx = _Ctx()

    def write_buffer(self, *a, **k):
        pass


def absval(a, buf):
    return SArr(list(a.shape), bool(np.iscomplexobj(a)), buf, bool(a.flags['C_CONTIGUOUS']), kind='int' if a.dtype.kind in 'iu' else 'float')


def conc(t, state=None):
    t = z3.simplify(zi(t))
    if z3.is_int_value(t):
        return t.as_long()
    s = z3.Solver()
    for p in (state.pc if state else []):
        s.add(p)
    if s.check() == z3.sat:
        v = s.model().eval(t, model_completion=True)
        if z3.is_int_value(v):
            return v.as_long()
    return None


def rnd(rng, shape, cplx=False, layout='C'):
    a = rng.standard_normal(shape)
    if cplx:
        a = a + 1j * rng.standard_normal(shape)
    if layout == 'T' and a.ndim >= 2:
        a = np.ascontiguousarray(np.moveaxis(a, 0, -1))
        a = np.moveaxis(a, -1, 0)          # same values, not C-contiguous
    return a


def compare(name, case, real_fn, model_fn, operands, check_alias=True):
    """operands: list of numpy arrays handed to both sides (abstract values get buffer ids 1, 2, ...)"""
    ex = _Ex()
    st = _State(ex.ctx)
    abst = [absval(a, k + 1) for k, a in enumerate(operands)]
    try:
        real = real_fn(*operands)
        real_ok = True
    except Exception as e:      # noqa
        real, real_ok = e, False
    try:
        mod = model_fn(ex, st, *abst)
        mod_ok = not ex.ctx.failed
    except Unsupported as e:
        return Ob('C06/A-numpy/%s' % name, 'T3', OK, sig=name, detail='outside the modelled subset: %s' % e, case=case, nontrivial=False)
    if real_ok != mod_ok:
        return Ob('C06/A-numpy/%s' % name, 'T3', FAIL, sig=name, case=case,
                  detail='NumPy %s but the model %s (obligations failed: %s)' % ('accepts' if real_ok else 'raises %r' % real, 'accepts' if mod_ok else 'rejects', ex.ctx.failed))
    if not real_ok:
        return Ob('C06/A-numpy/%s' % name, 'T3', OK, sig=name, detail='both reject', case=case)
    reals = real if isinstance(real, tuple) else (real,)
    mods = mod if isinstance(mod, (tuple, list)) else (mod.items if isinstance(mod, SList) else (mod,))
    bad = []
    for r, m in zip(reals, mods):
        if not isinstance(r, np.ndarray) or not isinstance(m, SArr):
            continue
        shp = [conc(x, st) for x in m.shape]
        if list(r.shape) != shp:
            bad.append('shape %s vs model %s' % (list(r.shape), shp))
        cx = z3.simplify(m.cplx)
        if z3.is_true(cx) != bool(np.iscomplexobj(r)) and (z3.is_true(cx) or z3.is_false(cx)) and r.dtype.kind in 'fc':
            bad.append('complex %s vs model %s' % (np.iscomplexobj(r), cx))
        if check_alias:
            b = conc(m.buf, st)
            for k, a in enumerate(operands):
                if not (r.size and a.size):
                    continue          # empty arrays share nothing; aliasing is immaterial
                shares = bool(np.shares_memory(r, a))
                if b is not None and (b == k + 1) != shares and not (b is not None and b > 1000 and not shares):
                    bad.append('aliasing with operand %d: numpy %s, model buffer %s' % (k, shares, b))
        ct = z3.simplify(m.contig)
        if z3.is_true(ct) and not r.flags['C_CONTIGUOUS'] and r.size > 1:
            bad.append('model claims a contiguous result, numpy result is not')
    return Ob('C06/A-numpy/%s' % name, 'T3', FAIL if bad else OK, sig=name, detail='; '.join(bad), case=case)


def run(case):
    rng = np.random.default_rng(1000 + case['k'])
    obs = []
    k = case['k']
    cplx = bool(k % 2)
    lay = 'T' if k % 3 == 0 else 'C'
    d = lambda lo=1, hi=4: int(rng.integers(lo, hi + 1))      # noqa
    # reshape (matching and non-matching sizes), transpose, conj, copy
    a = rnd(rng, (d(), d(), d(), d()), cplx, lay)
    for new in ([a.shape[0] * a.shape[1], a.shape[2] * a.shape[3]], [a.shape[0], a.shape[1] * a.shape[2] * a.shape[3]], [a.shape[0] + 1, -1 + a.shape[1] * a.shape[2] * a.shape[3]]):
        new = [int(x) for x in new]
        if min(new) < 0:
            continue
        obs.append(compare('reshape', case, lambda x, new=new: x.reshape(new), lambda ex, st, x, new=new: npmodel.reshape(ex, st, x, new, 0), [a], check_alias=bool(a.flags['C_CONTIGUOUS'])))
    perm = [int(x) for x in rng.permutation(4)]
    obs.append(compare('transpose', case, lambda x: x.transpose(perm), lambda ex, st, x: npmodel.transpose(ex, st, x, perm, 0), [a]))
    obs.append(compare('conj', case, lambda x: np.conj(x), lambda ex, st, x: npmodel.conj(ex, st, x, 0), [a], check_alias=False))
    obs.append(compare('copy', case, lambda x: x.copy(), lambda ex, st, x: npmodel.copy(ex, st, x, 0), [a]))
    # basic indexing: the idioms of the library
    sl = ('slice', None, None, None)
    obs.append(compare('getitem[:, :, 0, :]', case, lambda x: x[:, :, 0, :], lambda ex, st, x: npmodel.getitem(ex, st, x, (sl, sl, 0, sl), 0), [a]))
    j = int(rng.integers(0, a.shape[1] + 1))
    obs.append(compare('getitem[:, j]', case, lambda x: x[:, j], lambda ex, st, x: npmodel.getitem(ex, st, x, (sl, j), 0), [a]))
    hi = int(rng.integers(0, a.shape[0] + 2))
    obs.append(compare('getitem[:hi]', case, lambda x: x[:hi], lambda ex, st, x: npmodel.getitem(ex, st, x, (('slice', None, hi, None),), 0), [a]))
    obs.append(compare('getitem[None, :]', case, lambda x: x[None, :], lambda ex, st, x: npmodel.getitem(ex, st, x, (NONE, sl), 0), [a]))
    # tensordot with matching / non-matching axes
    b = rnd(rng, (a.shape[3] if k % 4 else a.shape[3] + 1, d(), d()), not cplx)
    obs.append(compare('tensordot(3,0)', case, lambda x, y: np.tensordot(x, y, axes=(3, 0)), lambda ex, st, x, y: npmodel.tensordot(ex, st, x, y, (3, 0), 0), [a, b]))
    c = rnd(rng, (a.shape[0], a.shape[2], d()), cplx)
    obs.append(compare('tensordot([0,2],[0,1])', case, lambda x, y: np.tensordot(x, y, axes=([0, 2], [0, 1])),
                       lambda ex, st, x, y: npmodel.tensordot(ex, st, x, y, ([0, 2], [0, 1]), 0), [a, c]))
    # matrices: dot, matmul, einsum, kron, diag
    m1 = rnd(rng, (d(), d()), cplx, lay)
    m2 = rnd(rng, (m1.shape[1] if k % 5 else m1.shape[1] + 1, d()), False)
    obs.append(compare('dot', case, lambda x, y: x.dot(y), lambda ex, st, x, y: npmodel.dot(ex, st, x, y, 0), [m1, m2]))
    obs.append(compare('matmul', case, lambda x, y: x @ y, lambda ex, st, x, y: npmodel.matmul(ex, st, x, y, 0), [m1, m2]))
    obs.append(compare('einsum(ij,jk->ik)', case, lambda x, y: np.einsum('ij,jk->ik', x, y), lambda ex, st, x, y: npmodel.einsum(ex, st, 'ij,jk->ik', [x, y], 0), [m1, m2]))
    t3 = rnd(rng, (d(), m1.shape[1], d()), cplx)
    obs.append(compare('einsum(ijk,lj->ilk)', case, lambda x, y: np.einsum('ijk, lj -> ilk', x, y), lambda ex, st, x, y: npmodel.einsum(ex, st, 'ijk, lj -> ilk', [x, y], 0), [t3, m1]))
    v = rnd(rng, (d(1, 5),), cplx)
    obs.append(compare('diag(vector)', case, lambda x: np.diag(x), lambda ex, st, x: npmodel.diag(ex, st, x, 0), [v], check_alias=False))
    # LAPACK shapes: svd (thin and full), qr / rq (economic)
    from scipy import linalg
    obs.append(compare('svd(thin)', case, lambda x: linalg.svd(x, full_matrices=False), lambda ex, st, x: npmodel.svd(ex, st, x, False, False, 0), [m1.copy()], check_alias=False))
    obs.append(compare('svd(full)', case, lambda x: linalg.svd(x), lambda ex, st, x: npmodel.svd(ex, st, x, True, False, 0), [m1.copy()], check_alias=False))
    from vt.e1 import calls
    obs.append(compare('qr(economic)', case, lambda x: linalg.qr(x, mode='economic'), lambda ex, st, x: calls.qr_rq(ex, st, 'qr', x, {'mode': 'economic'}, 0), [m1.copy()], check_alias=False))
    obs.append(compare('rq(economic)', case, lambda x: linalg.rq(x, mode='economic'), lambda ex, st, x: calls.qr_rq(ex, st, 'rq', x, {'mode': 'economic'}, 0), [m1.copy()], check_alias=False))
    # least squares (solution shape), reshape with a free axis, three-operand einsum with a broadcast (1, 1) operand
    mt = rnd(rng, (d(), d()), False, lay)
    bv = rnd(rng, (mt.shape[0] if k % 4 else mt.shape[0] + 1,), False)
    obs.append(compare('lstsq(matrix, vector)', case, lambda x, y: linalg.lstsq(x, y, cond=1e-12, lapack_driver='gelss')[0],
                       lambda ex, st, x, y: calls.modfunc(ex, st, 'lin', 'lstsq', [x, y], {}, 0).items[0], [mt.copy(), bv], check_alias=False))
    bm = rnd(rng, (mt.shape[0], d()), False)
    obs.append(compare('lstsq(matrix, matrix)', case, lambda x, y: linalg.lstsq(x, y)[0],
                       lambda ex, st, x, y: calls.modfunc(ex, st, 'lin', 'lstsq', [x, y], {}, 0).items[0], [mt.copy(), bm], check_alias=False))
    last = int(a.shape[3])
    obs.append(compare('reshape(-1, n)', case, lambda x: x.reshape(-1, last), lambda ex, st, x: npmodel.reshape(ex, st, x, [-1, last], 0), [a], check_alias=bool(a.flags['C_CONTIGUOUS'])))
    first = int(a.shape[0])
    obs.append(compare('reshape(n, -1)', case, lambda x: x.reshape(first, -1), lambda ex, st, x: npmodel.reshape(ex, st, x, [first, -1], 0), [a], check_alias=bool(a.flags['C_CONTIGUOUS'])))
    one = np.array([1], ndmin=2)
    bas = rnd(rng, (d(), d(1, 5)), False)
    cor = rnd(rng, (1, bas.shape[0], d()), False)
    obs.append(compare('einsum(ij,kj,ikl->lj) broadcast', case, lambda x, y, z: np.einsum('ij, kj, ikl -> lj', x, y, z),
                       lambda ex, st, x, y, z: npmodel.einsum(ex, st, 'ij, kj, ikl -> lj', [x, y, z], 0), [one, bas, cor], check_alias=False))
    sl_ = rnd(rng, (d(), bas.shape[1]), False)
    sr_ = rnd(rng, (d(), bas.shape[1] if k % 3 else bas.shape[1] + 1), False)
    obs.append(compare('einsum(ij,kj,lj->iklj)', case, lambda x, y, z: np.einsum('ij,kj,lj->iklj', x, y, z),
                       lambda ex, st, x, y, z: npmodel.einsum(ex, st, 'ij,kj,lj->iklj', [x, y, z], 0), [sl_, bas, sr_], check_alias=False))
    # reshape to a shape list / transpose by an axes list, both handled as lists of symbolic length (TT.full)
    dd = d(1, 3)
    rdm, cdm = [d(1, 3) for _ in range(dd)], [d(1, 3) for _ in range(dd)]
    flat = rnd(rng, (int(np.prod(rdm)) * int(np.prod(cdm)), 1), cplx)
    pl = [None] * 2 * dd
    pl[::2] = rdm
    pl[1::2] = cdm
    if k % 7 == 0:
        pl[0] += 1          # wrong size: both must reject
    ql = [2 * i for i in range(dd)] + [1 + 2 * i for i in range(dd)]
    if k % 5 == 0 and dd > 1:
        ql[0] = ql[1]       # repeated axis: both must reject
    ex, st = _Ex(), None
    st = _State(ex.ctx)
    try:
        real = flat.reshape(pl).transpose(ql)
        real_ok = True
    except Exception as e_:     # noqa
        real, real_ok = e_, False
    mk = lambda L: SList(st.alloc(), z3.IntVal(len(L)), fn=lambda j, L=L: _pick(L, j), kind='int')      # noqa
    try:
        mod = calls.reshape_to_symbolic_rank(ex, st, absval(flat, 1), mk(pl), 0)
        mod = calls.transpose_symbolic_rank(ex, st, mod, mk(ql), 0, True)
        mod_ok = not ex.ctx.failed
    except Unsupported as e_:
        mod, mod_ok = None, None
    nm = 'C06/A-numpy/reshape(list).transpose(list)'
    if mod_ok is None:
        obs.append(Ob(nm, 'T3', OK, sig='reshape-transpose-n', detail='outside the modelled subset', case=case, nontrivial=False))
    elif real_ok != mod_ok:
        obs.append(Ob(nm, 'T3', FAIL, sig='reshape-transpose-n', case=case, detail='NumPy %s, model %s (%s)' % ('accepts' if real_ok else 'raises %r' % real, 'accepts' if mod_ok else 'rejects', ex.ctx.failed)))
    elif not real_ok:
        obs.append(Ob(nm, 'T3', OK, sig='reshape-transpose-n', detail='both reject', case=case))
    else:
        shp = [conc(mod.shape.fn(z3.IntVal(j)), st) for j in range(2 * dd)]
        bad = [] if (shp == list(real.shape) and conc(mod.ndim, st) == real.ndim and conc(mod.size, st) == real.size) else ['shape %s vs model %s' % (list(real.shape), shp)]
        obs.append(Ob(nm, 'T3', FAIL if bad else OK, sig='reshape-transpose-n', detail='; '.join(bad), case=case))
    return obs


def _pick(L, j):
    j = z3.simplify(zi(j))
    if z3.is_int_value(j):
        return z3.IntVal(L[j.as_long()]) if 0 <= j.as_long() < len(L) else z3.IntVal(0)
    r = z3.IntVal(L[-1])
    for q in range(len(L) - 2, -1, -1):
        r = z3.If(j == q, z3.IntVal(L[q]), r)
    return r


def tasks(tier, seed):
    n = 24 if tier == 'quick' else 200
    return [('vt.e1.nptest', 'run', {'backend': 'T3', 'k': seed * 1000 + k}) for k in range(n)]
