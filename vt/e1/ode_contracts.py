"""Sidecar contracts for the TDVP part of scikit_tt/solvers/ode.py (structural part: E1) - C11 (every environment read is
defined, trajectory length, head identity), C06 (operator and initial state unwritten, states fresh)."""
import z3
from vt.e1.values import (SArr, SList, STT, SNum, SMaxRank, SInf, INF, SNone, NONE, SOpt, Unsupported, fresh, zi, zb)
from vt.e1.symexec import FA, sym_elem_fn
from vt.e1.contract import (Contract, wf, positive_dims, lists_distinct, cores_fresh, meta_fresh, same_ints, lst_get, mk_tt,
                            mk_int_list, core_shape_ok)
from vt.e1.tt_contracts import boundary_one
from vt.e1.sle_contracts import (mk_solution, mk_stack, sol_core_ok, Lop, Rop, square, _Helper, cap_ok)

REG = {}
FILE = 'scikit_tt/solvers/ode.py'


def register(c):
    inst = c()
    REG[inst.name] = inst
    return c


def admissible(sol, d):
    """r_j <= n_j * r_{j+1}: the RQ step of the backward sweep keeps the leading rank (the code reshapes with the old one)"""
    return FA(0, d, lambda j: lst_get(sol.ranks, j) <= lst_get(sol.row_dims, j) * lst_get(sol.ranks, j + 1))


@register
class UpdateCoreTdvp(_Helper):
    name, func, file = 'fn:__update_core_tdvp', '__update_core_tdvp', FILE
    props = ('C11', 'C06')

    def instances(self):
        return [{'direction': 'forward'}, {'direction': 'backward'}]

    def call_inst(self, A):
        if not isinstance(A['direction'], str):
            raise Unsupported('symbolic direction')
        return {'direction': A['direction']}

    def modifies(self, S):
        sol = S.o['solution']
        return [sol.cores.ref, sol.ranks.ref], []

    def mutated(self, A):
        return [A['solution'].cores, A['solution'].ranks]

    def setup(self, ex, state, inst):
        op, sol, i = self.base(ex, state)
        d = zi(op.order)
        N = lst_get(sol.ranks, i) * lst_get(sol.row_dims, i) * lst_get(sol.ranks, i + 1)
        mo = SArr([N, N], fresh('mocx', 'bool'), fresh('mobuf'), True)
        return {'i': i, 'micro_op': mo, 'solution': sol, 'step_size': SNum('step_size'), 'direction': inst['direction']}

    def requires(self, S):
        sol, i, mo = S.a['solution'], zi(S.a['i']), S.a['micro_op']
        d = zi(sol.order)
        N = lst_get(sol.ranks, i) * lst_get(sol.row_dims, i) * lst_get(sol.ranks, i + 1)
        yield 'i-in-range', z3.And(i >= 0, i < d)
        yield 'micro-matrix-shape', z3.And(mo.shape[0] == N, mo.shape[1] == N)
        yield 'core-i', sol_core_ok(sol, i)
        yield 'working-buffers-owned', z3.And(mo.buf >= S.state.ctx.mark0, FA(0, d, lambda j: lst_get(sol.cores, j).buf >= S.state.ctx.mark0))
        if S.inst['direction'] == 'forward':
            yield 'next-core', z3.Implies(i < d - 1, sol_core_ok(sol, i + 1))
        else:
            yield 'previous-core', z3.Implies(i > 0, sol_core_ok(sol, i - 1))

    def ensures(self, S, res):
        sol, sol0, i = S.a['solution'], S.o['solution'], zi(S.o['i'])
        d = zi(sol0.order)
        fwd = S.inst['direction'] == 'forward'
        yield 'lists-kept', z3.And(sol.cores.ref == sol0.cores.ref, sol.ranks.ref == sol0.ranks.ref, zi(sol.cores.length) == d, zi(sol.ranks.length) == d + 1)
        yield 'core-i', z3.And(sol_core_ok(sol, i), lst_get(sol.cores, i).buf >= S.mark0)
        if fwd:
            yield 'next-core', z3.Implies(i < d - 1, z3.And(sol_core_ok(sol, i + 1), lst_get(sol.cores, i + 1).buf >= S.mark0))
            yield 'ranks', z3.And(FA(0, d + 1, lambda j: z3.Implies(j != i + 1, lst_get(sol.ranks, j) == lst_get(sol0.ranks, j))),
                                  lst_get(sol.ranks, i + 1) <= lst_get(sol0.ranks, i + 1), lst_get(sol.ranks, i + 1) >= 1)
            touched = lambda j: z3.Or(j == i, z3.And(j == i + 1, i < d - 1))  # noqa
        else:
            yield 'previous-core', z3.Implies(i > 0, z3.And(sol_core_ok(sol, i - 1), lst_get(sol.cores, i - 1).buf >= S.mark0))
            yield 'ranks', z3.And(FA(0, d + 1, lambda j: z3.Implies(z3.Or(j != i, i == 0), lst_get(sol.ranks, j) == lst_get(sol0.ranks, j))),
                                  lst_get(sol.ranks, i) <= lst_get(sol0.ranks, i), lst_get(sol.ranks, i) >= 1)
            touched = lambda j: z3.Or(j == i, z3.And(j == i - 1, i > 0))  # noqa
        yield 'other-cores-unchanged', FA(0, d, lambda j: z3.Implies(z3.Not(touched(j)), z3.And(
            lst_get(sol.cores, j).buf == lst_get(sol0.cores, j).buf, zi(lst_get(sol.cores, j).ndim) == zi(lst_get(sol0.cores, j).ndim),
            *[a == b for a, b in zip(lst_get(sol.cores, j).shape, lst_get(sol0.cores, j).shape)])))

    def canary(self, S, res):
        return lst_get(S.a['solution'].ranks, zi(S.o['i'])) == lst_get(S.o['solution'].ranks, zi(S.o['i'])) + 1

    def effect(self, ex, state, A, inst, line):
        sol, i = A['solution'], zi(A['i'])
        d = zi(sol.order)
        mk = lambda: SArr([fresh('c%d' % q) for q in range(4)], fresh('ccx', 'bool'), state.alloc(), True, ndim=fresh('cnd'))  # noqa
        if inst['direction'] == 'forward':
            sol.ranks.set(z3.If(i < d - 1, i + 1, d + 1 + 7), fresh('newrank')) if False else None
            old_r = sol.ranks.snapshot()
            old_r.to_fn()
            nr = fresh('newrank')
            f = old_r.fn
            sol.ranks.items, sol.ranks.length = None, d + 1
            sol.ranks.fn = lambda j: z3.If(z3.And(j == i + 1, i < d - 1), nr, f(j))
            oc = sol.cores.snapshot()
            oc.to_fn()
            g = oc.fn
            a, b = mk(), mk()
            from vt.e1.values import arr_ite
            sol.cores.items, sol.cores.length = None, d
            sol.cores.fn = lambda j: arr_ite(j == i, a, arr_ite(z3.And(j == i + 1, i < d - 1), b, g(j)))
        else:
            old_r = sol.ranks.snapshot()
            old_r.to_fn()
            nr = fresh('newrank')
            f = old_r.fn
            sol.ranks.items, sol.ranks.length = None, d + 1
            sol.ranks.fn = lambda j: z3.If(z3.And(j == i, i > 0), nr, f(j))
            oc = sol.cores.snapshot()
            oc.to_fn()
            g = oc.fn
            a, b = mk(), mk()
            from vt.e1.values import arr_ite
            sol.cores.items, sol.cores.length = None, d
            sol.cores.fn = lambda j: arr_ite(j == i, a, arr_ite(z3.And(j == i - 1, i > 0), b, g(j)))
        return NONE


class _TdvpDriver(Contract):
    file, cls = FILE, None
    props = ('C11', 'C06')
    list_kinds = {'stack_left_op': 'optarr3', 'stack_right_op': 'optarr3', 'solution': 'ttref'}
    heap_guard = False      # the TDVP drivers only append copies to the trajectory and never read a state back

    def base_setup(self, ex, state):
        m0 = ex.ctx.mark0
        op = mk_tt(state, 'operator', m0)
        init = mk_tt(state, 'initial_value', m0, order=op.order)
        return {'operator': op, 'initial_value': init, 'step_size': SNum('step_size'), 'number_of_steps': fresh('number_of_steps')}

    def requires(self, S):
        op, x = S.a['operator'], S.a['initial_value']
        d = zi(op.order)
        yield 'orders-equal', zi(x.order) == d
        yield 'square-operator', square(op)
        yield 'dims-match', z3.And(same_ints(x.row_dims, op.col_dims, d), FA(0, d, lambda j: lst_get(x.col_dims, j) == 1))
        yield 'boundary-ranks-1', z3.And(boundary_one(op), boundary_one(x))
        yield 'steps>=0', zi(S.a['number_of_steps']) >= 0

    def ensures(self, S, res):
        x0 = S.o['initial_value']
        ok = isinstance(res, SList)
        yield 'returns-list', ok
        if ok:
            n = zi(S.o['number_of_steps'])
            yield 'length==steps+1', zi(res.length) == n + 1
            yield 'head-is-initial-value', lst_get(res, 0) == x0.ref
            yield 'later-states-are-fresh-objects', FA(1, n + 1, lambda j: lst_get(res, j) >= S.mark0)
            j1, j2 = fresh('j1'), fresh('j2')
            yield 'states-pairwise-distinct-objects', z3.ForAll([j1, j2], z3.Implies(z3.And(0 <= j1, j1 < j2, j2 <= n), lst_get(res, j1) != lst_get(res, j2)))
            yield 'list-fresh', res.ref >= S.mark0

    def canary(self, S, res):
        return zi(res.length) == zi(S.o['number_of_steps']) if isinstance(res, SList) else None

    def common(self, V):
        tmp, op, x0 = V['tmp'], V.old('operator'), V.old('initial_value')
        d = zi(op.order)
        yield 'tmp-identity', z3.And(meta_fresh(tmp, V.mark0), lists_distinct(tmp), zi(tmp.order) == d)
        yield 'wf(tmp)', wf(tmp)
        yield 'tmp-dims', z3.And(same_ints(tmp.row_dims, x0.row_dims, d), FA(0, d, lambda j: lst_get(tmp.col_dims, j) == 1))
        yield 'ranks', FA(0, d + 1, lambda j: z3.And(lst_get(tmp.ranks, j) >= 1, lst_get(tmp.ranks, j) <= lst_get(x0.ranks, j)))
        yield 'boundary', z3.And(lst_get(tmp.ranks, 0) == 1, lst_get(tmp.ranks, d) == 1)
        yield 'buffers-fresh', cores_fresh(tmp, V.mark0)
        for nm in ('stack_left_op', 'stack_right_op'):
            yield 'len(%s)' % nm, z3.And(zi(V[nm].length) == d, V[nm].ref >= V.mark0)


@register
class Tdvp1Site(_TdvpDriver):
    name, func = 'fn:tdvp1site', 'tdvp1site'

    def defaults(self):
        return {'normalize': 0}

    def setup(self, ex, state, inst):
        p = self.base_setup(ex, state)
        p['normalize'] = 0
        return p

    def invariant(self, key, inst):
        me = self

        def sol_list(V):
            sol, x0 = V['solution'], V.old('initial_value')
            it = zi(V['current_iteration'])
            yield 'trajectory', z3.And(zi(sol.length) == it, sol.ref >= V.mark0, lst_get(sol, 0) == x0.ref, it >= 1, it <= zi(V.old('number_of_steps')) + 1,
                                       FA(1, it, lambda j: lst_get(sol, j) >= V.mark0))
            j1, j2 = fresh('j1'), fresh('j2')
            yield 'distinct', z3.And(z3.ForAll([j1, j2], z3.Implies(z3.And(0 <= j1, j1 < j2, j2 < it), lst_get(sol, j1) != lst_get(sol, j2))),
                                     FA(0, it, lambda j: z3.And(lst_get(sol, j) < V.state.mark, lst_get(sol, j) != V['tmp'].ref)), V['tmp'].ref < V.state.mark)

        def inv_init(V, i, k):
            tmp, op = V['tmp'], V.old('operator')
            d = zi(op.order)
            yield from me.common(V)
            yield 'right-stacks', FA(0, d, lambda j: z3.Implies(j > i, Rop(V['stack_right_op'], op, tmp, j)))

        def inv_while(V, i, k):
            tmp, op = V['tmp'], V.old('operator')
            d = zi(op.order)
            yield from me.common(V)
            yield from sol_list(V)
            yield 'right-stacks', FA(0, d, lambda j: Rop(V['stack_right_op'], op, tmp, j))

        def inv_fwd(V, i, k):
            tmp, op = V['tmp'], V.old('operator')
            d = zi(op.order)
            yield from me.common(V)
            yield 'left-stacks', FA(0, d, lambda j: z3.Implies(j < i, Lop(V['stack_left_op'], op, tmp, j)))
            yield 'right-stacks', FA(0, d, lambda j: z3.Implies(j >= i, Rop(V['stack_right_op'], op, tmp, j)))

        def inv_bwd(V, i, k):
            tmp, op = V['tmp'], V.old('operator')
            d = zi(op.order)
            yield from me.common(V)
            yield 'left-stacks', FA(0, d, lambda j: z3.Implies(j <= i, Lop(V['stack_left_op'], op, tmp, j)))
            yield 'right-stacks', FA(0, d, lambda j: z3.Implies(j > i, Rop(V['stack_right_op'], op, tmp, j)))
        table = {'i in range(operator.order - 1, -1, -1)#0': inv_init, 'while current_iteration <= number_of_steps': inv_while,
                 'i in range(operator.order)': inv_fwd, 'i in range(operator.order - 1, -1, -1)#3': inv_bwd}
        return table.get(key)

    loop_ordinals = {0: 'i in range(operator.order - 1, -1, -1)#0', 1: 'while current_iteration <= number_of_steps', 2: 'i in range(operator.order)',
                     3: 'i in range(operator.order - 1, -1, -1)#3'}


@register
class UpdateCoreTdvp2Site(_Helper):
    name, func, file = 'fn:__update_core_tdvp2site', '__update_core_tdvp2site', FILE
    props = ('C11', 'C06')

    def instances(self):
        return [{'direction': 'forward'}, {'direction': 'backward'}]

    def call_inst(self, A):
        if not isinstance(A['direction'], str):
            raise Unsupported('symbolic direction')
        return {'direction': A['direction']}

    def modifies(self, S):
        sol = S.o['solution']
        return [sol.cores.ref, sol.ranks.ref], []

    def mutated(self, A):
        return [A['solution'].cores, A['solution'].ranks]

    def setup(self, ex, state, inst):
        op, sol, i = self.base(ex, state)
        d = zi(op.order)
        N = lst_get(sol.ranks, i) * lst_get(sol.row_dims, i) * lst_get(sol.row_dims, i + 1) * lst_get(sol.ranks, i + 2)
        mo = SArr([N, N], fresh('mocx', 'bool'), fresh('mobuf'), True)
        cap = SMaxRank('max_rank')
        return {'i': i, 'micro_op': mo, 'solution': sol, 'step_size': SNum('step_size'), 'threshold': SNum('threshold', nonneg=z3.BoolVal(True)),
                'max_rank': cap, 'direction': inst['direction']}

    def requires(self, S):
        sol, i, mo = S.a['solution'], zi(S.a['i']), S.a['micro_op']
        d = zi(sol.order)
        N = lst_get(sol.ranks, i) * lst_get(sol.row_dims, i) * lst_get(sol.row_dims, i + 1) * lst_get(sol.ranks, i + 2)
        yield 'i-in-range', z3.And(i >= 0, i < d - 1)
        yield 'micro-matrix-shape', z3.And(mo.shape[0] == N, mo.shape[1] == N)
        yield 'cores-i,i+1', z3.And(sol_core_ok(sol, i), sol_core_ok(sol, i + 1))
        yield 'working-buffers-owned', z3.And(mo.buf >= S.state.ctx.mark0, FA(0, d, lambda j: lst_get(sol.cores, j).buf >= S.state.ctx.mark0))

    def ensures(self, S, res):
        sol, sol0, i = S.a['solution'], S.o['solution'], zi(S.o['i'])
        d = zi(sol0.order)
        yield 'lists-kept', z3.And(sol.cores.ref == sol0.cores.ref, sol.ranks.ref == sol0.ranks.ref, zi(sol.cores.length) == d, zi(sol.ranks.length) == d + 1)
        yield 'cores-i,i+1', z3.And(sol_core_ok(sol, i), sol_core_ok(sol, i + 1), lst_get(sol.cores, i).buf >= S.mark0, lst_get(sol.cores, i + 1).buf >= S.mark0)
        yield 'ranks', z3.And(FA(0, d + 1, lambda j: z3.Implies(j != i + 1, lst_get(sol.ranks, j) == lst_get(sol0.ranks, j))),
                              lst_get(sol.ranks, i + 1) >= 1, cap_ok(lst_get(sol.ranks, i + 1), S.o['max_rank']))
        yield 'other-cores-unchanged', FA(0, d, lambda j: z3.Implies(z3.Not(z3.Or(j == i, j == i + 1)), z3.And(
            lst_get(sol.cores, j).buf == lst_get(sol0.cores, j).buf, zi(lst_get(sol.cores, j).ndim) == zi(lst_get(sol0.cores, j).ndim),
            *[a == b for a, b in zip(lst_get(sol.cores, j).shape, lst_get(sol0.cores, j).shape)])))

    def canary(self, S, res):
        return lst_get(S.a['solution'].ranks, zi(S.o['i'])) == lst_get(S.o['solution'].ranks, zi(S.o['i'])) + 1

    def effect(self, ex, state, A, inst, line):
        sol, i = A['solution'], zi(A['i'])
        mk = lambda: SArr([fresh('c%d' % q) for q in range(4)], fresh('ccx', 'bool'), state.alloc(), True, ndim=fresh('cnd'))  # noqa
        sol.ranks.set(i + 1, fresh('newrank'))
        sol.cores.set(i, mk())
        sol.cores.set(i + 1, mk())
        return NONE


class _Tdvp2Common(_TdvpDriver):
    def domain_extra(self, S):
        mr = S.a.get('max_rank')
        if isinstance(mr, SMaxRank):
            yield 'max_rank>=1', z3.Or(mr.is_inf, mr.val >= 1)
        elif mr is not None and not isinstance(mr, SInf):
            yield 'max_rank>=1', zi(mr) >= 1

    def defaults(self):
        return {'threshold': SNum('thr', nonzero=z3.BoolVal(True), nonneg=z3.BoolVal(True)), 'max_rank': 50, 'normalize': 0}

    def setup(self, ex, state, inst):
        p = self.base_setup(ex, state)
        cap = SMaxRank('max_rank')
        p.update({'threshold': SNum('threshold', nonneg=z3.BoolVal(True)), 'max_rank': cap, 'normalize': 0})
        return p

    def common(self, V):
        tmp, op, x0 = V['tmp'], V.old('operator'), V.old('initial_value')
        d = zi(op.order)
        yield 'tmp-identity', z3.And(meta_fresh(tmp, V.mark0), lists_distinct(tmp), zi(tmp.order) == d)
        yield 'wf(tmp)', wf(tmp)
        yield 'tmp-dims', z3.And(same_ints(tmp.row_dims, x0.row_dims, d), FA(0, d, lambda j: lst_get(tmp.col_dims, j) == 1))
        yield 'ranks', FA(0, d + 1, lambda j: lst_get(tmp.ranks, j) >= 1)
        yield 'boundary', z3.And(lst_get(tmp.ranks, 0) == 1, lst_get(tmp.ranks, d) == 1)
        yield 'buffers-fresh', cores_fresh(tmp, V.mark0)
        for nm in ('stack_left_op', 'stack_right_op'):
            yield 'len(%s)' % nm, z3.And(zi(V[nm].length) == d, V[nm].ref >= V.mark0)

    @staticmethod
    def sol_list(V):
        sol, x0 = V['solution'], V.old('initial_value')
        it = zi(V['current_iteration'])
        yield 'trajectory', z3.And(zi(sol.length) == it, sol.ref >= V.mark0, lst_get(sol, 0) == x0.ref, it >= 1, it <= zi(V.old('number_of_steps')) + 1,
                                   FA(1, it, lambda j: lst_get(sol, j) >= V.mark0))
        j1, j2 = fresh('j1'), fresh('j2')
        yield 'distinct', z3.And(z3.ForAll([j1, j2], z3.Implies(z3.And(0 <= j1, j1 < j2, j2 < it), lst_get(sol, j1) != lst_get(sol, j2))),
                                 FA(0, it, lambda j: z3.And(lst_get(sol, j) < V.state.mark, lst_get(sol, j) != V['tmp'].ref)), V['tmp'].ref < V.state.mark)


@register
class Tdvp2Site(_Tdvp2Common):
    name, func = 'fn:tdvp2site', 'tdvp2site'

    def requires(self, S):
        yield from _TdvpDriver.requires(self, S)
        yield 'order>=2', zi(S.a['operator'].order) >= 2

    def invariant(self, key, inst):
        me = self

        def inv_init(V, i, k):
            tmp, op = V['tmp'], V.old('operator')
            d = zi(op.order)
            yield from me.common(V)
            yield 'right-stacks', FA(0, d, lambda j: z3.Implies(j > i, Rop(V['stack_right_op'], op, tmp, j)))

        def inv_while(V, i, k):
            tmp, op = V['tmp'], V.old('operator')
            d = zi(op.order)
            yield from me.common(V)
            yield from me.sol_list(V)
            yield 'right-stacks', FA(1, d, lambda j: Rop(V['stack_right_op'], op, tmp, j))

        def inv_fwd(V, i, k):
            tmp, op = V['tmp'], V.old('operator')
            d = zi(op.order)
            yield from me.common(V)
            yield 'left-stacks', FA(0, d, lambda j: z3.Implies(j < i, Lop(V['stack_left_op'], op, tmp, j)))
            yield 'right-stacks', FA(1, d, lambda j: z3.Implies(j > i, Rop(V['stack_right_op'], op, tmp, j)))

        def inv_bwd(V, i, k):
            tmp, op = V['tmp'], V.old('operator')
            d = zi(op.order)
            yield from me.common(V)
            yield 'left-stacks', FA(0, d, lambda j: z3.Implies(j <= i, Lop(V['stack_left_op'], op, tmp, j)))
            yield 'right-stacks', FA(1, d, lambda j: z3.Implies(j > i + 1, Rop(V['stack_right_op'], op, tmp, j)))
        table = {'i in range(operator.order - 1, 0, -1)': inv_init, 'while current_iteration <= number_of_steps': inv_while,
                 'i in range(operator.order - 1)': inv_fwd, 'i in range(operator.order - 2, -1, -1)': inv_bwd}
        return table.get(key)

    loop_ordinals = {0: 'i in range(operator.order - 1, 0, -1)', 1: 'while current_iteration <= number_of_steps', 2: 'i in range(operator.order - 1)',
                     3: 'i in range(operator.order - 2, -1, -1)'}


@register
class TdvpHybrid(_Tdvp2Common):
    name, func = 'fn:tdvp', 'tdvp'

    def invariant(self, key, inst):
        me = self

        def inv_init(V, i, k):
            tmp, op = V['tmp'], V.old('operator')
            d = zi(op.order)
            yield from me.common(V)
            yield 'right-stacks', FA(0, d, lambda j: z3.Implies(j > i, Rop(V['stack_right_op'], op, tmp, j)))

        def inv_steps(V, i, k):
            tmp, op = V['tmp'], V.old('operator')
            d = zi(op.order)
            yield from me.common(V)
            yield from me.sol_list(V)
            yield 'right-stacks', FA(0, d, lambda j: Rop(V['stack_right_op'], op, tmp, j))

        def inv_fwd(V, _i, k):
            tmp, op = V['tmp'], V.old('operator')
            d = zi(op.order)
            i = zi(V['i'])
            yield from me.common(V)
            yield from me.sol_list(V)
            yield 'i-range', z3.And(i >= 0, i <= d - 1)
            yield 'left-stacks', FA(0, d, lambda j: z3.Implies(j < i, Lop(V['stack_left_op'], op, tmp, j)))
            yield 'right-stacks', FA(0, d, lambda j: z3.Implies(j >= i, Rop(V['stack_right_op'], op, tmp, j)))

        def inv_bwd(V, _i, k):
            tmp, op = V['tmp'], V.old('operator')
            d = zi(op.order)
            i = zi(V['i'])
            yield from me.common(V)
            yield from me.sol_list(V)
            yield 'i-range', z3.And(i >= 0, i <= d - 1)
            yield 'left-stacks', FA(0, d, lambda j: z3.Implies(j <= i, Lop(V['stack_left_op'], op, tmp, j)))
            yield 'right-stacks', FA(0, d, lambda j: z3.Implies(j > i, Rop(V['stack_right_op'], op, tmp, j)))
        table = {'i in range(operator.order - 1, -1, -1)': inv_init, 'while current_iteration <= number_of_steps': inv_steps,
                 'while i < operator.order - 1': inv_fwd, 'while i > 0': inv_bwd}
        return table.get(key)

    loop_ordinals = {0: 'i in range(operator.order - 1, -1, -1)', 1: 'while current_iteration <= number_of_steps', 2: 'while i < operator.order - 1',
                     3: 'while i > 0'}
