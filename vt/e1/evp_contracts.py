"""Sidecar contracts for scikit_tt/solvers/evp.py (structural part: E1) - C08: every environment that is read has been
written for the current cores, the micro matrices are square of the size of the core being solved (the generalized one
of the same size), the eigenvector block reshapes are size-consistent, ranks never grow; C06: operator, operator_gevp and
the initial guess are never written, the returned eigentensors are fresh and do not share cores.
Scope of the verified instances: deflation lists `previous` of length 0, 1 and 2 (a concrete number of deflated tensors -
bounded in that count, unbounded in orders, dimensions and ranks); longer lists are covered by the run-time contracts
(T3) only."""
import z3
from vt.e1.values import (SArr, SList, STT, SObj, SNum, SMaxRank, SInf, INF, SNone, NONE, SOpt, Unsupported, fresh, zi, zb)
from vt.e1.symexec import FA, sym_elem_fn
from vt.e1.contract import (Contract, wf, positive_dims, lists_distinct, cores_fresh, meta_fresh, same_ints, lst_get, mk_tt,
                            mk_int_list, valid, type_domain, core_shape_ok)
from vt.e1.tt_contracts import boundary_one
from vt.e1.sle_contracts import (opt, stack_ok, sol_core_ok, Lop, Rop, square, mk_stack, tag_tt, tag_list, with_roles, roles_ok, merged_ok,
                                  ROLES_OP, ROLES_SOL, ROLES_ENV_OP, ROLES_RHS, ROLES_ENV_RHS)

REG = {}
FILE = 'scikit_tt/solvers/evp.py'


def register(c):
    inst = c()
    REG[inst.name] = inst
    return c


def mk_working_solution(state, d):
    rd = mk_int_list(state, 'sol_rd', d)
    cd = mk_int_list(state, 'sol_cd', d)
    rk = mk_int_list(state, 'sol_rk', d + 1)
    cs = SList(fresh('sol_cores_ref'), d, fn=sym_elem_fn('arr5', state), kind='arr5')
    return STT(fresh('sol_ref'), d, rd, cd, rk, cs)


def block_core_ok(sol, nev):
    """core 0 holds all eigenvectors: shape (r0, n0, 1, r1, number_ev)"""
    c = lst_get(sol.cores, 0)
    return z3.And(zi(c.ndim) == 5, c.shape[0] == lst_get(sol.ranks, 0), c.shape[1] == lst_get(sol.row_dims, 0), c.shape[2] == 1,
                  c.shape[3] == lst_get(sol.ranks, 1), c.shape[4] == zi(nev))


def solution_meta(sol, op):
    d = zi(op.order)
    return z3.And(zi(sol.order) == d, zi(sol.row_dims.len_term()) == d, zi(sol.col_dims.len_term()) == d, zi(sol.ranks.len_term()) == d + 1,
                  zi(sol.cores.len_term()) == d, lists_distinct(sol),
                  FA(0, d, lambda j: z3.And(lst_get(sol.row_dims, j) == lst_get(op.col_dims, j), lst_get(sol.col_dims, j) == 1)),
                  FA(0, d + 1, lambda j: lst_get(sol.ranks, j) >= 1), lst_get(sol.ranks, 0) == 1, lst_get(sol.ranks, d) == 1)


def gevp_like(g, op):
    d = zi(op.order)
    return z3.And(zi(g.order) == d, same_ints(g.row_dims, op.row_dims, d), same_ints(g.col_dims, op.col_dims, d), boundary_one(g))


def PL(stl, prev, sol, j):
    """left deflation environment j: <prev| ... |solution> over the cores 0..j-1, (rank of prev) x (rank of the solution)"""
    return stack_ok(stl, j, [lst_get(prev.ranks, j), lst_get(sol.ranks, j)])


def PR(stl, prev, sol, j):
    return stack_ok(stl, j, [lst_get(prev.ranks, j + 1), lst_get(sol.ranks, j + 1)])


def prev_like(p, op):
    """a deflated eigentensor: a vector on the operator's column dimensions"""
    d = zi(op.order)
    return z3.And(zi(p.order) == d, same_ints(p.row_dims, op.col_dims, d), FA(0, d, lambda j: lst_get(p.col_dims, j) == 1), boundary_one(p))


def prevs(tr):
    pv = tr.f.get('previous')
    if not (isinstance(pv, SList) and pv.items is not None and len(pv.items) <= 2 and all(isinstance(x, STT) for x in pv.items)):
        raise Unsupported('evp helper with a deflation list that is not a list of at most two tensor trains (longer lists: run-time contracts only)')
    return list(pv.items)


def prev_stacks(st, side, n):
    l = st.f.get('previous_' + side)
    if not (isinstance(l, SList) and l.items is not None and len(l.items) == n and all(isinstance(x, SList) for x in l.items)):
        raise Unsupported('deflation environments are not one list per deflated tensor')
    return list(l.items)


class _EvpHelper(Contract):
    file, cls = FILE, None
    props = ('C08',)
    auto_valid = False

    def instances(self):
        return [{'gevp': g, 'nprev': n} for n in (0, 1, 2) for g in (False, True)]

    def quick_instances(self):
        return [i for i in self.instances() if i['nprev'] <= 1]

    def call_inst(self, A):
        tr = A['trains']
        return {'gevp': isinstance(tr.f.get('operator_gevp'), STT), 'nprev': len(prevs(tr))}

    def mk_objects(self, ex, state, inst):
        m0 = ex.ctx.mark0
        op = mk_tt(state, 'operator', m0)
        d = zi(op.order)
        g = mk_tt(state, 'operator_gevp', m0, order=op.order) if inst['gevp'] else NONE
        sol = mk_working_solution(state, op.order)
        tag_tt(op, ROLES_OP)
        tag_tt(g, ROLES_OP)
        tag_tt(sol, ROLES_SOL)
        trains, stacks = SObj(fresh('trains_ref')), SObj(fresh('stacks_ref'))
        n = inst.get('nprev', 0)
        pv = [tag_tt(mk_tt(state, 'previous%d' % q, m0, order=op.order), ROLES_RHS) for q in range(n)]
        trains.f = {'operator': op, 'operator_gevp': g, 'solution': sol, 'previous': SList(fresh('prev_ref'), None, items=pv)}
        stacks.f = {'op_left': mk_stack(state, 'op_left', d, 3, m0), 'op_right': mk_stack(state, 'op_right', d, 3, m0),
                    'op_gevp_left': mk_stack(state, 'op_gevp_left', d, 3, m0), 'op_gevp_right': mk_stack(state, 'op_gevp_right', d, 3, m0),
                    'previous_left': SList(fresh('pl_ref'), None, items=[mk_stack(state, 'prev_left%d' % q, d, 2, m0) for q in range(n)]),
                    'previous_right': SList(fresh('pr_ref'), None, items=[mk_stack(state, 'prev_right%d' % q, d, 2, m0) for q in range(n)])}
        return trains, stacks, fresh('i')

    def domain(self, S):
        a, m0 = S.a, S.mark0
        tr, st = a['trains'], a['stacks']
        op, g, sol = tr.f['operator'], tr.f['operator_gevp'], tr.f['solution']
        d = zi(op.order)
        yield from type_domain('operator', op, m0)
        yield 'square-operator', square(op)
        yield 'boundary-ranks-1(operator)', boundary_one(op)
        if isinstance(g, STT):
            yield from type_domain('operator_gevp', g, m0)
            yield 'operator_gevp-like-operator', gevp_like(g, op)
        yield 'solution-metadata', solution_meta(sol, op)
        yield 'i-in-range', z3.And(zi(a['i']) >= 0, zi(a['i']) < d)
        names = ['op_left', 'op_right'] + (['op_gevp_left', 'op_gevp_right'] if isinstance(g, STT) else [])
        pv = prevs(tr)
        pst = prev_stacks(st, 'left', len(pv)) + prev_stacks(st, 'right', len(pv))
        for q, p_ in enumerate(pv):
            yield from type_domain('previous[%d]' % q, p_, m0)
            yield 'previous[%d]-is-a-vector-on-the-column-dimensions' % q, prev_like(p_, op)
        yield 'stack-lengths', z3.And(*[zi(st.f[n].len_term()) == d for n in names], *[zi(l.len_term()) == d for l in pst])
        refs = [st.f[n].ref for n in names] + [l.ref for l in pst] + [sol.cores.ref, sol.ranks.ref, sol.row_dims.ref, sol.col_dims.ref]
        yield 'stacks-distinct-lists', z3.Distinct(*refs)

    def stacks_of(self, S, which):
        st = S['stacks']
        return st.f['op_' + which], st.f['op_gevp_' + which]


class _EvpStackHelper(_EvpHelper):
    side = 'left'

    def setup(self, ex, state, inst):
        trains, stacks, i = self.mk_objects(ex, state, inst)
        return {'i': i, 'trains': trains, 'stacks': stacks}

    def modifies(self, S):
        st, tr = S.o['stacks'], S.o['trains']
        refs = [st.f['op_' + self.side].ref]
        if isinstance(tr.f['operator_gevp'], STT):
            refs.append(st.f['op_gevp_' + self.side].ref)
        refs += [l.ref for l in prev_stacks(st, self.side, len(prevs(tr)))]
        return refs, []

    def mutated(self, A):
        st = A['stacks']
        return [st.f['op_' + self.side], st.f['op_gevp_' + self.side]] + prev_stacks(st, self.side, len(prevs(A['trains'])))

    def prev_slot(self, l, p_, sol, i):
        raise NotImplementedError

    def slot(self, st, op, sol, i):
        raise NotImplementedError

    def ensures(self, S, res):
        tr0, st, st0 = S.o['trains'], S.a['stacks'], S.o['stacks']
        op, g, sol = tr0.f['operator'], tr0.f['operator_gevp'], tr0.f['solution']
        i = zi(S.o['i'])
        d = zi(op.order)
        pairs = [('op_' + self.side, op)] + ([('op_gevp_' + self.side, g)] if isinstance(g, STT) else [])
        for nm, o in pairs:
            l, l0 = st.f[nm], st0.f[nm]
            yield 'len(%s)' % nm, z3.And(zi(l.len_term()) == d, l.ref == l0.ref)
            yield 'slot-i(%s)' % nm, self.slot(l, o, sol, i)
            yield 'other-slots-unchanged(%s)' % nm, FA(0, d, lambda j, l=l, l0=l0: z3.Implies(j != i, _same_entry(lst_get(l, j), lst_get(l0, j))))
            d_, a = opt(lst_get(l, i))
            yield 'slot-buffer-fresh(%s)' % nm, a is not None and a.buf >= S.mark0
            # again an environment of <bra| . |ket>: conjugated cores on the bra legs, plain cores on the ket legs
            yield 'sesquilinear-roles(%s)' % nm, z3.BoolVal(roles_ok(lst_get(l, i), ROLES_ENV_OP))
        pv = prevs(tr0)
        for q, (p_, l, l0) in enumerate(zip(pv, prev_stacks(st, self.side, len(pv)), prev_stacks(st0, self.side, len(pv)))):
            nm = 'previous_%s[%d]' % (self.side, q)
            yield 'len(%s)' % nm, z3.And(zi(l.len_term()) == d, l.ref == l0.ref)
            yield 'slot-i(%s)' % nm, self.prev_slot(l, p_, sol, i)
            yield 'other-slots-unchanged(%s)' % nm, FA(0, d, lambda j, l=l, l0=l0: z3.Implies(j != i, _same_entry(lst_get(l, j), lst_get(l0, j))))
            d_, a = opt(lst_get(l, i))
            yield 'slot-buffer-fresh(%s)' % nm, a is not None and a.buf >= S.mark0
            # <previous| . |solution>: the deflated tensor enters like a right-hand side, the solution conjugated
            yield 'sesquilinear-roles(%s)' % nm, z3.BoolVal(roles_ok(lst_get(l, i), ROLES_ENV_RHS))

    def canary(self, S, res):
        d_, a = opt(lst_get(S.a['stacks'].f['op_' + self.side], zi(S.o['i'])))
        return a.shape[0] == 0 if a is not None else None

    def effect(self, ex, state, A, inst, line):
        st = A['stacks']
        i = zi(A['i'])
        for nm in ['op_' + self.side] + (['op_gevp_' + self.side] if inst['gevp'] else []):
            st.f[nm].set(i, with_roles(SArr([fresh('st') for _ in range(3)], fresh('stcx', 'bool'), state.alloc(), True), ROLES_ENV_OP))
        for l in prev_stacks(st, self.side, len(prevs(A['trains']))):
            l.set(i, with_roles(SArr([fresh('pst') for _ in range(2)], fresh('pstcx', 'bool'), state.alloc(), True), ROLES_ENV_RHS))
        return NONE


def _same_entry(a, b):
    da, va = opt(a)
    db, vb = opt(b)
    if va is None or vb is None:
        return da == db
    return z3.And(da == db, *[x == y for x, y in zip(va.shape, vb.shape)], va.buf == vb.buf)


@register
class ConstructLeftStacks(_EvpStackHelper):
    name, func = 'fn:__construct_left_stacks', '__construct_left_stacks'
    side = 'left'

    def requires(self, S):
        tr, st, i = S.a['trains'], S.a['stacks'], zi(S.a['i'])
        op, g, sol = tr.f['operator'], tr.f['operator_gevp'], tr.f['solution']
        c = [Lop(st.f['op_left'], op, sol, i - 1), sol_core_ok(sol, i - 1)]
        if isinstance(g, STT):
            c.append(Lop(st.f['op_gevp_left'], g, sol, i - 1))
        pv = prevs(tr)
        for p_, l in zip(pv, prev_stacks(st, 'left', len(pv))):
            c += [PL(l, p_, sol, i - 1), core_shape_ok(lst_get(p_.cores, i - 1), lst_get(p_.ranks, i - 1), lst_get(p_.row_dims, i - 1), 1, lst_get(p_.ranks, i))]
        yield 'previous-entry-and-core', z3.Implies(i > 0, z3.And(*c))

    def slot(self, st, op, sol, i):
        return z3.If(i == 0, stack_ok(st, i, [1, 1, 1]), Lop(st, op, sol, i))

    def prev_slot(self, l, p_, sol, i):
        return z3.If(i == 0, stack_ok(l, i, [1, 1]), PL(l, p_, sol, i))


@register
class ConstructRightStacks(_EvpStackHelper):
    name, func = 'fn:__construct_right_stacks', '__construct_right_stacks'
    side = 'right'

    def requires(self, S):
        tr, st, i = S.a['trains'], S.a['stacks'], zi(S.a['i'])
        op, g, sol = tr.f['operator'], tr.f['operator_gevp'], tr.f['solution']
        d = zi(op.order)
        c = [Rop(st.f['op_right'], op, sol, i + 1), sol_core_ok(sol, i + 1)]
        if isinstance(g, STT):
            c.append(Rop(st.f['op_gevp_right'], g, sol, i + 1))
        pv = prevs(tr)
        for p_, l in zip(pv, prev_stacks(st, 'right', len(pv))):
            c.append(PR(l, p_, sol, i + 1))
        yield 'next-entry-and-core', z3.Implies(i < d - 1, z3.And(*c))

    def slot(self, st, op, sol, i):
        return Rop(st, op, sol, i)

    def prev_slot(self, l, p_, sol, i):
        return PR(l, p_, sol, i)


@register
class ConstructMicroMatrices(_EvpHelper):
    name, func = 'fn:__construct_micro_matrices', '__construct_micro_matrices'

    def setup(self, ex, state, inst):
        trains, stacks, i = self.mk_objects(ex, state, inst)
        return {'i': i, 'trains': trains, 'stacks': stacks, 'shift': SNum('shift')}

    def requires(self, S):
        tr, st, i = S.a['trains'], S.a['stacks'], zi(S.a['i'])
        op, g, sol = tr.f['operator'], tr.f['operator_gevp'], tr.f['solution']
        c = [Lop(st.f['op_left'], op, sol, i), Rop(st.f['op_right'], op, sol, i)]
        if isinstance(g, STT):
            c += [Lop(st.f['op_gevp_left'], g, sol, i), Rop(st.f['op_gevp_right'], g, sol, i)]
        pv = prevs(tr)
        for p_, l, r in zip(pv, prev_stacks(st, 'left', len(pv)), prev_stacks(st, 'right', len(pv))):
            c += [PL(l, p_, sol, i), PR(r, p_, sol, i)]
        yield 'environments-defined', z3.And(*c)

    def ensures(self, S, res):
        tr = S.o['trains']
        op, g, sol = tr.f['operator'], tr.f['operator_gevp'], tr.f['solution']
        i = zi(S.o['i'])
        ok = isinstance(res, tuple) and len(res) == 2 and isinstance(res[0], SArr) and len(res[0].shape) == 2
        yield 'returns-(micro_op, micro_op_gevp)', ok
        if not ok:
            return
        n = lst_get(sol.ranks, i) * lst_get(op.row_dims, i) * lst_get(sol.ranks, i + 1)
        yield 'micro_op-square-of-core-size', z3.And(res[0].shape[0] == n, res[0].shape[1] == n, res[0].buf >= S.mark0)
        yield 'sesquilinear-roles(micro_op)', z3.BoolVal(merged_ok(res[0], ('B', 'r', 'B', 'K', 'c', 'K')))
        if isinstance(g, STT) and isinstance(res[1], SArr):
            yield 'sesquilinear-roles(micro_op_gevp)', z3.BoolVal(merged_ok(res[1], ('B', 'r', 'B', 'K', 'c', 'K')))
        if isinstance(g, STT):
            gm = res[1]
            yield 'micro_op_gevp-same-size', isinstance(gm, SArr) and len(gm.shape) == 2 and z3.And(gm.shape[0] == n, gm.shape[1] == n, gm.buf >= S.mark0, gm.buf != res[0].buf)
        else:
            yield 'micro_op_gevp-is-None', isinstance(res[1], SNone)

    def canary(self, S, res):
        return res[0].shape[0] == res[0].shape[1] + 1

    def effect(self, ex, state, A, inst, line):
        mo = SArr([fresh('mm0'), fresh('mm1')], fresh('mmcx', 'bool'), state.alloc(), True)
        gm = SArr([fresh('gm0'), fresh('gm1')], fresh('gmcx', 'bool'), state.alloc(), True) if inst['gevp'] else NONE
        mo.at_call_site = True
        if isinstance(gm, SArr):
            gm.at_call_site = True
        return (mo, gm)


@register
class UpdateCore(Contract):
    """__update_core: solve the micro eigenproblem, keep `number_ev` eigenvectors, store the orthonormal factor as core i
    (forward: rank i+1 may shrink; backward, i > 0: rank i may shrink; backward, i == 0: core 0 becomes the 5-d block of all
    eigenvectors)."""
    name, func, file, cls = 'fn:__update_core', '__update_core', FILE, None
    props = ('C08',)
    auto_valid = False

    def instances(self):
        return [{'solver': s, 'direction': dr, 'gevp': g} for s in ('eig', 'eigs', 'eigh') for dr in ('forward', 'backward') for g in (False, True)]

    def quick_instances(self):
        return [i for i in self.instances() if i['solver'] != 'eigs' or i['gevp']]

    def call_inst(self, A):
        if not isinstance(A['direction'], str) or not isinstance(A['solver'], str):
            raise Unsupported('symbolic direction / solver')
        return {'solver': A['solver'], 'direction': A['direction'], 'gevp': isinstance(A['micro_op_gevp'], SArr)}

    def modifies(self, S):
        sol = S.o['solution']
        fams = [(z3.IntVal(0), z3.IntVal(0), lambda j: S.o['micro_op'].buf)]
        if isinstance(S.o['micro_op_gevp'], SArr):
            fams.append((z3.IntVal(0), z3.IntVal(0), lambda j: S.o['micro_op_gevp'].buf))
        return [sol.cores.ref, sol.ranks.ref], fams

    def mutated(self, A):
        return [A['solution'].cores, A['solution'].ranks]

    def setup(self, ex, state, inst):
        d = fresh('order')
        sol = mk_working_solution(state, d)
        i = fresh('i')
        mo = SArr([fresh('mo0'), fresh('mo1')], fresh('mocx', 'bool'), fresh('mobuf'), True)
        gm = SArr([fresh('gm0'), fresh('gm1')], fresh('gmcx', 'bool'), fresh('gmbuf'), True) if inst['gevp'] else NONE
        return {'i': i, 'micro_op': mo, 'micro_op_gevp': gm, 'number_ev': fresh('number_ev'), 'solution': sol, 'solver': inst['solver'],
                'sigma': SNum('sigma'), 'real': True, 'direction': inst['direction']}

    def domain(self, S):
        a = S.a
        sol, i, mo, gm = a['solution'], zi(a['i']), a['micro_op'], a['micro_op_gevp']
        d = zi(sol.order)
        yield 'solution-metadata', z3.And(d >= 1, zi(sol.row_dims.len_term()) == d, zi(sol.col_dims.len_term()) == d, zi(sol.ranks.len_term()) == d + 1,
                                          zi(sol.cores.len_term()) == d, lists_distinct(sol),
                                          FA(0, d, lambda j: z3.And(lst_get(sol.row_dims, j) >= 1, lst_get(sol.col_dims, j) == 1)),
                                          FA(0, d + 1, lambda j: lst_get(sol.ranks, j) >= 1))
        yield 'i-in-range', z3.And(i >= 0, i < d)
        yield 'model:micro_op', z3.And(mo.shape[0] >= 0, mo.shape[1] >= 0)
        if isinstance(gm, SArr):
            yield 'model:micro_op_gevp', z3.And(gm.shape[0] >= 0, gm.shape[1] >= 0)

    def requires(self, S):
        a = S.a
        sol, i, mo, gm, nev = a['solution'], zi(a['i']), a['micro_op'], a['micro_op_gevp'], zi(a['number_ev'])
        d = zi(sol.order)
        N = lst_get(sol.ranks, i) * lst_get(sol.row_dims, i) * lst_get(sol.ranks, i + 1)
        yield 'micro_op-square-of-core-size', z3.And(mo.shape[0] == N, mo.shape[1] == N)
        if isinstance(gm, SArr):
            yield 'micro_op_gevp-same-size', z3.And(gm.shape[0] == N, gm.shape[1] == N, gm.buf != mo.buf)
        # LAPACK works in place (overwrite_a / overwrite_b): the micro matrices are fresh arrays of the caller
        yield 'micro-matrices-owned', z3.And(mo.buf >= S.state.ctx.mark0, gm.buf >= S.state.ctx.mark0 if isinstance(gm, SArr) else True)
        # derived from the reshape of the eigenvector block: the micro problem has at least number_ev unknowns
        yield '1<=number_ev<=size', z3.And(nev >= 1, nev <= N)
        if S.inst['solver'] == 'eigs':
            yield 'eigs:number_ev<size-1', nev < N - 1
        if S.inst['direction'] == 'forward':
            yield 'forward:i<order-1', i < d - 1
        yield 'real-is-True', a['real'] is True

    def ensures(self, S, res):
        sol, sol0, i = S.a['solution'], S.o['solution'], zi(S.o['i'])
        d, nev = zi(sol0.order), zi(S.o['number_ev'])
        fwd = S.inst['direction'] == 'forward'
        yield 'returns-eigenvalues', isinstance(res, SArr) and len(res.shape) == 1 and res.shape[0] == nev
        yield 'lists-kept', z3.And(sol.cores.ref == sol0.cores.ref, sol.ranks.ref == sol0.ranks.ref, zi(sol.cores.len_term()) == d, zi(sol.ranks.len_term()) == d + 1)
        k = i + 1 if fwd else i
        yield 'one-rank-updated', FA(0, d + 1, lambda j: z3.Implies(z3.Or(j != k, z3.And(z3.BoolVal(not fwd), i == 0)), lst_get(sol.ranks, j) == lst_get(sol0.ranks, j)))
        yield 'rank-not-increased', z3.And(lst_get(sol.ranks, k) <= lst_get(sol0.ranks, k), lst_get(sol.ranks, k) >= 1)
        if fwd:
            yield 'core-i', z3.And(sol_core_ok(sol, i), lst_get(sol.cores, i).buf >= S.mark0)
        else:
            yield 'core-i', z3.If(i > 0, z3.And(sol_core_ok(sol, i), lst_get(sol.cores, i).buf >= S.mark0),
                                  z3.And(block_core_ok(sol, nev), lst_get(sol.cores, 0).buf >= S.mark0))
        yield 'other-cores-unchanged', FA(0, d, lambda j: z3.Implies(j != i, _same_core(lst_get(sol.cores, j), lst_get(sol0.cores, j))))

    def canary(self, S, res):
        return lst_get(S.a['solution'].ranks, zi(S.o['i'])) == lst_get(S.o['solution'].ranks, zi(S.o['i'])) + 1

    def effect(self, ex, state, A, inst, line):
        sol, i = A['solution'], zi(A['i'])
        k = i + 1 if inst['direction'] == 'forward' else i
        sol.ranks.set(k, fresh('newrank'))
        core = SArr([fresh('c%d' % q) for q in range(5)], fresh('ccx', 'bool'), state.alloc(), True, ndim=fresh('cnd'))
        sol.cores.set(i, core)
        from vt.e1 import npmodel
        return npmodel.new_arr(state, [zi(A['number_ev'])], False)


def _same_core(a, b):
    return z3.And(a.buf == b.buf, zi(a.ndim) == zi(b.ndim), *[x == y for x, y in zip(a.shape, b.shape)])


@register
class EvpAls(Contract):
    name, func, file, cls = 'fn:evp.als', 'als', FILE, None
    props = ('C08',)
    K0, KW, KF, KB, KE = ('i in range(operator.order - 1, -1, -1)#0', 'while current_iteration <= repeats and (not conv_tf)', 'i in range(operator.order)',
                          'i in range(operator.order - 1, -1, -1)#3', 'i in range(number_ev)')
    loop_ordinals = {0: K0, 1: KW, 2: KF, 3: KB, 4: KE}
    var_kinds = {'eigentensor_opt': 'optional-tt'}
    list_kinds = {'trains.solution.cores': 'arr5', 'eigentensors': 'ttref', 'stacks.previous_left[]': 'optarr2', 'stacks.previous_right[]': 'optarr2'}

    @staticmethod
    def uses_heap(inst):
        return inst['number_ev'] == 'many'

    def state_pred(self, ref, state):
        from vt.e1 import heap
        return self.good(heap.tt_at(ref), state.old['operator'], state.old['initial_guess'], state.ctx.mark0)

    def instances(self):
        base = [{'solver': s, 'gevp': g, 'number_ev': n, 'nprev': 0} for s in ('eig', 'eigs', 'eigh') for g in (False, True) for n in ('one', 'many')]
        # deflation: one and two deflated tensors (a concrete count), a representative choice of the other switches
        return base + [{'solver': 'eig', 'gevp': False, 'number_ev': 'one', 'nprev': 1}, {'solver': 'eig', 'gevp': True, 'number_ev': 'one', 'nprev': 1},
                       {'solver': 'eigh', 'gevp': False, 'number_ev': 'many', 'nprev': 2}]

    @staticmethod
    def good(t, op, g0, mark0):
        d = zi(op.order)
        return z3.And(zi(t.order) == d, valid(t), same_ints(t.row_dims, g0.row_dims, d), FA(0, d, lambda j: lst_get(t.col_dims, j) == 1),
                      boundary_one(t), meta_fresh(t, mark0), cores_fresh(t, mark0),
                      FA(0, d + 1, lambda j: lst_get(t.ranks, j) <= lst_get(g0.ranks, j)))

    @classmethod
    def opt_good(cls, v, op, g0, mark0):
        """None, a tensor train, or `None-or-tensor-train` (the best eigenpair seen so far)"""
        if isinstance(v, SNone):
            return z3.BoolVal(True)
        if isinstance(v, STT):
            return cls.good(v, op, g0, mark0)
        if isinstance(v, tuple) and len(v) == 3 and v[0] == 'optional-tt':
            return z3.Implies(v[1], cls.good(v[2], op, g0, mark0))
        return z3.BoolVal(False)

    def quick_instances(self):
        return [i for i in self.instances() if (i['solver'] == 'eig' or (i['gevp'] and i['number_ev'] == 'many')) and i['nprev'] <= 1]

    def defaults(self):
        return {'previous': SList(0, None, items=[]), 'shift': 0, 'operator_gevp': NONE, 'number_ev': 1, 'repeats': 1, 'conv_eps': SNum('conv_eps'),
                'solver': 'eig', 'sigma': 1, 'real': True}

    def call_inst(self, A):
        raise Unsupported('evp.als is verified, not used at call sites')

    def setup(self, ex, state, inst):
        m0 = ex.ctx.mark0
        op = mk_tt(state, 'operator', m0)
        g0 = mk_tt(state, 'initial_guess', m0, order=op.order)
        gv = mk_tt(state, 'operator_gevp', m0, order=op.order) if inst['gevp'] else NONE
        nev = 1 if inst['number_ev'] == 'one' else fresh('number_ev')
        pv = [mk_tt(state, 'previous%d' % q, m0, order=op.order) for q in range(inst.get('nprev', 0))]
        return {'operator': op, 'initial_guess': g0, 'previous': SList(fresh('previous_ref'), None, items=pv), 'shift': SNum('shift'), 'operator_gevp': gv,
                'number_ev': nev, 'repeats': fresh('repeats'), 'conv_eps': SNum('conv_eps'), 'solver': inst['solver'], 'sigma': SNum('sigma'), 'real': True}

    def domain_extra(self, S):
        nev = S.a['number_ev']
        if not isinstance(nev, int):
            yield 'number_ev>=2', zi(nev) >= 2
        pv = S.a['previous']
        if isinstance(pv, SList) and pv.items is not None:
            for q, p_ in enumerate(pv.items):
                if isinstance(p_, STT):
                    yield from type_domain('previous[%d]' % q, p_, S.mark0)

    def requires(self, S):
        a = S.a
        op, g0, gv = a['operator'], a['initial_guess'], a['operator_gevp']
        d = zi(op.order)
        yield 'orders-equal', zi(g0.order) == d
        yield 'square-operator', square(op)
        yield 'guess-dims', z3.And(same_ints(g0.row_dims, op.col_dims, d), FA(0, d, lambda j: lst_get(g0.col_dims, j) == 1))
        yield 'boundary-ranks-1', z3.And(boundary_one(op), boundary_one(g0))
        if isinstance(gv, STT):
            yield 'operator_gevp-like-operator', gevp_like(gv, op)
        pv = a['previous']
        yield 'previous-is-a-list-of-at-most-two-TT', isinstance(pv, SList) and pv.items is not None and len(pv.items) <= 2 and all(isinstance(x, STT) for x in pv.items)
        for q, p_ in enumerate(pv.items or []):
            yield 'previous[%d]-is-a-vector-on-the-column-dimensions' % q, prev_like(p_, op)
        # derived from the code: eigenvalues is only bound inside the sweeps
        yield 'repeats>=1', zi(a['repeats']) >= 1
        # derived from the reshape of the eigenvector block (A-nonsingular, admissible ranks): every micro problem has >= number_ev unknowns
        nev = zi(a['number_ev'])
        yield 'micro-problems-large-enough', FA(0, d, lambda j: lst_get(op.row_dims, j) >= (nev + 2 if S.inst['solver'] == 'eigs' else nev))

    def ensures(self, S, res):
        ok = isinstance(res, tuple) and len(res) == 3
        yield 'returns-(eigenvalues, eigentensors, iterations)', ok
        if not ok:
            return
        op, g0 = S.o['operator'], S.o['initial_guess']
        d = zi(op.order)
        ets = res[1]

        if S.inst['number_ev'] == 'one':
            # that a tensor train (not None) is returned depends on a floating-point comparison with inf: run-time clause (T3)
            yield 'eigentensor-if-any-is-valid-and-fresh', self.opt_good(ets, op, g0, S.mark0)
        else:
            from vt.e1 import heap
            j1, j2 = fresh('j1'), fresh('j2')
            n = zi(S.o['number_ev'])
            ok2 = isinstance(ets, SList) and ets.kind == 'ttref'
            yield 'eigentensor-list', ok2 and z3.And(zi(ets.len_term()) == n, ets.ref >= S.mark0)
            if ok2:
                r = lambda j: heap.ref_at(ets, j)       # noqa
                yield 'eigentensors-valid-and-fresh', FA(0, n, lambda j: heap.OK(self, r(j)))
                yield 'eigentensors-pairwise-distinct-objects', z3.ForAll([j1, j2], z3.Implies(z3.And(0 <= j1, j1 < j2, j2 < n), r(j1) != r(j2)))
                # every id (object, lists, core buffers) of a later eigentensor is younger than every id of an earlier one
                yield 'eigentensors-share-nothing', z3.ForAll([j1, j2], z3.Implies(z3.And(0 <= j1, j1 < j2, j2 < n), heap.TOP(r(j1)) <= heap.BOT(r(j2))))

    def canary(self, S, res):
        return z3.BoolVal(False)

    def common(self, V):
        tr, st, op, g0 = V['trains'], V['stacks'], V.old('operator'), V.old('initial_guess')
        sol = tr.f['solution']
        d = zi(op.order)
        yield 'trains', z3.And(tr.f['operator'].ref == op.ref, tr.ref >= V.mark0, st.ref >= V.mark0, tr.ref != st.ref)
        yield 'solution-metadata', z3.And(solution_meta(sol, op), meta_fresh(sol, V.mark0))
        yield 'ranks<=guess', FA(0, d + 1, lambda j: lst_get(sol.ranks, j) <= lst_get(g0.ranks, j))
        yield 'buffers-fresh', FA(0, d, lambda j: lst_get(sol.cores, j).buf >= V.mark0)
        names = ['op_left', 'op_right'] + (['op_gevp_left', 'op_gevp_right'] if isinstance(tr.f['operator_gevp'], STT) else [])
        pv = prevs(tr)
        pst = prev_stacks(st, 'left', len(pv)) + prev_stacks(st, 'right', len(pv))
        yield 'previous-tensors', z3.And(*[p_.ref == p0.ref for p_, p0 in zip(pv, V.old('previous').items)])
        yield 'stacks', z3.And(*[z3.And(zi(st.f[n].len_term()) == d, st.f[n].ref >= V.mark0) for n in names],
                               *[z3.And(zi(l.len_term()) == d, l.ref >= V.mark0) for l in pst],
                               z3.Distinct(*([st.f[n].ref for n in names] + [l.ref for l in pst] + [sol.cores.ref, sol.ranks.ref, sol.row_dims.ref, sol.col_dims.ref])))

    def invariant(self, key, inst):
        me = self

        def env(V):
            tr, st = V['trains'], V['stacks']
            op, g, sol = V.old('operator'), tr.f['operator_gevp'], tr.f['solution']
            pairs = [(st.f['op_left'], st.f['op_right'], op)] + ([(st.f['op_gevp_left'], st.f['op_gevp_right'], V.old('operator_gevp'))] if isinstance(g, STT) else [])
            return pairs, op, sol

        def penv(V, side):
            tr, st = V['trains'], V['stacks']
            pv = V.old('previous').items
            return list(zip(prev_stacks(st, side, len(pv)), pv))

        def rights(V, cond):
            pairs, op, sol = env(V)
            return FA(0, zi(op.order), lambda j: z3.Implies(cond(j), z3.And(*[Rop(r, o, sol, j) for (_, r, o) in pairs], *[PR(l, p_, sol, j) for l, p_ in penv(V, 'right')])))

        def lefts(V, cond):
            pairs, op, sol = env(V)
            return FA(0, zi(op.order), lambda j: z3.Implies(cond(j), z3.And(*[Lop(l, o, sol, j) for (l, _, o) in pairs], *[PL(l, p_, sol, j) for l, p_ in penv(V, 'left')])))

        def inv_init(V, i, k):
            _, op, sol = env(V)
            yield from me.common(V)
            yield 'cores', FA(0, zi(op.order), lambda j: sol_core_ok(sol, j))
            yield 'right-stacks', rights(V, lambda j: j > i)

        def inv_while(V, i, k):
            _, op, sol = env(V)
            d = zi(op.order)
            yield from me.common(V)
            # between sweeps core 0 is either the initial 4-d core or the 5-d block of all eigenvectors; it is rewritten before it is read
            yield 'cores', FA(1, d, lambda j: sol_core_ok(sol, j))
            yield 'right-stacks', rights(V, lambda j: j >= 0)
            cur = zi(V['current_iteration'])
            yield 'iteration', cur >= 1
            yield 'not-converged-before-the-first-sweep', z3.Implies(cur == 1, z3.Not(zb(V['conv_tf'])))
            yield 'block-core-after-a-sweep', z3.Implies(cur >= 2, block_core_ok(sol, V.old('number_ev')))
            ep = V['eigenvalues_pre']
            yield 'eigenvalues_pre', z3.And(ep.shape[0] >= 1, ep.shape[1] == zi(V.old('number_ev'))) if len(ep.shape) == 2 else False
            yield 'eigentensor_opt', me.opt_good(V['eigentensor_opt'], op, V.old('initial_guess'), V.mark0)

        def eigs_ok(V):
            if V.has('eigenvalues'):
                e = V['eigenvalues']
                if isinstance(e, SArr) and len(e.shape) == 1:
                    yield 'eigenvalues', e.shape[0] == zi(V.old('number_ev'))

        def inv_fwd(V, i, k):
            _, op, sol = env(V)
            d = zi(op.order)
            dirty = z3.If(i < d - 1, i, d - 1)
            yield from me.common(V)
            yield from eigs_ok(V)
            yield 'cores', FA(0, d, lambda j: z3.Implies(j != dirty, sol_core_ok(sol, j)))
            yield 'left-stacks', lefts(V, lambda j: j < i)
            yield 'right-stacks', rights(V, lambda j: j >= i)

        def inv_bwd(V, i, k):
            _, op, sol = env(V)
            d = zi(op.order)
            yield from me.common(V)
            yield from eigs_ok(V)
            yield 'cores', FA(0, d, lambda j: z3.Implies(j != i, z3.If(z3.And(j == 0, i < 0), block_core_ok(sol, V.old('number_ev')), sol_core_ok(sol, j))))
            yield 'left-stacks', lefts(V, lambda j: j <= i)
            yield 'right-stacks', rights(V, lambda j: j > i)

        def inv_end(V, i, k):
            _, op, sol = env(V)
            d = zi(op.order)
            ets = V['eigentensors']
            yield from me.common(V)
            yield 'cores', z3.And(block_core_ok(sol, V.old('number_ev')), FA(1, d, lambda j: sol_core_ok(sol, j)))
            from vt.e1 import heap
            j1, j2 = fresh('j1'), fresh('j2')
            r = lambda j: heap.ref_at(ets, j)       # noqa
            yield 'eigentensors', z3.And(zi(ets.len_term()) == zi(i), ets.ref >= V.mark0)
            yield 'eigentensors-valid-and-fresh', FA(0, zi(i), lambda j: heap.OK(me, r(j)))
            yield 'eigentensors-older-than-now', FA(0, zi(i), lambda j: heap.TOP(r(j)) <= V.state.mark)
            yield 'eigentensors-pairwise-distinct-objects', z3.ForAll([j1, j2], z3.Implies(z3.And(0 <= j1, j1 < j2, j2 < zi(i)), r(j1) != r(j2)))
            yield 'eigentensors-share-nothing', z3.ForAll([j1, j2], z3.Implies(z3.And(0 <= j1, j1 < j2, j2 < zi(i)), heap.TOP(r(j1)) <= heap.BOT(r(j2))))
        return {self.K0: inv_init, self.KW: inv_while, self.KF: inv_fwd, self.KB: inv_bwd, self.KE: inv_end}.get(key)


@register
class PowerMethod(Contract):
    """power_method: inverse iteration by repeated sle.als solves.  Structural clauses: every TT operation and solve is inside
    its callee's domain, the returned eigentensor is a valid vector on the operator's column dimensions, inputs never written."""
    name, func, file, cls = 'fn:power_method', 'power_method', FILE, None
    props = ('C08', 'C06')
    KEY = 'i in range(repeats)'
    loop_ordinals = {0: KEY}

    def instances(self):
        return [{'gevp': False}, {'gevp': True}]

    def defaults(self):
        return {'operator_gevp': NONE, 'repeats': 10, 'sigma': SNum('sigma')}

    def setup(self, ex, state, inst):
        m0 = ex.ctx.mark0
        op = mk_tt(state, 'operator', m0)
        g0 = mk_tt(state, 'initial_guess', m0, order=op.order)
        gv = mk_tt(state, 'operator_gevp', m0, order=op.order) if inst['gevp'] else NONE
        return {'operator': op, 'initial_guess': g0, 'operator_gevp': gv, 'repeats': fresh('repeats'), 'sigma': SNum('sigma')}

    def requires(self, S):
        a = S.a
        op, g0, gv = a['operator'], a['initial_guess'], a['operator_gevp']
        d = zi(op.order)
        yield 'orders-equal', zi(g0.order) == d
        yield 'square-operator', square(op)
        yield 'guess-dims', z3.And(same_ints(g0.row_dims, op.col_dims, d), FA(0, d, lambda j: lst_get(g0.col_dims, j) == 1))
        yield 'boundary-ranks-1', z3.And(boundary_one(op), boundary_one(g0))
        if isinstance(gv, STT):
            yield 'operator_gevp-like-operator', gevp_like(gv, op)
        yield 'repeats>=0', zi(a['repeats']) >= 0
        jx = fresh('jx')
        yield 'state-dimension>=2', z3.Exists([jx], z3.And(0 <= jx, jx < d, lst_get(op.row_dims, jx) >= 2))


    def on_scalar_product(self, ex, state, left, right, line):
        ct = left.__dict__.get('conjT')
        ex.ctx.oblige(state, 'sesquilinear-inner-product', line, z3.BoolVal(ct is True),
                      'the bra of this inner product is %s' % ('a plain (not conjugated) transpose' if ct is False else 'not a conjugate transpose'))

    def vec_ok(self, t, op):
        d = zi(op.order)
        return z3.And(zi(t.order) == d, valid(t), same_ints(t.row_dims, op.col_dims, d), FA(0, d, lambda j: lst_get(t.col_dims, j) == 1), boundary_one(t))

    def ensures(self, S, res):
        ok = isinstance(res, tuple) and len(res) == 2 and isinstance(res[1], STT)
        yield 'returns-(eigenvalue, eigentensor)', ok
        if ok:
            yield 'eigentensor', self.vec_ok(res[1], S.o['operator'])

    def canary(self, S, res):
        return zi(res[1].order) == zi(S.o['operator'].order) + 1 if isinstance(res, tuple) and isinstance(res[1], STT) else None

    def invariant(self, key, inst):
        me = self
        if key != self.KEY:
            return None

        def inv(V, i, k):
            yield 'eigentensor', me.vec_ok(V['eigentensor'], V.old('operator'))
            sh, op = V['operator_shift'], V.old('operator')
            d = zi(op.order)
            yield 'operator_shift', z3.And(zi(sh.order) == d, valid(sh), same_ints(sh.row_dims, op.row_dims, d), same_ints(sh.col_dims, op.col_dims, d), boundary_one(sh))
        return inv
