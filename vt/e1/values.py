"""Abstract values of the E1 symbolic executor (array contents are dropped; everything else is tracked).

  ints / bools        z3 terms or Python constants
  SInf                numpy.inf
  SNum                an unknown real/complex scalar (only 'is zero?' is ever asked; answered by a Bool term)
  SMaxRank            int-or-inf tagged union (is_inf: Bool, val: Int)
  SArr                ndarray: ndim, shape (Int terms), cplx (Bool), buf (Int id), contig (Bool), ghost flags
  SList               Python list: identity ref, length, element function (closure idx -> value) or concrete items
  STT                 instance of scikit_tt.tensor_train.TT: mutable field dict
"""
import itertools
import z3

_ids = itertools.count()


def fresh(name, sort='int'):
    n = '%s!%d' % (name, next(_ids))
    return {'int': z3.Int, 'bool': z3.Bool, 'real': z3.Real}[sort](n)


def fresh_fun(name, *sorts):
    return z3.Function('%s!%d' % (name, next(_ids)), *sorts)


def zi(x):
    """python int or z3 Int -> z3 Int"""
    if isinstance(x, bool):
        raise TypeError('bool used as int')
    if isinstance(x, int):
        return z3.IntVal(x)
    return x


def zb(x):
    if isinstance(x, bool):
        return z3.BoolVal(x)
    return x


def is_conc_int(x):
    return isinstance(x, int) and not isinstance(x, bool)


def simp(t):
    return z3.simplify(t) if isinstance(t, z3.ExprRef) else t


def as_conc(t):
    """concrete python int if the term is a numeral after simplification, else None"""
    if is_conc_int(t):
        return t
    if isinstance(t, z3.ExprRef):
        s = z3.simplify(t)
        if z3.is_int_value(s):
            return s.as_long()
    return None


class SInf:
    def __repr__(self):
        return 'inf'


INF = SInf()


class SNone:
    def __repr__(self):
        return 'None'


NONE = SNone()


class SNum:
    """unknown real/complex scalar (threshold, step size, scalar factor); kind: 'real' | 'complex' | 'int'"""

    def __init__(self, name, nonzero=None, cplx=None, nonneg=None):
        self.name = name
        self.nonzero = nonzero if nonzero is not None else fresh(name + '_nz', 'bool')
        self.cplx = cplx if cplx is not None else z3.BoolVal(False)
        self.nonneg = nonneg if nonneg is not None else fresh(name + '_ge0', 'bool')


class SBasisFn:
    """a basis function psi: R^d -> R handed in by the caller (assumption A-basis: called with a vector of the state dimension it
    returns one real number and has no effect on the arguments of the function under verification)"""

    def __init__(self, dim):
        self.dim = dim


INDEX_USES = []       # (index term, role of the axis / list it indexed): how np.array(<nested comprehension>) learns the roles of its axes


def note_index_use(idx, role):
    if isinstance(idx, z3.ExprRef) and z3.is_app_of(idx, z3.Z3_OP_ITE) and z3.is_app_of(idx.arg(0), z3.Z3_OP_LT) and idx.arg(0).arg(0).eq(idx.arg(2)):
        idx = idx.arg(2)            # python index normalisation  If(i < 0, i + n, i)
    if role is not None and isinstance(idx, z3.ExprRef) and z3.is_const(idx) and idx.decl().kind() == z3.Z3_OP_UNINTERPRETED:
        if len(INDEX_USES) > 4000:
            del INDEX_USES[:2000]
        INDEX_USES.append((idx, role))


def index_roles_of(var):
    return {r for t, r in INDEX_USES if t.eq(var)}


class SMaxRank:
    """`max_rank` style value: positive int or inf"""

    def __init__(self, name, is_inf=None, val=None):
        self.is_inf = is_inf if is_inf is not None else fresh(name + '_isinf', 'bool')
        self.val = val if val is not None else fresh(name, 'int')


class SArr:
    FLAGS = ('lorth', 'rorth', 'isocols', 'isorows')

    def __init__(self, shape, cplx, buf, contig=True, ndim=None, flags=None, kind='float', own=None):
        self.shape = [zi(s) for s in shape]
        self.ndim = ndim if ndim is not None else len(self.shape)      # python int or z3 term (list elements)
        self.cplx = zb(cplx)
        self.buf = zi(buf)
        self.contig = zb(contig)
        self.flags = {f: z3.BoolVal(False) for f in self.FLAGS}
        if flags:
            self.flags.update({k: zb(v) for k, v in flags.items()})
        self.kind = kind          # 'float' (real/complex decided by cplx) | 'int' | 'bool'
        # own: Bool - the array owns its buffer alone (no other reference to the buffer exists in the program so far)
        self.own = zb(own) if own is not None else z3.BoolVal(False)

    def with_(self, **kw):
        a = SArr(kw.get('shape', self.shape), kw.get('cplx', self.cplx), kw.get('buf', self.buf), kw.get('contig', self.contig),
                 kw.get('ndim', self.ndim), dict(self.flags) if 'flags' not in kw else kw['flags'], kw.get('kind', self.kind),
                 kw.get('own', self.own))
        r = self.__dict__.get('roles')
        if r is not None and len(r) >= len(a.shape):
            a.roles = tuple(r[:len(a.shape)])
        return a

    def __repr__(self):
        return 'SArr(%s)' % (self.shape,)


def arr_ite(c, a, b):
    """field-wise if-then-else of two array values with equal (python) rank"""
    if a is b:
        return a
    assert len(a.shape) == len(b.shape), 'ite of arrays with different ranks'
    nd = a.ndim if (is_conc_int(a.ndim) and is_conc_int(b.ndim) and a.ndim == b.ndim) else z3.If(c, zi(a.ndim), zi(b.ndim))
    r = SArr([z3.If(c, x, y) for x, y in zip(a.shape, b.shape)], z3.If(c, a.cplx, b.cplx), z3.If(c, a.buf, b.buf),
             z3.If(c, a.contig, b.contig), nd, {f: z3.If(c, a.flags[f], b.flags[f]) for f in SArr.FLAGS}, a.kind,
             z3.If(c, a.own, b.own))
    ra, rb = a.__dict__.get('roles'), b.__dict__.get('roles')
    def neutral(x):
        # a placeholder for a slot that holds an array of another rank, or a boundary array whose axes all have length 1,
        # has no roles of its own
        return x.__dict__.get('garbage') or (x.__dict__.get('roles') is None and x.shape and all(z3.is_int_value(t) and t.as_long() == 1 for t in x.shape))
    if neutral(a):
        ra = rb
    if neutral(b):
        rb = ra
    if ra is not None and ra == rb:
        r.roles = ra            # index roles (ghost, see npmodel.ROLE_PAIRS) survive a merge only if both sides agree
    return r


def widen5(a):
    """element of a core list that may hold 4-d cores and one 5-d block core (evp.als keeps all eigenvectors in a 5-d first core):
    five shape slots, the rank is a term (4 or 5); the fifth slot of a 4-d core is meaningless"""
    if len(a.shape) == 5 and not is_conc_int(a.ndim):
        return a
    nd = len(a.shape) if is_conc_int(a.ndim) else a.ndim
    shape = list(a.shape) + ([z3.IntVal(1)] if len(a.shape) == 4 else [])
    return SArr(shape, a.cplx, a.buf, a.contig, z3.IntVal(nd) if is_conc_int(nd) else nd, dict(a.flags), a.kind, a.own)


class SArrN:
    """an array whose number of axes is not static (the full tensor handed to TT(x), its transposes, a work array that changes
    rank from one loop iteration to the next): total size, number of axes, optional shape list, kind and buffer"""

    def __init__(self, size, ndim, cplx, buf, shape=None):
        self.size, self.ndim, self.cplx, self.buf, self.shape = zi(size), zi(ndim), zb(cplx), zi(buf), shape


class SDType:
    """a NumPy dtype chosen by a data-dependent conditional expression: only its complexness is tracked"""

    def __init__(self, cplx):
        self.cplx = cplx


def dtype_cplx(x):
    """complexness of a dtype value ('complex', ('type', 'float'), SDType, ...) as a z3 Bool, or None if x is no dtype"""
    if isinstance(x, SDType):
        return x.cplx
    if isinstance(x, tuple) and len(x) == 2 and x[0] == 'type' and isinstance(x[1], str):
        x = x[1]
    if isinstance(x, str):
        x = x.replace('np.', '')
        if x in ('complex', 'complex128', 'complex64', 'cdouble'):
            return z3.BoolVal(True)
        if x in ('float', 'float64', 'float32', 'double', 'int', 'int64', 'int32'):
            return z3.BoolVal(False)
    return None


def val_ite(c, a, b):
    if a is b:
        return a
    if isinstance(c, bool):
        return a if c else b
    cs = z3.simplify(c)
    if z3.is_true(cs):
        return a
    if z3.is_false(cs):
        return b
    if dtype_cplx(a) is not None and dtype_cplx(b) is not None:
        return SDType(z3.simplify(z3.If(zb(c), dtype_cplx(a), dtype_cplx(b))))
    if isinstance(a, SArr) and isinstance(b, SArr):
        return arr_ite(c, a, b)
    if isinstance(a, (int, z3.ExprRef)) and isinstance(b, (int, z3.ExprRef)) and not isinstance(a, bool) and not isinstance(b, bool):
        return z3.If(c, zi(a), zi(b))
    if isinstance(a, (bool, z3.BoolRef)) and isinstance(b, (bool, z3.BoolRef)):
        return z3.If(c, zb(a), zb(b))
    if isinstance(a, SMaxRank) or isinstance(b, SMaxRank):
        def mr(x):
            if isinstance(x, SMaxRank):
                return x
            if isinstance(x, SInf):
                return SMaxRank('inf', z3.BoolVal(True), z3.IntVal(0))
            return SMaxRank('int', z3.BoolVal(False), zi(x))
        a2, b2 = mr(a), mr(b)
        return SMaxRank('ite', z3.If(c, a2.is_inf, b2.is_inf), z3.If(c, a2.val, b2.val))
    if isinstance(a, SOpt) or isinstance(b, SOpt):
        a = a if isinstance(a, SOpt) else SOpt(z3.BoolVal(not isinstance(a, SNone)), a if not isinstance(a, SNone) else b.val)
        b = b if isinstance(b, SOpt) else SOpt(z3.BoolVal(not isinstance(b, SNone)), b if not isinstance(b, SNone) else a.val)
        return SOpt(z3.If(c, a.defined, b.defined), val_ite(c, a.val, b.val))
    if isinstance(a, SNone) and isinstance(b, SNone):
        return a
    if isinstance(a, STT) or isinstance(b, STT):
        raise Unsupported('a slot of a list of tensor trains is read at an index that may or may not be the materialised one')
    if isinstance(a, SNone) and isinstance(b, SArr):
        return SOpt(z3.Not(zb(c)), b)
    if isinstance(b, SNone) and isinstance(a, SArr):
        return SOpt(zb(c), a)
    if isinstance(b, SNone) and isinstance(a, (int, z3.ArithRef)) and not isinstance(a, bool):
        return SOpt(zb(c), zi(a))           # Optional[int]: a slot of  [None] * n  that is filled in later
    if isinstance(a, SNone) and isinstance(b, (int, z3.ArithRef)) and not isinstance(b, bool):
        return SOpt(z3.Not(zb(c)), zi(b))
    raise Unsupported('ite of %s and %s' % (type(a).__name__, type(b).__name__))


class SOpt:
    """Optional[array]: element of an environment stack ([None] * n filled in later)"""

    def __init__(self, defined, val):
        self.defined = zb(defined)
        self.val = val


class Unsupported(Exception):
    """construct outside the verified Python/NumPy subset -> the function is reported as unverified, never skipped"""


PROVER = {'decide': None}     # set by the executor: decide(cond) -> True / False / None under the current path condition


def same_index(a, b):
    c = z3.simplify(zi(a) == zi(b))
    if z3.is_true(c):
        return True
    if z3.is_false(c):
        return False
    if PROVER['decide'] is not None:
        return PROVER['decide'](c)
    return None


class _Memo:
    """memoising wrapper of a list element function: clauses are rebuilt many times over the same index terms (bound variables
    are named by nesting depth), and the element functions of results are closures over those of their operands (without the
    memo the same element is recomputed exponentially often)"""
    __slots__ = ('f', 'memo')

    def __init__(self, f):
        self.f, self.memo = f, {}

    def __call__(self, j):
        j = zi(j)
        k = j.get_id()
        hit = self.memo.get(k)
        if hit is not None and hit[0].eq(j):
            return hit[1]
        v = self.f(j)
        self.memo[k] = (j, v)
        return v


class SList:
    """Python list.  `fn` maps an index term (already normalised to [0, len)) to the element."""

    @property
    def fn(self):
        return self._fn

    @fn.setter
    def fn(self, f):
        self._fn = f if (f is None or isinstance(f, _Memo)) else _Memo(f)
        self.__dict__.pop('writes', None)       # the write log describes the previous element function only

    def get_resolved(self, idx):
        """read by the code under verification: the slot writes since the element function was last replaced are resolved with
        the prover under the current path condition (a read of slot i - 1 after a write to slot i sees the old entry, not a
        merge of both)"""
        ws = self.__dict__.get('writes')
        if self.kind == 'tt' and self.items is None:
            # a list of mutable tensor trains: the element read is materialised as one object and logged as a slot write, so that
            # every later read of the syntactically same slot sees the same (possibly mutated) object
            for i0, val, old in reversed(ws or []):
                same = same_index(idx, i0)
                if same is True:
                    return val
                if same is None:
                    raise Unsupported('read of a slot of a list of tensor trains that may or may not be the slot read before')
            obj = (ws[0][2] if ws else self.fn)(zi(idx))
            self.set(idx, obj)
            return obj
        if not ws or getattr(self, 'transients', None) or self.items is not None:
            return self.get(idx)
        for i0, val, old in reversed(ws):
            same = same_index(idx, i0)
            if same is True:
                return val
            if same is None:
                return self.get(idx)
        return ws[0][2](zi(idx))

    def __init__(self, ref, length, fn=None, items=None, kind='any'):
        self.ref = zi(ref)
        self.kind = kind
        if items is not None:
            self.items = list(items)
            self.length = len(self.items)
            self.fn = None
        else:
            self.items = None
            self.length = length
            self.fn = fn

    # -- access ---------------------------------------------------------------------------------------------------------
    def is_conc(self):
        return self.items is not None

    def len_term(self):
        return zi(self.length)

    def get(self, idx):
        """idx: normalised index (python int or Int term)"""
        for (ti, tv) in list(getattr(self, 'transients', {}).values()):
            same = same_index(idx, ti)
            if same is True:
                return tv
            if same is None:
                raise Unsupported('read of a list slot that may hold a transient array of another rank')
        if self.items is not None:
            c = as_conc(idx)
            if c is not None:
                return self.items[c]
            # symbolic index into a concrete list: ite chain
            res = self.items[-1]
            for k in range(len(self.items) - 2, -1, -1):
                res = val_ite(zi(idx) == k, self.items[k], res)
            return res
        # memoised per element function: clauses are rebuilt many times over the same index terms (bound variables are named by
        # nesting depth), and element functions of results are closures over the element functions of their operands
        if 'index_role' in self.__dict__:
            note_index_use(zi(idx), self.index_role)
        return self.fn(zi(idx))

    def to_fn(self):
        if self.items is None:
            return
        items = list(self.items)
        if self.kind == 'ttref':
            items = [x.ref if isinstance(x, STT) else x for x in items]

        if not items:
            from vt.e1.symexec import sym_elem_fn
            if self.kind == 'any':
                raise Unsupported('element of an empty list of unknown element type')
            self.fn, self.length, self.items = sym_elem_fn(self.kind, None), 0, None
            return

        def f(idx, items=items):
            res = items[-1]
            for k in range(len(items) - 2, -1, -1):
                res = val_ite(idx == k, items[k], res)
            return res
        self.fn, self.length, self.items = f, len(items), None

    def set(self, idx, val):
        # A typed list (cores: 4-d arrays, stacks: Optional n-d arrays) may transiently hold an array of another rank
        # (x.cores[i] = <matrix>; ...; x.cores[i] = x.cores[i].reshape(4-d)).  Reads at the syntactically same index see
        # the stored value; every specification sees an unknown element of unknown rank in that slot.
        if self.kind == 'arr5' and isinstance(val, SArr) and len(val.shape) in (4, 5) and is_conc_int(val.ndim):
            val = widen5(val)
        want = 4 if self.kind == 'arr' else 5 if self.kind == 'arr5' else int(self.kind[6:]) if self.kind.startswith('optarr') else None
        key = str(z3.simplify(zi(idx)))
        tr = getattr(self, 'transients', None)
        if tr is None:
            tr = self.transients = {}
        if want is not None and isinstance(val, SArr) and len(val.shape) != want:
            tr[key] = (zi(idx), val)
            garbage = SArr([fresh('g') for _ in range(want)], fresh('gcx', 'bool'), fresh('gbuf'), False, ndim=fresh('gnd'))
            garbage.garbage = True
            val = garbage if not self.kind.startswith('optarr') else SOpt(fresh('gdef', 'bool'), garbage)
        else:
            for k2, (ti, _) in list(tr.items()):
                same = same_index(idx, ti)
                if same is True:
                    del tr[k2]
                elif same is None:
                    raise Unsupported('list slot written while another slot may hold a transient array')
        tag = self.__dict__.get('role_tag')
        if tag is not None and isinstance(val, SArr):
            r = val.__dict__.get('roles')
            if r is None and self.__dict__.get('role_strict'):
                del self.__dict__['role_tag']                                       # roles must be derived, not declared
            elif r is None and len(val.shape) >= len(tag):
                val.roles = tuple(tag) + (None,) * (len(val.shape) - len(tag))      # declared by the contract for this list
            elif r is not None and any(not (x == y or (x, y) == ('r', 'k')) for x, y in zip(r[:len(tag)], tag)):
                # (an operator applied to a ket leg - its row axis - is a ket leg again)
                del self.__dict__['role_tag']                                       # an element with other roles: nothing is claimed any more
            elif r is not None:
                val.roles = tuple(tag) + tuple(r[len(tag):])
        c = as_conc(idx)
        if self.items is not None and c is not None:
            self.items[c] = val
            return
        self.to_fn()
        old = self.fn
        i0 = zi(idx)
        ws = list(self.__dict__.get('writes') or [])
        if ws and ws[-1][0].eq(i0):
            old, ws = ws[-1][2], ws[:-1]        # the slot written last is overwritten: its previous content is dead
        self.fn = lambda j, old=old, i0=i0, val=val: val_ite(j == i0, val, old(j))
        self.writes = ws + [(i0, val, old)]

    def snapshot(self):
        """immutable view (same ref) for old() references"""
        v = SList(self.ref, self.length, self.fn, None if self.items is None else list(self.items), self.kind)
        v.transients = dict(getattr(self, 'transients', {}) or {})
        for extra in ('slice_of', 'split_points', 'role_tag', 'index_role', 'role_strict', 'stride_writes', 'writes'):
            if extra in self.__dict__:
                setattr(v, extra, self.__dict__[extra])
        return v


class STT:
    def __init__(self, ref, order, row_dims, col_dims, ranks, cores):
        self.ref = zi(ref)
        self.f = {'order': order, 'row_dims': row_dims, 'col_dims': col_dims, 'ranks': ranks, 'cores': cores}

    def snapshot(self):
        s = STT(self.ref, None, None, None, None, None)
        s.f = {k: (v.snapshot() if isinstance(v, SList) else v) for k, v in self.f.items()}
        return s

    def __getattr__(self, k):
        if k in ('order', 'row_dims', 'col_dims', 'ranks', 'cores'):
            return self.f[k]
        raise AttributeError(k)


class SObj:
    """a plain attribute container (`trains = Object(); trains.operator = ...`): fields by name, identity by ref"""

    def __init__(self, ref):
        self.ref = zi(ref)
        self.f = {}

    def snapshot(self):
        s = SObj(self.ref)
        s.f = {k: (v.snapshot() if isinstance(v, (SList, STT, SObj)) else v) for k, v in self.f.items()}
        return s


class SFunc:
    """a nested function definition (closure over the defining state's environment)"""

    def __init__(self, node, env):
        self.node, self.env = node, env


class SModule:
    def __init__(self, name):
        self.name = name

    def __repr__(self):
        return '<module %s>' % self.name


class SExc:
    def __init__(self, name):
        self.name = name


class SIndexSet:
    """user-supplied collection of indices (e.g. `cores=` of TT.transpose): membership is an uninterpreted predicate"""

    def __init__(self, pred):
        self.pred = pred


def is_tag(x, tag):
    """x is a tagged tuple ('tag', ...): safe against tuples of z3 terms (whose == would build a formula)"""
    return isinstance(x, tuple) and len(x) > 0 and isinstance(x[0], str) and x[0] == tag
