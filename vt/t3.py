"""T3 helpers: run-time evaluation of contract clauses on the real code (bounded stand-in, never counted as proved)."""
import numpy as np
from vt.core import Ob, OK, FAIL, ERR
from vt import spec


def rng_for(case):
    return np.random.default_rng([int(case.get('seed', 0)) & 0x7fffffff, int(case.get('k', 0))])


def sig_of(case):
    return case.get('sig') or 'd%s/%s' % (case.get('d', len(case.get('rd', []))), case.get('kind', 'real'))


class Clauses:
    """collects (clause, ok, detail) for one function under contract in one case"""

    def __init__(self, pid, func, case, backend='T3', modfunc=None):
        self.pid, self.func, self.case, self.backend = pid, func, case, backend
        self.out = []
        self.task = modfunc and [modfunc[0], modfunc[1], case]

    def add(self, clause, ok, detail='', nontrivial=True, sig=None):
        self.out.append(Ob('%s/%s/%s' % (self.pid, self.func, clause), self.backend, OK if ok else FAIL,
                           sig=sig or sig_of(self.case), detail=detail, case=self.case, nontrivial=nontrivial,
                           task=self.task))

    def close(self, clause, a, b, tol=1e-9, **kw):
        ok, det = spec.close(a, b, tol)
        self.add(clause, ok, det, **kw)
        return ok

    def frame(self, snaps, tts, clause='frame:operands-unchanged'):
        bad = []
        for n, (s, t) in enumerate(zip(snaps, tts)):
            bad += ['arg%d: %s' % (n, x) for x in s.diff(t)]
        self.add(clause, not bad, '; '.join(bad[:4]))

    def fresh(self, result, tts, clause='post:result-buffers-fresh'):
        bad = []
        for n, t in enumerate(tts):
            if result is t:
                bad.append('result is arg%d' % n)
                continue
            sh = spec.shares(result, t)
            if sh:
                bad.append('result cores share memory with arg%d cores %s' % (n, sh[:4]))
            ls = spec.lists_shared(result, t)
            if ls:
                bad.append('result lists shared with arg%d %s' % (n, ls))
        self.add(clause, not bad, '; '.join(bad[:4]))

    def wf(self, t, clause='post:wf(result)'):
        bad = spec.wf_report(t)
        self.add(clause, not bad, '; '.join(bad[:4]))

    def raises(self, clause, exc, fn):
        try:
            fn()
            self.add(clause, False, 'no exception raised, expected %s' % exc.__name__)
        except exc:
            self.add(clause, True)
        except Exception as e:  # noqa
            self.add(clause, False, 'raised %r, expected %s' % (e, exc.__name__))

    def guarded(self, clause, fn):
        """run fn(); an exception inside the real code under its precondition is a failed obligation"""
        try:
            return True, fn()
        except Exception as e:  # noqa
            import traceback
            self.add(clause, False, 'exception under precondition: %r | %s' % (e, traceback.format_exc()[-600:]))
            return False, None
