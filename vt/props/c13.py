"""C13 - bundled models are generators, unitaries or Hermitian for all parameters."""
import itertools
import numpy as np
from vt import spec
from vt.t3 import Clauses, rng_for
from vt.props import common

PID = 'C13'
META = common.meta(
    PID,
    functions=['scikit_tt.models:%s' % f for f in
               ['ising', 'qfa', 'qfan', 'qft', 'iqft', 'shor', 'exciton_chain', 'cantor_dust', 'co_oxidation',
                'fpu_coefficients', 'kuramoto_coefficients', 'multisponge', 'rgb_fractal', 'signaling_cascade',
                'toll_station', 'two_step_destruction', 'vicsek_fractal']],
    rule='T3: every model over an enumerated range of its size parameters (from the smallest admissible one) and seeded '
         'rate/frequency parameters; dense comparison while the matricised operator has at most 4096 rows, column sums / '
         'unitarity in TT form beyond; non-trivial = every case (each model x parameter point is distinct).')


def tasks(tier, seed):
    out = []
    k = 0
    thorough = tier != 'quick'

    def add(model, **kw):
        nonlocal k
        k += 1
        out.append(('vt.props.c13', 't3_case', dict(kw, model=model, seed=seed, k=k, backend='T3', sig=model)))
    for d in range(2, 9 if thorough else 6):
        add('ising', d=d)
    for n in range(1, 8 if thorough else 6):
        add('qft', n=n)
        add('iqft', n=n)
    add('qfa')
    for n in ([1, 2, 3] if thorough else [1, 2]):
        add('qfan', n=n)
    for a in ([2, 4, 7, 8, 11, 13, 14] if thorough else [2, 7]):
        add('shor', a=a)
    for n in range(2, 8 if thorough else 6):
        add('exciton_chain', n=n)
    for order in range(2, 7 if thorough else 5):
        for cyc in (True, False):
            add('co_oxidation', order=order, cyclic=cyc)
    for d in range(3, 8 if thorough else 6):
        add('fpu', d=d)
    for d in range(2, 8 if thorough else 5):
        add('kuramoto', d=d)
    for dim in (1, 2, 3):
        for level in (1, 2, 3):
            add('cantor_dust', dim=dim, level=level)
    for dim in (2, 3):
        for level in (1, 2, 3) if dim == 2 else (1, 2):
            add('multisponge', dim=dim, level=level)
            add('vicsek_fractal', dim=dim, level=level)
    for level in (1, 2, 3):
        add('rgb_fractal', level=level, n=2 + level % 2)
    for d in ([2, 3, 4] if thorough else [2, 3]):
        add('signaling_cascade', d=d)
    for lanes in (2, 3, 4):
        for cars in (1, 2, 3):
            add('toll_station', lanes=lanes, cars=cars)
    for m in ([1, 2, 3] if thorough else [1, 2]):
        add('two_step_destruction', m=m)
    out += common.extra_tasks(PID, tier, seed)
    return out


def generator_clauses(c, op, dense_limit=4096):
    """Markov generator: column sums vanish, off-diagonals non-negative"""
    c.wf(op)
    if not spec.wf(op):
        return
    N = int(np.prod(op.row_dims))
    if N <= dense_limit:
        M = spec.mat(op)
        s = float(np.max(np.abs(M)))
        c.add('post:column-sums-vanish', float(np.max(np.abs(M.sum(axis=0)))) <= 1e-9 * max(1.0, s), 'max |column sum| %.3g (scale %.3g)' % (np.max(np.abs(M.sum(axis=0))), s))
        off = M - np.diag(np.diag(M))
        c.add('post:off-diagonals-nonnegative', float(off.min()) >= -1e-9 * max(1.0, s), 'min %.3g' % off.min())
    else:
        # ones-vector contraction in TT form: sum over the row index of every core, then contract the chain of
        # (r x n x r') cores into the Gram scalar of the column-sum vector
        cs = [np.sum(core, axis=1) for core in op.cores]         # (r, n_col, r')
        g = np.ones((1, 1))
        for a in cs:
            g = np.einsum('xy,xnp,ynq->pq', g, a, a)
        nrm = float(np.sqrt(abs(g[0, 0])))
        scale = max(1.0, max(float(np.max(np.abs(core))) for core in op.cores))
        c.add('post:column-sums-vanish', nrm <= 1e-7 * scale * np.sqrt(N), 'TT-form 2-norm of the column-sum vector %.3g' % nrm)


def unitary_clauses(c, op):
    c.wf(op)
    if not spec.wf(op):
        return
    N = int(np.prod(op.row_dims))
    if N <= 4096:
        M = spec.mat(op)
        c.close('post:unitary', M.conj().T @ M, np.eye(N), tol=1e-9)
    else:
        import scikit_tt.tensor_train as ttm
        diff = op.transpose(conjugate=True) @ op - ttm.eye(op.row_dims)
        c.add('post:unitary', diff.norm(p=2) <= 1e-7 * np.sqrt(N), 'TT-form ||G^H G - I|| = %.3g' % diff.norm(p=2))


def digits3(level, idx):
    out = []
    for _ in range(level):
        out.append(idx % 3)
        idx //= 3
    return out[::-1]


def t3_case(case):
    import scikit_tt.models as mdl
    from scikit_tt.tensor_train import TT
    rng = rng_for(case)
    model = case['model']
    c = Clauses(PID, 'models.' + model, case, modfunc=('vt.props.c13', 't3_case'))

    if model == 'ising':
        d = case['d']
        J, h = float(rng.standard_normal()), float(rng.standard_normal())
        ok, t = c.guarded('post:value', lambda: mdl.ising(d, J, h))
        if ok:
            c.wf(t)
            if spec.wf(t):
                T = spec.den(t).reshape([2] * d)
                want = np.zeros([2] * d)
                for ix in itertools.product(range(2), repeat=d):
                    x = [1 - 2 * i for i in ix]
                    want[ix] = -J * sum(x[i] * x[i + 1] for i in range(d - 1)) - h * sum(x)
                c.close('post:value', T, want)
    elif model in ('qft', 'iqft'):
        n = case['n']
        ok, G = c.guarded('post:product==bit-reversed-DFT', lambda: getattr(mdl, model)(n))
        if ok:
            N = 2 ** n
            c.add('post:number-of-groups', len(G) == n)
            P = np.eye(N, dtype=complex)
            bad = []
            for j, g in enumerate(G):
                if spec.wf_report(g):
                    bad.append('group %d not wf' % j)
                    continue
                M = spec.mat(g).reshape(N, N)
                okc, det = spec.close(M.conj().T @ M, np.eye(N), 1e-10)
                if not okc:
                    bad.append('group %d not unitary: %s' % (j, det))
                P = M @ P
            c.add('post:groups-unitary', not bad, '; '.join(bad[:3]))
            x = np.arange(N)
            rev = np.array([int(np.binary_repr(y, width=n)[::-1], 2) for y in range(N)])
            F = np.exp(2j * np.pi * np.outer(rev, x) / N) / np.sqrt(N)
            c.close('post:product==bit-reversed-DFT', P, F if model == 'qft' else np.conj(F), tol=1e-10)
    elif model in ('qfa', 'qfan', 'shor'):
        call = {'qfa': lambda: mdl.qfa(), 'qfan': lambda: mdl.qfan(case['n']), 'shor': lambda: mdl.shor(case['a'])}[model]
        ok, g = c.guarded('post:unitary', call)
        if ok:
            unitary_clauses(c, g)
            if model == 'shor' and spec.wf(g):
                # permutation: applied to a basis state the oracle returns a basis state |x>|a^x mod 15 (xor) y>
                import scikit_tt.tensor_train as ttm
                bits = [int(b) for b in rng.integers(0, 2, size=12)]
                out = g @ ttm.unit([2] * 12, bits)
                v = np.abs(spec.den(out).reshape(-1))
                c.add('post:maps-basis-state-to-basis-state', abs(v.max() - 1) < 1e-9 and abs(np.sum(v ** 2) - 1) < 1e-9, 'max %.6g, sum of squares %.6g' % (v.max(), np.sum(v ** 2)))
    elif model == 'exciton_chain':
        n = case['n']
        al, be = float(rng.standard_normal()), float(rng.standard_normal())
        ok, t = c.guarded('post:value', lambda: mdl.exciton_chain(n, al, be))
        if ok:
            c.wf(t)
            if spec.wf(t):
                ra = np.diag([1.0], -1)
                lo = np.diag([1.0], 1)

                def emb(ops):
                    M = np.ones((1, 1))
                    for i in range(n):
                        M = np.kron(M, ops.get(i, np.eye(2)))
                    return M
                H = np.zeros((2 ** n, 2 ** n))
                for i in range(n):
                    H += al * emb({i: ra @ lo})
                    j = (i + 1) % n
                    H += be * (emb({i: ra, j: lo}) + emb({i: lo, j: ra}))
                M = spec.mat(t)
                c.close('post:value', M, H)
                c.close('post:hermitian', M, M.conj().T)
    elif model == 'co_oxidation':
        ok, t = c.guarded('post:column-sums-vanish', lambda: mdl.co_oxidation(case['order'], float(10 ** rng.uniform(2, 6)), cyclic=case['cyclic']))
        if ok:
            generator_clauses(c, t)
            c.add('post:dims', list(t.row_dims) == [3] * case['order'] and list(t.col_dims) == [3] * case['order'])
    elif model == 'signaling_cascade':
        ok, t = c.guarded('post:column-sums-vanish', lambda: mdl.signaling_cascade(case['d']))
        if ok:
            generator_clauses(c, t)
    elif model == 'toll_station':
        ok, t = c.guarded('post:column-sums-vanish', lambda: mdl.toll_station(case['lanes'], case['cars']))
        if ok:
            generator_clauses(c, t)
    elif model == 'two_step_destruction':
        ks = [float(rng.uniform(0.1, 3.0)) for _ in range(3)]
        ok, t = c.guarded('post:column-sums-vanish', lambda: mdl.two_step_destruction(ks[0], ks[1], ks[2], case['m']))
        if ok:
            generator_clauses(c, t)
    elif model == 'fpu':
        d = case['d']
        ok, t = c.guarded('post:reproduces-rhs', lambda: mdl.fpu_coefficients(d))
        if ok:
            c.wf(t)
            if spec.wf(t):
                Xi = spec.den(t).reshape([4] * d + [d])
                bad = []
                for _ in range(5):
                    x = rng.standard_normal(d)
                    psi = [np.array([1.0, xi, xi ** 2, xi ** 3]) for xi in x]
                    f = Xi
                    for p in psi:
                        f = np.tensordot(p, f, axes=([0], [0]))
                    xe = np.concatenate([[0.0], x, [0.0]])
                    want = np.array([xe[q + 2] - 2 * xe[q + 1] + xe[q] + 0.7 * ((xe[q + 2] - xe[q + 1]) ** 3 - (xe[q + 1] - xe[q]) ** 3) for q in range(d)])
                    okc, det = spec.close(f, want, 1e-9)
                    if not okc:
                        bad.append(det)
                c.add('post:reproduces-rhs', not bad, '; '.join(bad[:2]))
    elif model == 'kuramoto':
        d = case['d']
        w = rng.standard_normal(d)
        ok, t = c.guarded('post:reproduces-rhs', lambda: mdl.kuramoto_coefficients(d, w.copy()))
        if ok:
            c.wf(t)
            if spec.wf(t):
                Xi = spec.den(t).reshape([d + 1, d + 1, d])
                bad = []
                for _ in range(5):
                    x = rng.uniform(-np.pi, np.pi, d)
                    f = np.einsum('a,b,abq->q', np.concatenate([[1.0], np.sin(x)]), np.concatenate([[1.0], np.cos(x)]), Xi)
                    want = np.array([w[q] + (2.0 / d) * sum(np.sin(x[j] - x[q]) for j in range(d)) + 0.2 * np.sin(x[q]) for q in range(d)])
                    okc, det = spec.close(f, want, 1e-9)
                    if not okc:
                        bad.append(det)
                c.add('post:reproduces-rhs', not bad, '; '.join(bad[:2]))
    elif model in ('cantor_dust', 'multisponge', 'vicsek_fractal'):
        dim, level = case['dim'], case['level']
        fn = getattr(mdl, model)
        ok, fr = c.guarded('post:value', lambda: fn(dim, level))
        if ok:
            rule = {'cantor_dust': lambda ds: all(x != 1 for x in ds),
                    'multisponge': lambda ds: sum(x == 1 for x in ds) <= 1,
                    'vicsek_fractal': lambda ds: sum(x == 1 for x in ds) >= dim - 1}[model]
            gen = np.zeros([3] * dim, dtype=int)
            for ix in itertools.product(range(3), repeat=dim):
                gen[ix] = 1 if rule(ix) else 0
            want = gen
            for _ in range(level - 1):
                want = np.kron(want, gen)
            c.add('post:shape', tuple(fr.shape) == (3 ** level,) * dim, str(fr.shape))
            if tuple(fr.shape) == want.shape:
                c.add('post:value', np.array_equal(fr, want), '%d entries differ' % int(np.sum(fr != want)))
    elif model == 'rgb_fractal':
        level, n = case['level'], case['n']
        Ms = [rng.uniform(0, 1, (n, n)) for _ in range(3)]
        ok, fr = c.guarded('post:value', lambda: mdl.rgb_fractal(Ms[0].copy(), Ms[1].copy(), Ms[2].copy(), level))
        if ok:
            c.add('post:shape', tuple(fr.shape) == (n ** level, n ** level, 3), str(fr.shape))
            if tuple(fr.shape) == (n ** level, n ** level, 3):
                bad = []
                for ch in range(3):
                    want = Ms[ch]
                    for _ in range(level - 1):
                        want = np.kron(want, Ms[ch])
                    okc, det = spec.close(fr[:, :, ch], want, 1e-12)
                    if not okc:
                        bad.append('channel %d: %s' % (ch, det))
                c.add('post:value', not bad, '; '.join(bad))
    return c.out
