"""C10 - splitting integrators equal the composed local propagators, at the right order."""
import numpy as np
import scipy.linalg as sl
from vt import spec
from vt.t3 import Clauses, rng_for
from vt.props import common

PID = 'C10'
META = common.meta(
    PID,
    functions=['scikit_tt.solvers.ode:%s' % f for f in
               ['lie_splitting', 'strang_splitting', 'yoshida_splitting', 'kahan_li_splitting', '__splitting_propagators',
                '__splitting_stage']] + ['scikit_tt.utils:truncated_svd'],
    trusted=['L-split: order conditions of symmetric compositions (Yoshida 1990; Kahan-Li 1997)'],
    rule='T3: seeded SLIM components (S, L, I, M) homogeneous and site-dependent, chain length 2-5, local dimension 2-3, '
         'interaction rank 1-2, real and complex (incl. skew-Hermitian generators), step sizes and counts; one step is '
         'compared with the dense ordered product of even/odd-bond matrix exponentials; convergence orders from h and '
         'h/2; non-trivial = chain length >= 3 or interaction rank >= 2.')

YG1 = 1.0 / (2 - 2 ** (1 / 3))
YG2 = -2 ** (1 / 3) / (2 - 2 ** (1 / 3))
KL = [0.13020248308889008087881763, 0.56116298177510838456196441, -0.38947496264484728640807860,
      0.15884190655515560089621075, -0.39590389413323757733623154, 0.18453964097831570709183254,
      0.25837438768632204729397911, 0.29501172360931029887096624, -0.60550853383003451169892108]


def tasks(tier, seed):
    out = []
    n = 48 if tier == 'quick' else common.thorough(320)
    for k in range(n):
        out.append(('vt.props.c10', 't3_case', {'seed': seed, 'k': k, 'backend': 'T3', 'd': 2 + k % 4,
                                                'kind': ['real', 'complex', 'skew'][(k // 4) % 3], 'hom': (k // 12) % 2 == 0,
                                                'scheme': ['lie', 'strang', 'yoshida', 'kahan_li'][(k // 24) % 4 if tier != 'quick' else k % 4]}))
    out += common.extra_tasks(PID, tier, seed)
    return out


def make_slim(rng, d, kind, hom):
    n = int(rng.choice([2, 3])) if d <= 3 else 2
    r = int(rng.choice([1, 2]))
    cplx = kind in ('complex', 'skew')

    def site():
        S = spec.rnd(rng, (n, n), 'complex' if cplx else 'real')
        Lm = spec.rnd(rng, (n, n, r), 'complex' if cplx else 'real')
        Mm = spec.rnd(rng, (r, n, n), 'complex' if cplx else 'real')
        if kind == 'skew':
            # generator -iH with Hermitian H: S skew-Hermitian, L_k (x) M_k = -i * (Hermitian (x) Hermitian)
            S = S - S.conj().T
            for k in range(r):
                a = Lm[:, :, k] + Lm[:, :, k].conj().T
                b = Mm[k] + Mm[k].conj().T
                Lm[:, :, k] = -1j * a
                Mm[k] = b
        return S, Lm, Mm
    Id = np.eye(n)
    if hom:
        S, Lm, Mm = site()
        if r == 1 and rng.integers(2):
            return S, Lm[:, :, 0], Id, Mm[0], n, r      # 2-d component variant
        return S, Lm, Id, Mm, n, r
    Ss, Ls, Ms = [], [], []
    for _ in range(d):
        S, Lm, Mm = site()
        Ss.append(S)
        Ls.append(Lm)
        Ms.append(Mm)
    return Ss, Ls, [Id.copy() for _ in range(d)], Ms, n, r


def generators(S, L, I, M, d, n):
    """dense embedded generators G_i (i < d-1: S_i (x) I + sum_k L_i^k (x) M_{i+1}^k on sites i,i+1; i = d-1: S_{d-1})"""
    hom = not isinstance(S, list)
    G = []
    for i in range(d):
        Si = S if hom else S[i]
        if i < d - 1:
            Li = L if hom else L[i]
            Mi = M if hom else M[i + 1]
            if Li.ndim == 2:
                Li = Li[:, :, None]
                Mi = Mi[None, :, :]
            loc = np.kron(Si, np.eye(n)) + sum(np.kron(Li[:, :, k], Mi[k]) for k in range(Li.shape[2]))
            G.append(np.kron(np.kron(np.eye(n ** i), loc), np.eye(n ** (d - i - 2))))
        else:
            G.append(np.kron(np.eye(n ** (d - 1)), Si))
    return G


def stage_list(scheme):
    """list of (group, coefficient): group 0 = even sites/bonds, 1 = odd; applied left to right in time"""
    def strang(c):
        return [(0, 0.5 * c), (1, c), (0, 0.5 * c)]
    if scheme == 'lie':
        return [(0, 1.0), (1, 1.0)]
    if scheme == 'strang':
        return strang(1.0)
    if scheme == 'yoshida':
        return strang(YG1) + strang(YG2) + strang(YG1)
    out = []
    for j in range(9):
        out += strang(KL[j])
    for j in range(7, -1, -1):
        out += strang(KL[j])
    return out


def dense_step(G, d, scheme, h):
    N = G[0].shape[0]
    U = np.eye(N, dtype=complex)
    for (grp, c) in stage_list(scheme):
        gen = sum(G[i] for i in range(d) if i % 2 == grp)
        if not isinstance(gen, np.ndarray):
            continue
        U = sl.expm(c * h * gen) @ U
    return U


def t3_case(case):
    import scikit_tt.solvers.ode as ode
    rng = rng_for(case)
    d, kind, hom, scheme = case['d'], case['kind'], case['hom'], case['scheme']
    c = Clauses(PID, 'ode.%s_splitting' % scheme, case, modfunc=('vt.props.c10', 't3_case'))
    S, L, I, M, n, r = make_slim(rng, d, kind, hom)
    G = generators(S, L, I, M, d, n)
    Atot = sum(G)
    scale = max(1.0, float(np.linalg.norm(Atot, 2)))
    fn = getattr(ode, scheme + '_splitting')
    mr = spec.max_ranks([n] * d, [1] * d)
    init = spec.rand_tt(rng, [n] * d, [1] * d, mr, 'complex' if kind != 'real' else 'real')
    x0 = spec.mat(init)[:, 0]
    init = init * (1.0 / np.linalg.norm(x0))
    x0 = spec.mat(init)[:, 0]
    si = spec.Snap(init)
    sig = 'd%d/%s/%s' % (d, kind, 'hom' if hom else 'inhom')
    nt = d >= 3 or r >= 2

    def copy_comp(x):
        return [a.copy() for a in x] if isinstance(x, list) else x.copy()

    def run(h, steps, normalize=0):
        return fn(copy_comp(S), copy_comp(L), copy_comp(I), copy_comp(M), init, h, steps, threshold=1e-14, max_rank=10 ** 6, normalize=normalize)

    h = float(rng.uniform(0.2, 0.6)) / scale
    steps = int(rng.integers(1, 4))
    ok, sol = c.guarded('post:one-step==dense-product', lambda: run(h, steps))
    if ok:
        c.add('post:length', len(sol) == steps + 1, '%d' % len(sol), sig=sig)
        c.add('post:head-is-initial-value', sol[0] is init, sig=sig)
        U = dense_step(G, d, scheme, h)
        bad, x = [], x0
        for j in range(1, min(len(sol), steps + 1)):
            x = U @ x
            w = spec.wf_report(sol[j])
            if w:
                bad.append('state %d not wf: %s' % (j, w[0]))
                continue
            okc, det = spec.close(spec.mat(sol[j])[:, 0], x, 1e-8)
            if not okc:
                bad.append('state %d: %s' % (j, det))
        c.add('post:one-step==dense-product', not bad, '; '.join(bad[:3]), nontrivial=nt, sig=sig)
        if kind == 'skew':
            bad = [j for j in range(len(sol)) if abs(np.linalg.norm(spec.mat(sol[j])[:, 0]) - 1) > 1e-8]
            c.add('post:norm-preserved[skew-Hermitian]', not bad, str(bad), sig=sig)
    c.frame([si], [init])
    ok, sol = c.guarded('post:unit-norm[normalize=2]', lambda: run(h, 2, normalize=2))
    if ok:
        bad = [j for j in range(1, len(sol)) if abs(np.linalg.norm(spec.mat(sol[j])[:, 0]) - 1) > 1e-8]
        c.add('post:unit-norm[normalize=2]', not bad, str(bad), sig=sig)

    # convergence order from h and h/2 over a fixed time interval ----------------------------------------------------------
    p = {'lie': 1, 'strang': 2, 'yoshida': 4, 'kahan_li': 6}[scheme]
    T = {'lie': 0.02, 'strang': 0.1, 'yoshida': 0.4, 'kahan_li': 1.2}[scheme] / scale
    exact = sl.expm(T * Atot) @ x0
    errs = []
    for m in (2, 4):
        ok, sol = c.guarded('post:convergence-order', lambda: run(T / m, m))
        if not ok:
            break
        errs.append(float(np.linalg.norm(spec.mat(sol[-1])[:, 0] - exact)))
    if len(errs) == 2:
        if errs[0] < 1e-11:
            c.add('post:convergence-order', True, 'errors at rounding level %s' % errs, nontrivial=False, sig=sig)
        else:
            rate = np.log2(errs[0] / max(errs[1], 1e-300))
            okr = rate >= p - 0.6 if scheme != 'kahan_li' else (rate >= 5.0 or errs[1] < 1e-11)
            c.add('post:convergence-order', okr, 'errors %.3g %.3g observed order %.2f expected >= %d' % (errs[0], errs[1], rate, p), nontrivial=nt, sig=sig)
    return c.out
