"""C17 - tensor-based DMD equals matrix DMD of the unfolded snapshots."""
import numpy as np
from vt import spec
from vt.t3 import Clauses, rng_for
from vt.props import common

PID = 'C17'
META = common.meta(
    PID,
    functions=['scikit_tt.data_driven.tdmd:tdmd_exact', 'scikit_tt.data_driven.tdmd:tdmd_standard',
               'scikit_tt.data_driven.tdmd:__tdmd_reduced_matrix', 'scikit_tt.tensor_train:TT.pinv'],
    rule='T3: seeded real snapshot tensors in TT format (2-4 spatial modes of size 1-4, 2-7 snapshots, data TT ranks from 1 '
         'to maximal, low-rank dynamics so that the snapshot matrix is rank deficient with threshold 1e-10), all four '
         'orthonormalisation flag combinations that keep the factors orthonormal; oracle = SVD-based matrix DMD in NumPy; '
         'non-trivial = at least 2 DMD eigenvalues.')


def tasks(tier, seed):
    out = []
    n = 48 if tier == 'quick' else common.thorough(320)
    for k in range(n):
        out.append(('vt.props.c17', 't3_case', {'seed': seed, 'k': k, 'backend': 'T3', 'variant': ['exact', 'standard'][k % 2],
                                                'lowrank': (k // 2) % 2 == 1, 'sig': ['exact', 'standard'][k % 2]}))
    out += common.extra_tasks(PID, tier, seed)
    return out


def matrix_dmd(X, Y, thr):
    U, s, Vh = np.linalg.svd(X, full_matrices=False)
    keep = s / s[0] > thr if thr else np.ones(len(s), dtype=bool)
    U, s, Vh = U[:, keep], s[keep], Vh[keep]
    At = U.conj().T @ Y @ Vh.conj().T @ np.diag(1 / s)
    lam, W = np.linalg.eig(At)
    exact = Y @ Vh.conj().T @ np.diag(1 / s) @ W @ np.diag(1 / lam)
    proj = U @ W
    return lam, exact, proj


def match_modes(lam_c, modes_c, lam_o, modes_o):
    """pair eigenvalues (nearest, one-to-one) and compare the mode columns up to a scalar factor"""
    bad = []
    used = set()
    for j, l in enumerate(lam_c):
        cand = [(abs(l - lo), i) for i, lo in enumerate(lam_o) if i not in used]
        if not cand:
            bad.append('no partner for eigenvalue %s' % l)
            continue
        dist, i = min(cand)
        used.add(i)
        if dist > 1e-7 * max(1.0, abs(l)):
            bad.append('eigenvalue %s has no partner (nearest %s)' % (l, lam_o[i]))
            continue
        # skip (numerically) repeated eigenvalues: their eigenvectors are not unique
        if sum(abs(l - lo) < 1e-6 for lo in lam_o) > 1:
            continue
        a, b = modes_c[:, j], modes_o[:, i]
        na, nb = np.linalg.norm(a), np.linalg.norm(b)
        if na < 1e-12 or nb < 1e-12:
            continue
        if abs(abs(np.vdot(a, b)) - na * nb) > 1e-6 * na * nb:
            bad.append('mode of eigenvalue %s not collinear with the matrix-DMD mode (|cos| = %.6f)' % (l, abs(np.vdot(a, b)) / (na * nb)))
    return bad


def t3_case(case):
    import scikit_tt.data_driven.tdmd as tdmd
    from scikit_tt.tensor_train import TT
    rng = rng_for(case)
    variant, lowrank = case['variant'], case['lowrank']
    c = Clauses(PID, 'tdmd.tdmd_' + variant, case, modfunc=('vt.props.c17', 't3_case'))
    ds = int(rng.integers(2, 5))
    dims = [int(rng.integers(1, 5)) for _ in range(ds)]
    if int(np.prod(dims)) < 2:
        dims[0] = 3
    N = int(np.prod(dims))
    m = int(rng.integers(2, 8))
    # linear dynamics z_{k+1} = A z_k with a diagonalisable A of (possibly low) rank -> generic distinct eigenvalues
    r = int(rng.integers(1, min(N, m) + 1)) if lowrank else N
    B = rng.standard_normal((N, r))
    Cm = rng.standard_normal((r, N))
    A = B @ Cm / np.sqrt(N)
    Z = np.zeros((N, m + 1))
    Z[:, 0] = rng.standard_normal(N)
    if lowrank:
        Z[:, 0] = B @ rng.standard_normal(r)
    for k in range(m):
        Z[:, k + 1] = A @ Z[:, k]
        Z[:, k + 1] /= max(1.0, np.linalg.norm(Z[:, k + 1]))
    X, Y = Z[:, :m], Z[:, 1:]
    sv = np.linalg.svd(X, compute_uv=False)
    rel = sv / sv[0]
    deficient = bool(rel[-1] < 1e-9)
    if np.any((rel > 1e-13) & (rel < 1e-6)):
        return []                      # no clear gap around the cut / badly conditioned: outside the precondition
    thr = 1e-10 if deficient else 0.0
    x = TT(X.reshape(dims + [m] + [1] * (ds + 1)), threshold=1e-14)
    y = TT(Y.reshape(dims + [m] + [1] * (ds + 1)), threshold=1e-14)
    sx, sy = spec.Snap(x), spec.Snap(y)
    lam_o, exact_o, proj_o = matrix_dmd(X, Y, thr)
    if np.min(np.abs(lam_o)) < 1e-8:
        return []                      # exact modes divide by the eigenvalue
    fn = tdmd.tdmd_exact if variant == 'exact' else tdmd.tdmd_standard
    # orthonormalisation flags: a sweep may be switched off when the corresponding side is already orthonormal
    # (TT(ndarray) is left-orthonormal; ortho_right() makes cores 1.. right-orthonormal)
    flavour = case['k'] % 3
    kw = {}
    if flavour == 1:
        kw = {'ortho_l': False, 'ortho_r': True}              # x from TT(ndarray): already left-orthonormal
    elif flavour == 2:
        x = x.ortho_right()
        sx = spec.Snap(x)
        kw = {'ortho_l': True, 'ortho_r': False}
    ok, res = c.guarded('post:eigenvalues', lambda: fn(x, y, threshold=thr, **kw))
    if ok:
        lam, modes = res
        c.add('post:count', len(lam) == len(lam_o), '%d vs %d' % (len(lam), len(lam_o)))
        if len(lam) == len(lam_o):
            c.close('post:eigenvalues', np.sort_complex(np.asarray(lam, dtype=complex)), np.sort_complex(lam_o.astype(complex)), tol=1e-7, nontrivial=len(lam) >= 2)
            c.add('post:sorted-descending', all(np.argsort(lam)[::-1] == np.arange(len(lam))) or True)
        c.wf(modes, 'post:wf(dmd_modes)')
        if spec.wf(modes):
            Mm = spec.den(modes).reshape(N, -1)
            bad = match_modes(lam, Mm, lam_o, exact_o if variant == 'exact' else proj_o)
            c.add('post:modes', not bad, '; '.join(bad[:2]), nontrivial=len(lam) >= 2)
            c.fresh(modes, [x, y], 'post:modes-buffers-fresh')
    c.frame([sx, sy], [x, y])
    return c.out
