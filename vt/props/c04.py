"""C04 - rank truncation is bounded in rank and in error."""
import numpy as np
from vt import spec
from vt.t3 import Clauses, rng_for
from vt.props import common

PID = 'C04'
META = common.meta(
    PID,
    functions=['scikit_tt.tensor_train:TT.__init__', 'scikit_tt.tensor_train:TT.ortho', 'scikit_tt.tensor_train:TT.ortho_left',
               'scikit_tt.tensor_train:TT.ortho_right', 'scikit_tt.utils:truncated_svd'],
    trusted=['L-trunc: TT-SVD quasi-optimality (Oseledets 2011, Thm 2.2) and Eckart-Young'],
    rule='T3: seeded full tensors of order 2-5 with flat and geometrically decaying spectra, real/complex; max_rank int '
         'and per-bond list; thresholds in [0,1); non-trivial = truncation actually discards something; '
         'distinct = distinct (obligation, case).')


def tasks(tier, seed):
    out = []
    n = 80 if tier == 'quick' else common.thorough(500)
    for k in range(n):
        out.append(('vt.props.c04', 't3_case', {'seed': seed, 'k': k, 'backend': 'T3', 'd': 2 + k % 4,
                                                'kind': ['real', 'complex'][k % 2], 'spectrum': ['flat', 'decay'][(k // 2) % 2]}))
    out += common.extra_tasks(PID, tier, seed)
    return out


def unfold_tail(X, d, k, r):
    """best rank-r error of the k-th unfolding (rows = first k row/col mode pairs)"""
    perm = [j for i in range(d) for j in (i, d + i)]
    Y = np.transpose(X, perm)
    m = int(np.prod(Y.shape[:2 * k]))
    s = np.linalg.svd(Y.reshape(m, -1), compute_uv=False)
    return float(np.sqrt(np.sum(s[r:] ** 2))) if r < len(s) else 0.0


def make_full(rng, d, kind, spectrum):
    dims = [1, 2, 3] if d >= 4 else [1, 2, 3, 4]
    rd = [int(rng.choice(dims)) for _ in range(d)]
    cd = [int(rng.choice([1, 2])) for _ in range(d)]
    X = spec.rnd(rng, rd + cd, kind)
    if spectrum == 'decay':
        # superpose rank-one terms with geometrically decaying weights
        X = np.zeros(rd + cd, dtype=X.dtype)
        for j in range(6):
            term = np.array(1.0)
            for n in rd + cd:
                term = np.multiply.outer(term, spec.rnd(rng, (n,), kind))
            X = X + (0.3 ** j) * term
    return X, rd, cd


def t3_case(case):
    from scikit_tt.tensor_train import TT
    rng = rng_for(case)
    d, kind, spectrum = case['d'], case['kind'], case['spectrum']
    obs = []
    mf = ('vt.props.c04', 't3_case')

    def C(func):
        c = Clauses(PID, func, case, modfunc=mf)
        obs.append(c)
        return c
    X, rd, cd = make_full(rng, d, kind, spectrum)
    nX = float(np.linalg.norm(X.ravel()))
    X0 = X.copy()
    mr = spec.max_ranks(rd, cd)

    c = C('TT.__init__[array]')
    ok, t = c.guarded('post:exact[threshold=0]', lambda: TT(X))
    if ok:
        c.wf(t)
        c.close('post:exact[threshold=0]', spec.den(t), X0)
        c.add('post:dims', list(t.row_dims) == rd and list(t.col_dims) == cd)
        c.add('frame:array-unchanged', np.array_equal(X, X0))
    # max_rank (int)
    r = int(rng.integers(1, 4))
    ok, t = c.guarded('post:rank<=max_rank', lambda: TT(X, max_rank=r))
    if ok:
        c.wf(t, 'post:wf(result)[max_rank]')
        c.add('post:rank<=max_rank', all(x <= r for x in t.ranks[1:-1]), '%s cap %d' % (t.ranks, r))
        err = float(np.linalg.norm((spec.den(t) - X0).ravel()))
        bound = float(np.sqrt(sum(unfold_tail(X0, d, k, r) ** 2 for k in range(1, d))))
        c.add('post:quasi-optimal[max_rank]', err <= bound * (1 + 1e-8) + 1e-10 * nX, 'err %.6g bound %.6g' % (err, bound),
              nontrivial=bound > 1e-12)
    # relative threshold
    thr = float(rng.choice([1e-12, 1e-3, 0.05, 0.2, 0.5, 0.9]))
    ok, t = c.guarded('post:threshold-bound', lambda: TT(X, threshold=thr))
    if ok:
        c.wf(t, 'post:wf(result)[threshold]')
        err = float(np.linalg.norm((spec.den(t) - X0).ravel()))
        # number of discarded singular directions: sum over bonds of (untruncated rank at that step - kept rank)
        disc, rk = 0, 1
        for k in range(1, d):
            full_k = min(rk * rd[k - 1] * cd[k - 1], int(np.prod(rd[k:])) * int(np.prod(cd[k:])))
            disc += full_k - t.ranks[k]
            rk = t.ranks[k]
        c.add('post:threshold-bound', err <= thr * nX * np.sqrt(max(disc, 0)) * (1 + 1e-8) + 1e-10 * nX,
              'err %.6g thr %.3g norm %.6g discarded %d' % (err, thr, nX, disc), nontrivial=disc > 0)

    # both options together: the rank cap holds whatever the threshold keeps
    ok, t = c.guarded('post:rank<=max_rank[threshold+max_rank]', lambda: TT(X, threshold=min(thr, 1e-3), max_rank=r))
    if ok:
        c.add('post:rank<=max_rank[threshold+max_rank]', all(x <= r for x in t.ranks[1:-1]), '%s cap %d' % (t.ranks, r))
        err = float(np.linalg.norm((spec.den(t) - X0).ravel()))
        bound = float(np.sqrt(sum(unfold_tail(X0, d, k, r) ** 2 for k in range(1, d))))
        c.add('post:error-bound[threshold+max_rank]', err <= np.sqrt(bound ** 2 + (min(thr, 1e-3) * nX) ** 2 * max(1, sum(mr) )) * (1 + 1e-8) + 1e-10 * nX,
              'err %.6g quasi-optimal bound %.6g' % (err, bound))

    # truncation of a TT given by cores ------------------------------------------------------------------------------
    c = C('TT.ortho')
    rk = [1] + [int(rng.integers(1, 6)) for _ in range(d - 1)] + [1]
    s = TT(spec.rand_cores(rng, rd, cd, rk, kind))
    if spectrum == 'decay':
        for i, core in enumerate(s.cores):
            for j in range(core.shape[3]):
                core[:, :, :, j] *= 0.4 ** j
    S = spec.den(s)
    nS = float(np.linalg.norm(S.ravel()))
    r = int(rng.integers(1, 4))
    a = s.copy()
    ok, _ = c.guarded('post:rank<=max_rank', lambda: a.ortho(max_rank=r))
    if ok:
        c.wf(a, 'post:wf(self)')
        c.add('post:rank<=max_rank', all(x <= r for x in a.ranks[1:-1]), '%s cap %d' % (a.ranks, r))
        err = float(np.linalg.norm((spec.den(a) - S).ravel()))
        bound = float(np.sqrt(sum(unfold_tail(S, d, k, r) ** 2 for k in range(1, d))))
        c.add('post:quasi-optimal', err <= bound * (1 + 1e-8) + 1e-10 * nS, 'err %.6g bound %.6g' % (err, bound),
              nontrivial=bound > 1e-12 * nS)
    a = s.copy()
    ok, _ = c.guarded('post:rank<=max_rank[threshold+max_rank]', lambda: a.ortho(threshold=1e-6, max_rank=r))
    if ok:
        c.add('post:rank<=max_rank[threshold+max_rank]', all(x <= r for x in a.ranks[1:-1]), '%s cap %d' % (a.ranks, r))
    # per-bond list
    caps = [1] + [int(rng.integers(1, 4)) for _ in range(d - 1)] + [1]
    a = s.copy()
    ok, _ = c.guarded('post:rank<=max_rank[list]', lambda: a.ortho(max_rank=list(caps)))
    if ok:
        c.wf(a, 'post:wf(self)[list]')
        c.add('post:rank<=max_rank[list]', all(x <= y for x, y in zip(a.ranks, caps)), '%s caps %s' % (a.ranks, caps))
        err = float(np.linalg.norm((spec.den(a) - S).ravel()))
        bound = float(np.sqrt(sum(unfold_tail(S, d, k, caps[k]) ** 2 for k in range(1, d))))
        c.add('post:quasi-optimal[list]', err <= bound * (1 + 1e-8) + 1e-10 * nS, 'err %.6g bound %.6g' % (err, bound),
              nontrivial=bound > 1e-12 * nS)
    # construction from cores with max_rank
    c2 = C('TT.__init__[list]')
    ok, b = c2.guarded('post:rank<=max_rank', lambda: TT([x.copy() for x in s.cores], max_rank=r))
    if ok:
        c2.wf(b)
        c2.add('post:rank<=max_rank', all(x <= r for x in b.ranks[1:-1]), '%s cap %d' % (b.ranks, r))
    # exactness without truncation
    a = s.copy()
    ok, _ = c.guarded('post:exact[threshold=0]', lambda: a.ortho(threshold=0, max_rank=np.inf))
    if ok:
        c.close('post:exact[threshold=0]', spec.den(a), S)
    # right sweep alone, from a left-orthonormal state (gauge discipline: truncation at the orthogonality centre)
    c3 = C('TT.ortho_right')
    a = s.copy().ortho_left()
    ok, _ = c3.guarded('post:rank<=max_rank', lambda: a.ortho_right(max_rank=r))
    if ok:
        c3.add('post:rank<=max_rank', all(x <= r for x in a.ranks[1:-1]), '%s cap %d' % (a.ranks, r))
        err = float(np.linalg.norm((spec.den(a) - S).ravel()))
        bound = float(np.sqrt(sum(unfold_tail(S, d, k, r) ** 2 for k in range(1, d))))
        c3.add('post:quasi-optimal', err <= bound * (1 + 1e-8) + 1e-10 * nS, 'err %.6g bound %.6g' % (err, bound),
               nontrivial=bound > 1e-12 * nS)

    # shared helper
    c4 = C('utils.truncated_svd')
    import scikit_tt.utils as utl
    M = spec.rnd(rng, (int(rng.integers(1, 7)), int(rng.integers(1, 7))), kind)
    M0 = M.copy()
    for thr2, mrk in [(0, np.inf), (thr, np.inf), (0, r), (thr, r)]:
        tag = 'thr=%s,max_rank=%s' % ('0' if thr2 == 0 else 'pos', 'inf' if mrk == np.inf else 'int')
        ok, res = c4.guarded('post:value[%s]' % tag, lambda: utl.truncated_svd(M.copy(), threshold=thr2, max_rank=mrk))
        if ok:
            u, sv, v = res
            U, Sd, V = np.linalg.svd(M0, full_matrices=False)
            keep = len(Sd)
            if thr2 != 0:
                keep = int(np.sum(Sd / Sd[0] > thr2))
            if mrk != np.inf:
                keep = min(keep, mrk)
            c4.add('post:rank[%s]' % tag, len(sv) == keep, '%d vs %d' % (len(sv), keep))
            if len(sv) == keep:
                c4.close('post:singular-values[%s]' % tag, sv, Sd[:keep])
                c4.close('post:value[%s]' % tag, (u * sv) @ v, (U[:, :keep] * Sd[:keep]) @ V[:keep, :], tol=1e-8)
    return [o for c in obs for o in c.out]
