"""C18 - tensor-based EDMD matches matrix EDMD and treats index sets independently."""
import itertools
import numpy as np
from vt import spec
from vt.t3 import Clauses, rng_for
from vt.props import common

PID = 'C18'
META = common.meta(
    PID,
    functions=['scikit_tt.data_driven.tedmd:amuset_hosvd', 'scikit_tt.data_driven.tedmd:amuset_hocur',
               'scikit_tt.data_driven.tedmd:_reduced_matrix', 'scikit_tt.utils:truncated_svd',
               'scikit_tt.data_driven.transform:hocur'],
    rule='T3: seeded data matrices (state dimension 1-3, 6-12 snapshots), product bases with 1-3 modes of 2-3 functions, '
         'one to three index-set pairs passed singly and as lists, HOSVD threshold 0 / max_rank inf (exact) and the HOCUR '
         'variant with max_rank >= true rank; oracle = dense EDMD with numpy.linalg.pinv (rcond 1e-3, the coded cut); '
         'non-trivial = reduced matrix of size >= 2.')


def tasks(tier, seed):
    out = []
    n = 40 if tier == 'quick' else common.thorough(300)
    for k in range(n):
        out.append(('vt.props.c18', 't3_case', {'seed': seed, 'k': k, 'backend': 'T3', 'variant': ['hosvd', 'hosvd', 'hocur'][k % 3],
                                                'sig': ['hosvd', 'hosvd', 'hocur'][k % 3]}))
    out += common.extra_tasks(PID, tier, seed)
    return out


def dense_psi(x, basis):
    n = [len(b) for b in basis]
    m = x.shape[1]
    P = np.zeros(n + [m])
    for ix in itertools.product(*[range(k) for k in n]):
        for j in range(m):
            P[ix + (j,)] = np.prod([basis[k][ix[k]](x[:, j]) for k in range(len(basis))])
    return P.reshape(-1, m)


def dense_edmd(P, xi, yi, rcond=1e-3):
    Px, Py = P[:, xi], P[:, yi]
    K = np.linalg.pinv(Px.T, rcond=rcond) @ Py.T
    lam = np.linalg.eigvals(K)
    return K, lam


def t3_case(case):
    import scikit_tt.data_driven.tedmd as tedmd
    import scikit_tt.data_driven.transform as tr
    rng = rng_for(case)
    variant = case['variant']
    c = Clauses(PID, 'tedmd.amuset_' + variant, case, modfunc=('vt.props.c18', 't3_case'))
    rotation = case['k'] % 4 == 3
    if rotation:
        # noisy damped rotation: the EDMD spectrum has complex-conjugate pairs, so the ordering by |lambda - 1| (complex
        # distance) differs from an ordering by the real parts
        d, m = 2, int(rng.integers(14, 22))
        th, rho = float(rng.uniform(0.6, 1.2)), float(rng.uniform(0.85, 0.98))
        Rm = rho * np.array([[np.cos(th), -np.sin(th)], [np.sin(th), np.cos(th)]])
        x = np.zeros((2, m))
        x[:, 0] = rng.uniform(-1, 1, 2)
        for k_ in range(1, m):
            x[:, k_] = Rm @ x[:, k_ - 1] + 0.02 * rng.standard_normal(2)
        basis = [[tr.ConstantFunction(0), tr.Identity(0), tr.Monomial(0, 2)], [tr.ConstantFunction(1), tr.Identity(1), tr.Monomial(1, 2)]]
        p = 2
    else:
        d = int(rng.integers(1, 4))
        m = int(rng.integers(6, 13))
        x = rng.uniform(-1, 1, (d, m))
        p = int(rng.integers(1, 4))
        basis = []
        for _ in range(p):
            i = int(rng.integers(d))
            basis.append([tr.ConstantFunction(i), tr.Identity(i)] + ([tr.Monomial(i, 2)] if rng.integers(2) else []))
    x0 = x.copy()
    P = dense_psi(x, basis)
    npairs = int(rng.integers(1, 4))
    if rotation:
        lags = [1, 2, 3][:npairs]
        xs = [np.arange(0, m - lag) for lag in lags]
        ys = [np.arange(lag, m) for lag in lags]
    else:
        ln = int(rng.integers(3, m))
        xs = [np.sort(rng.choice(m, size=ln, replace=False)) for _ in range(npairs)]
        ys = [np.sort(rng.choice(m, size=ln, replace=False)) for _ in range(npairs)]
    # precondition: clear gap of the spectrum of Psi_x around the coded relative cut 1e-3
    for xi in xs:
        sv = np.linalg.svd(P[:, xi], compute_uv=False)
        rel = sv / sv[0]
        if np.any((rel > 1e-4) & (rel < 1e-2)):
            return []

    def call(xi, yi):
        np.random.seed(12345)
        if variant == 'hosvd':
            return tedmd.amuset_hosvd(x, xi, yi, basis, threshold=0.0, max_rank=np.inf)
        return tedmd.amuset_hocur(x, xi, yi, basis, max_rank=m, multiplier=10)

    ok, batch = c.guarded('post:eigenvalues==dense-EDMD', lambda: call(list(xs), list(ys)) if npairs > 1 else call(xs[0], ys[0]))
    if not ok:
        return c.out
    lam_b, et_b = batch
    if npairs == 1:
        lam_b, et_b = [lam_b], [et_b]
    c.add('post:count', len(lam_b) == npairs and len(et_b) == npairs, '%d %d' % (len(lam_b), len(et_b)))
    N = P.shape[0]
    for k in range(min(npairs, len(lam_b))):
        K, lam_o = dense_edmd(P, xs[k], ys[k])
        nz = lam_o[np.abs(lam_o) > 1e-9]
        want = np.real(nz[np.argsort(np.abs(nz - 1))])
        got = np.asarray(lam_b[k])
        got_nz = got[np.abs(got) > 1e-9]
        real_spectrum = bool(np.max(np.abs(np.imag(nz))) < 1e-9) if len(nz) else True
        # the order is determined up to ties; complex-conjugate pairs tie but have equal real parts, so only ties between
        # eigenvalues with different real parts make the expected real-part sequence ambiguous
        order_ = np.argsort(np.abs(nz - 1))
        dist, rp = np.abs(nz - 1)[order_], np.real(nz)[order_]
        sep = all(dist[q + 1] - dist[q] > 1e-6 or abs(rp[q + 1] - rp[q]) < 1e-9 for q in range(len(nz) - 1))
        if len(got_nz) == len(want) and sep:
            c.close('post:eigenvalues==dense-EDMD', got_nz, want, tol=1e-6, nontrivial=len(want) >= 2)
        elif sep:
            c.add('post:eigenvalues==dense-EDMD', False, 'number of non-zero eigenvalues %d vs %d' % (len(got_nz), len(want)))
        et = et_b[k]
        w = spec.wf_report(et)
        c.add('post:wf(eigentensor)', not w, '; '.join(w[:2]))
        if not w and real_spectrum:
            E = spec.den(et).reshape(N, -1)
            bad = []
            for j in range(min(E.shape[1], len(got))):
                if abs(got[j]) < 1e-9:
                    continue
                r = K @ E[:, j] - got[j] * E[:, j]
                if np.linalg.norm(r) > 1e-6 * max(1.0, np.linalg.norm(E[:, j])):
                    bad.append('eigentensor %d: residual %.3g' % (j, np.linalg.norm(r)))
            c.add('post:eigen-equation', not bad, '; '.join(bad[:2]))
    # batch == single calls, element-wise
    if npairs > 1:
        c.add('post:batch-eigentensors-distinct-objects', all(et_b[a] is not et_b[b] and not spec.shares(et_b[a], et_b[b]) for a in range(len(et_b)) for b in range(a)),
              sig='%s/list-of-index-sets' % variant)
        bad = []
        for k in range(npairs):
            ok, single = c.guarded('post:batch==single-calls', lambda: call(xs[k], ys[k]))
            if not ok:
                break
            ls, es = single
            if not np.allclose(np.asarray(ls), np.asarray(lam_b[k]), rtol=1e-7, atol=1e-9):
                bad.append('pair %d eigenvalues %s vs %s' % (k, np.asarray(ls)[:3], np.asarray(lam_b[k])[:3]))
                continue
            if spec.wf_report(es) or spec.wf_report(et_b[k]):
                bad.append('pair %d eigentensor not wf' % k)
                continue
            A, Bm = spec.den(es).reshape(N, -1), spec.den(et_b[k]).reshape(N, -1)
            if A.shape != Bm.shape:
                bad.append('pair %d eigentensor shapes %s vs %s' % (k, A.shape, Bm.shape))
                continue
            for j in range(A.shape[1]):
                # eigenvectors are defined up to sign
                if min(np.linalg.norm(A[:, j] - Bm[:, j]), np.linalg.norm(A[:, j] + Bm[:, j])) > 1e-6 * max(1.0, np.linalg.norm(A[:, j])):
                    bad.append('pair %d eigentensor %d differs by %.3g' % (k, j, min(np.linalg.norm(A[:, j] - Bm[:, j]), np.linalg.norm(A[:, j] + Bm[:, j]))))
                    break
        c.add('post:batch==single-calls', not bad, '; '.join(bad[:2]), sig='%s/list-of-index-sets' % variant)
    c.add('frame:data-unchanged', np.array_equal(x, x0))
    return c.out
