"""C15 - transformed data tensors equal the tensor of basis-function products."""
import itertools
import numpy as np
from vt import spec
from vt.t3 import Clauses, rng_for
from vt.props import common

PID = 'C15'
META = common.meta(
    PID,
    functions=['scikit_tt.data_driven.transform:%s' % f for f in
               ['basis_decomposition', 'coordinate_major', 'function_major', 'gram', 'hocur']],
    rule='T3: seeded data matrices with state dimension 1-4, snapshot counts 1-5 (including 1), 1-4 modes with 1-4 '
         'functions per mode, mixtures of function families, add_one on/off, every single_core index; HOCUR with requested '
         'ranks = number of snapshots (>= true ranks), repeats 1-3; oracle = explicit loop over multi-indices and '
         'snapshots; non-trivial = tensor has >= 2 entries.')


def tasks(tier, seed):
    out = []
    n = 60 if tier == 'quick' else common.thorough(400)
    for k in range(n):
        out.append(('vt.props.c15', 't3_case', {'seed': seed, 'k': k, 'backend': 'T3', 'm': 1 + k % 5, 'sig': 'm%d' % (1 + k % 5)}))
    out += common.extra_tasks(PID, tier, seed)
    return out


def rand_function(rng, d):
    import scikit_tt.data_driven.transform as tr
    idx = int(rng.integers(d))
    fam = int(rng.integers(7))
    if fam == 0:
        return tr.ConstantFunction(idx)
    if fam == 1:
        return tr.Identity(idx)
    if fam == 2:
        return tr.Monomial(idx, int(rng.integers(0, 4)))
    if fam == 3:
        return tr.Sin(idx, float(rng.uniform(0.5, 2)))
    if fam == 4:
        return tr.Cos(idx, float(rng.uniform(0.5, 2)))
    if fam == 5:
        return tr.GaussFunction(idx, float(rng.standard_normal()), float(rng.uniform(0.3, 2)))
    return tr.Legendre(idx, int(rng.integers(0, 4)))


def t3_case(case):
    import scikit_tt.data_driven.transform as tr
    rng = rng_for(case)
    m = case['m']
    d = int(rng.integers(1, 5))
    x = rng.uniform(-1, 1, (d, m))
    if case['k'] % 4 == 3:
        x = rng.integers(-2, 3, (d, m))          # integer-typed data (lattice / count data): values must not be truncated
    x0 = x.copy()
    obs = []
    mf = ('vt.props.c15', 't3_case')

    def C(func):
        c = Clauses(PID, func, case, modfunc=mf)
        obs.append(c)
        return c

    # ---- basis_decomposition -------------------------------------------------------------------------------------------
    p = int(rng.integers(1, 5))
    phi = [[rand_function(rng, d) for _ in range(int(rng.integers(1, 5)))] for _ in range(p)]
    n = [len(l) for l in phi]
    want = np.zeros(n + [m])
    for ix in itertools.product(*[range(k) for k in n]):
        for j in range(m):
            want[ix + (j,)] = np.prod([phi[k][ix[k]](x[:, j]) for k in range(p)])
    c = C('transform.basis_decomposition')
    ok, psi = c.guarded('post:value', lambda: tr.basis_decomposition(x, phi))
    if ok:
        c.wf(psi)
        if spec.wf(psi):
            c.add('post:dims', list(psi.row_dims) == n + [m] and list(psi.col_dims) == [1] * (p + 1), '%s' % psi.row_dims)
            c.close('post:value', spec.den(psi).reshape(n + [m]), want, tol=1e-12, nontrivial=want.size >= 2)
            bad = []
            for i in range(p):
                core = tr.basis_decomposition(x, phi, single_core=i)
                if core.shape != psi.cores[i].shape or not np.allclose(core, psi.cores[i], rtol=0, atol=1e-14):
                    bad.append('core %d' % i)
            c.add('post:single_core==core-of-full-construction', not bad, str(bad))
    c.add('frame:data-unchanged', np.array_equal(x, x0))

    # ---- gram ---------------------------------------------------------------------------------------------------------------
    c = C('transform.gram')
    m2 = int(rng.integers(1, 5))
    x2 = rng.uniform(-1, 1, (d, m2))
    ok, g = c.guarded('post:value', lambda: tr.gram(x, x2, phi))
    if ok:
        want2 = np.zeros(n + [m2])
        for ix in itertools.product(*[range(k) for k in n]):
            for j in range(m2):
                want2[ix + (j,)] = np.prod([phi[k][ix[k]](x2[:, j]) for k in range(p)])
        G = want.reshape(-1, m).T @ want2.reshape(-1, m2)
        c.close('post:value', g, G, tol=1e-11)

    # ---- HOCUR -------------------------------------------------------------------------------------------------------------
    c = C('transform.hocur')
    # HOCUR is a pivoting heuristic: it is exercised on generic floating-point data only (integer lattice data with
    # structural zeros makes the max-volume search stop early - a limitation of cross approximation, not demanded here)
    generic = np.issubdtype(x.dtype, np.floating)
    # requested ranks as a list (>= true ranks); the caller's list must survive the call (it is reused for the next call)
    req = [1] + [m + 1] * p + [1]
    req0 = list(req)
    ok = False
    if generic:
        xs_small = x[:, :max(1, m // 2)]
        ok0, h0 = c.guarded('post:value[rank-list]', lambda: tr.hocur(xs_small, phi, req, repeats=1, multiplier=10, progress=False))
        c.add('frame:rank-list-unchanged', req == req0, '%s -> %s' % (req0, req))
        ok, h = c.guarded('post:value', lambda: tr.hocur(x, phi, req, repeats=int(rng.integers(1, 4)), multiplier=10, progress=False))
    if ok:
        c.wf(h)
        if spec.wf(h):
            c.add('post:dims', list(h.row_dims) == n + [m], str(h.row_dims))
            if list(h.row_dims) == n + [m]:
                c.close('post:value', spec.den(h).reshape(n + [m]), want, tol=1e-7, nontrivial=want.size >= 2)
    c.add('frame:data-unchanged', np.array_equal(x, x0))

    # ---- coordinate_major ------------------------------------------------------------------------------------------------
    pc = int(rng.integers(1, 4))
    fs = [[lambda t: 1.0 + 0 * t, lambda t: t, lambda t: t ** 2, np.sin, np.cos, lambda t: np.exp(-t * t)][int(rng.integers(6))] for _ in range(pc)]
    c = C('transform.coordinate_major')
    wantc = np.zeros([pc] * d + [m])
    for ix in itertools.product(range(pc), repeat=d):
        for j in range(m):
            wantc[ix + (j,)] = np.prod([fs[ix[k]](x[k, j]) for k in range(d)])
    ok, psi = c.guarded('post:value', lambda: tr.coordinate_major(x, fs))
    if ok:
        c.wf(psi)
        if spec.wf(psi):
            c.close('post:value', spec.den(psi).reshape([pc] * d + [m]), wantc, tol=1e-12, nontrivial=wantc.size >= 2)
            bad = []
            for i in range(d):
                core = tr.coordinate_major(x, fs, single_core=i)
                if core.shape != psi.cores[i].shape or not np.allclose(core, psi.cores[i], rtol=0, atol=1e-14):
                    bad.append('core %d' % i)
            c.add('post:single_core==core-of-full-construction', not bad, str(bad))

    # ---- function_major -----------------------------------------------------------------------------------------------------
    c = C('transform.function_major')
    for add_one in (True, False):
        tag = '[add_one=%s]' % add_one
        sz = d + (1 if add_one else 0)
        wantf = np.zeros([sz] * pc + [m])
        for ix in itertools.product(range(sz), repeat=pc):
            for j in range(m):
                v = 1.0
                for k in range(pc):
                    if add_one:
                        v *= 1.0 if ix[k] == 0 else fs[k](x[ix[k] - 1, j])
                    else:
                        v *= fs[k](x[ix[k], j])
                wantf[ix + (j,)] = v
        ok, psi = c.guarded('post:value' + tag, lambda: tr.function_major(x, fs, add_one=add_one))
        if ok:
            c.wf(psi, 'post:wf(result)' + tag)
            if spec.wf(psi):
                c.close('post:value' + tag, spec.den(psi).reshape([sz] * pc + [m]), wantf, tol=1e-12, nontrivial=wantf.size >= 2)
                bad = []
                for i in range(pc):
                    core = tr.function_major(x, fs, add_one=add_one, single_core=i)
                    if core.shape != psi.cores[i].shape or not np.allclose(core, psi.cores[i], rtol=0, atol=1e-14):
                        bad.append('core %d' % i)
                c.add('post:single_core==core-of-full-construction' + tag, not bad, str(bad))
    c.add('frame:data-unchanged', np.array_equal(x, x0))
    return [o for c in obs for o in c.out]
