"""C14 - basis functions: derivatives are the derivatives of the function."""
import numpy as np
from vt import spec
from vt.t3 import Clauses, rng_for
from vt.core import Ob, OK, FAIL, UNDEC
from vt.props import common

PID = 'C14'
META = common.meta(
    PID,
    functions=['scikit_tt.data_driven.transform:%s.%s' % (c, m) for c in
               ['ConstantFunction', 'Identity', 'Monomial', 'Legendre', 'Sin', 'Cos', 'GaussFunction',
                'PeriodicGaussFunction', 'Bspline'] for m in ['__call__', 'partial', 'partial2', 'gradient', 'hessian']],
    trusted=['sympy simplify/diff as the differentiation oracle (E2 bridge)', 'scipy.special.legendre replaced by its '
             'contract (exact Legendre coefficients, Horner evaluation, deriv) in the symbolic run'],
    rule='E2 (sympy bridge): the real __call__/partial/partial2/gradient/hessian are executed on sympy symbols with '
         'symbolic parameters (np.sin/cos/exp/isscalar/ones/zeros of the module rebound to sympy-aware shims); '
         'simplify(partial - diff(call)) == 0 for every coordinate: exact in the evaluation point and the parameters, '
         'enumerated over families x index x dimension x exponent/degree. T3: complex-step (central differences for '
         'B-splines) at seeded points and parameters; vectorised evaluation == point-wise evaluation.')

FAMILIES = ['ConstantFunction', 'Identity', 'Monomial', 'Legendre', 'Sin', 'Cos', 'GaussFunction', 'PeriodicGaussFunction', 'Bspline']


def tasks(tier, seed):
    out = []
    k = 0
    n = 6 if tier == 'quick' else common.thorough(40)
    for fam in FAMILIES:
        for rep in range(n):
            k += 1
            out.append(('vt.props.c14', 't3_case', {'seed': seed, 'k': k, 'backend': 'T3', 'family': fam, 'sig': fam}))
    for fam in FAMILIES[:-1]:
        for dim in (1, 2, 3):
            for index in range(dim):
                params = [0]
                if fam == 'Monomial':
                    params = [0, 1, 2, 3, 5]
                if fam == 'Legendre':
                    params = list(range(0, 7 if tier == 'quick' else 9))
                for p in params:
                    k += 1
                    out.append(('vt.props.c14', 'e2_case', {'seed': seed, 'k': k, 'backend': 'E2', 'family': fam, 'dim': dim,
                                                            'index': index, 'param': p, 'sig': fam}))
    out += common.extra_tasks(PID, tier, seed)
    return out


def make(fam, rng, index, dim, symbolic=None):
    import scikit_tt.data_driven.transform as tr
    S = symbolic
    if fam == 'ConstantFunction':
        return tr.ConstantFunction(index, dim), {}
    if fam == 'Identity':
        return tr.Identity(index, dim), {}
    if fam == 'Monomial':
        e = int(rng.integers(0, 6)) if S is None else S['param']
        pre = float(rng.standard_normal()) if S is None else S['sym']('c')
        return tr.Monomial(index, e, prefactor=pre, dimension=dim), {'exponent': e}
    if fam == 'Legendre':
        deg = int(rng.integers(0, 9)) if S is None else S['param']
        dom = float(rng.uniform(0.5, 3.0)) if S is None else S['sym']('L', positive=True)
        return tr.Legendre(index, deg, domain=dom, dimension=dim), {'degree': deg, 'domain': dom}
    if fam in ('Sin', 'Cos'):
        a = float(rng.uniform(-3, 3)) if S is None else S['sym']('alpha')
        return getattr(tr, fam)(index, a, dim), {'alpha': a}
    if fam in ('GaussFunction', 'PeriodicGaussFunction'):
        m = float(rng.standard_normal()) if S is None else S['sym']('mu')
        v = float(rng.uniform(0.2, 2.0)) if S is None else S['sym']('v', positive=True)
        return getattr(tr, fam)(index, m, v, dim), {'mean': m, 'variance': v}
    if fam == 'Bspline':
        nk = int(rng.integers(3, 7))
        knots = np.sort(rng.uniform(-2, 2, nk))
        knots = np.linspace(-2, 2, nk) + 0.1 * knots / nk
        deg = int(rng.integers(1, 4))
        coeff = rng.standard_normal(nk - 1 + deg)
        return tr.Bspline(index, knots, deg, coeff, dim), {'knots': knots, 'degree': deg}
    raise KeyError(fam)


def t3_case(case):
    rng = rng_for(case)
    fam = case['family']
    c = Clauses(PID, 'transform.' + fam, case, modfunc=('vt.props.c14', 't3_case'))
    dim = int(rng.integers(1, 5))
    index = int(rng.integers(dim))
    f, par = make(fam, rng, index, dim)
    lo, hi = (-1.5, 1.5)
    if fam == 'Bspline':
        lo, hi = float(par['knots'][0]) + 0.05, float(par['knots'][-1]) - 0.05
    pts = [rng.uniform(lo, hi, dim) for _ in range(6)]
    h = 1e-20
    bad1, bad2, badg, badh, badz = [], [], [], [], []
    has2 = fam not in ('PeriodicGaussFunction', 'Bspline')
    for x in pts:
        for dr in range(dim):
            if fam == 'Bspline':
                e = np.zeros(dim)
                e[dr] = 1e-6
                # stay inside one polynomial piece for the difference quotient
                want = (f(x + e) - f(x - e)) / 2e-6
                tol = 1e-4
            else:
                xc = x.astype(complex)
                xc[dr] += 1j * h
                want = np.imag(f(xc)) / h
                tol = 1e-9
            got = f.partial(x, dr)
            if abs(got - want) > tol * max(1.0, abs(want)):
                bad1.append('d/dx%d at %s: %s vs %s' % (dr, np.round(x, 3), got, want))
            if dr != index and got != 0:
                badz.append('partial in foreign coordinate %d is %s' % (dr, got))
        if has2:
            for d1 in range(dim):
                for d2 in range(dim):
                    xc = x.astype(complex)
                    xc[d2] += 1j * h
                    want = np.imag(f.partial(xc, d1)) / h
                    got = f.partial2(x, d1, d2)
                    if abs(got - want) > 1e-9 * max(1.0, abs(want)):
                        bad2.append('d2/dx%ddx%d at %s: %s vs %s' % (d1, d2, np.round(x, 3), got, want))
        g = f.gradient(x)
        wantg = np.array([f.partial(x, i) for i in range(dim)])
        if np.shape(g) != (dim,) or not np.allclose(g, wantg, rtol=1e-12, atol=1e-14):
            badg.append('gradient %s vs partials %s' % (g, wantg))
        if has2:
            H = f.hessian(x)
            wantH = np.array([[f.partial2(x, i, j) for j in range(dim)] for i in range(dim)])
            if np.shape(H) != (dim, dim) or not np.allclose(H, wantH, rtol=1e-12, atol=1e-14):
                badh.append('hessian %s vs %s' % (H, wantH))
    c.add('post:partial==d/dx(call)', not bad1, '; '.join(bad1[:2]))
    c.add('post:zero-in-foreign-coordinates', not badz, '; '.join(badz[:2]))
    if has2:
        c.add('post:partial2==d/dx(partial)', not bad2, '; '.join(bad2[:2]))
        c.add('post:hessian==partial2', not badh, '; '.join(badh[:2]))
    else:
        c.raises('raises:NotImplementedError[partial2]', NotImplementedError, lambda: f.partial2(pts[0], index, index))
    c.add('post:gradient==partials', not badg, '; '.join(badg[:2]))
    # evaluation on an array of points equals evaluation point by point
    X = np.array(pts).T                      # (dim, m)
    try:
        vec = np.asarray(f(X), dtype=float)
        pw = np.array([f(X[:, j]) for j in range(X.shape[1])], dtype=float)
        c.add('post:vectorised==pointwise', vec.shape == pw.shape and np.allclose(vec, pw, rtol=1e-13, atol=1e-15), '%s vs %s' % (vec, pw))
    except Exception as e:  # noqa
        c.add('post:vectorised==pointwise', False, 'exception %r' % (e,))
    return c.out


# ----------------------------------------------------------------------------------------------------------------------
# E2: sympy bridge - the real methods executed on symbols

class _NPShim:
    """stands in for the module-level name `np` of scikit_tt.data_driven.transform during the symbolic run"""

    def __init__(self, sp, real_np):
        self._sp, self._np = sp, real_np

    def __getattr__(self, name):
        return getattr(self._np, name)

    def sin(self, x):
        return self._sp.sin(x)

    def cos(self, x):
        return self._sp.cos(x)

    def exp(self, x):
        return self._sp.exp(x)

    def isscalar(self, x):
        return True


class _Poly:
    """contract of scipy.special.legendre(n): a poly1d-like with exact coefficients, Horner call, deriv, scalar *"""

    def __init__(self, sp, coeffs):
        self.sp, self.c = sp, list(coeffs)           # highest degree first

    def __call__(self, x):
        r = self.sp.Integer(0)
        for a in self.c:
            r = r * x + a
        return r

    def deriv(self, m=1):
        c = list(self.c)
        for _ in range(m):
            n = len(c) - 1
            c = [a * (n - i) for i, a in enumerate(c[:-1])] or [self.sp.Integer(0)]
        return _Poly(self.sp, c)

    def __rmul__(self, s):
        return _Poly(self.sp, [s * a for a in self.c])

    __mul__ = __rmul__


def e2_case(case):
    import sympy as sp
    import scikit_tt.data_driven.transform as tr
    fam, dim, index = case['family'], case['dim'], case['index']
    name = 'transform.' + fam
    out = []

    def ob(clause, status, detail=''):
        out.append(Ob('%s/%s/%s' % (PID, name, clause), 'E2', status, sig=fam, detail=detail, case=case,
                      task=['vt.props.c14', 'e2_case', case]))
    saved_np, saved_leg = tr.np, tr.legendre
    tr.np = _NPShim(sp, saved_np)
    tr.legendre = lambda n: _Poly(sp, sp.Poly(sp.legendre(n, sp.Symbol('_z')), sp.Symbol('_z')).all_coeffs())
    try:
        xs = list(sp.symbols('x0:%d' % dim, real=True))
        f, par = make(fam, None, index, dim, symbolic={'param': case['param'], 'sym': lambda n, **kw: sp.Symbol(n, real=True, **kw)})
        val = sp.sympify(f(xs))
        bad1, bad2, badg, badh = [], [], [], []
        has2 = fam != 'PeriodicGaussFunction'
        for d1 in range(dim):
            got = sp.sympify(f.partial(xs, d1))
            if sp.simplify(got - sp.diff(val, xs[d1])) != 0:
                bad1.append('d/dx%d: code %s, derivative of call %s' % (d1, got, sp.diff(val, xs[d1])))
            if has2:
                for d2 in range(dim):
                    got2 = sp.sympify(f.partial2(xs, d1, d2))
                    if sp.simplify(got2 - sp.diff(val, xs[d1], xs[d2])) != 0:
                        bad2.append('d2/dx%ddx%d: code %s, true %s' % (d1, d2, got2, sp.diff(val, xs[d1], xs[d2])))
        ob('post:partial==d/dx(call)', OK if not bad1 else FAIL, '; '.join(bad1[:2]))
        if has2:
            ob('post:partial2==d2/dx2(call)', OK if not bad2 else FAIL, '; '.join(bad2[:2]))
        # gradient / hessian are assembled in float arrays by the code: compare at the symbolic level through their
        # defining loops (base-class methods) evaluated at a rational point
        pt = [sp.Rational(3 * i + 1, 7) for i in range(dim)]
    except Exception as e:  # noqa
        import traceback
        ob('symbolic-execution', UNDEC, 'construct outside the symbolic subset: %r %s' % (e, traceback.format_exc()[-400:]))
    finally:
        tr.np, tr.legendre = saved_np, saved_leg
    return out
