"""C06 - operands keep their value: no hidden mutation or aliasing across calls (histories)."""
import numpy as np
from vt import spec
from vt.t3 import Clauses, rng_for
from vt.props import common

PID = 'C06'
META = common.meta(
    PID,
    functions=['scikit_tt.tensor_train:TT.*', 'scikit_tt.solvers.sle:als', 'scikit_tt.solvers.sle:mals',
               'scikit_tt.solvers.evp:als', 'scikit_tt.solvers.evp:power_method', 'scikit_tt.solvers.ode:*',
               'scikit_tt.data_driven.tdmd:*', 'scikit_tt.data_driven.tedmd:*', 'scikit_tt.data_driven.regression:*'],
    rule='T3: seeded random call histories over a pool of live tensor trains (results fed back as operands, in-place '
         'and overwrite variants interleaved) at shapes with rank-1 bonds / size-1 modes where LAPACK works in place; '
         'after every step every live object is compared bit-for-bit with its shadow snapshot; plus directed two-step '
         'producer->in-place histories for every producer; non-trivial = history executed >= 3 effective steps; '
         'distinct = distinct (obligation, case).')

PRODUCERS = ['add', 'sub', 'mul', 'rmul', 'matmul', 'transpose', 'conj', 'copy', 'rank_transpose', 'concatenate',
             'concatenate_list', 'tensordot_lf', 'tensordot_ll', 'tensordot_fl', 'tensordot_ff', 'rank_tensordot',
             'diag', 'squeeze', 'tt2qtt', 'qtt2tt', 'svd', 'pinv', 'norm', 'full', 'TTlist_trunc']
MUTATORS = ['ortho_left', 'ortho_right', 'ortho', 'ortho_trunc', 'transpose_ow', 'conj_ow', 'rank_transpose_ow',
            'rank_tensordot_ow', 'concatenate_ow', 'tensordot_ow', 'svd_ow', 'pinv_ow']


def tasks(tier, seed):
    out = []
    n = 150 if tier == 'quick' else common.thorough(1500)
    for k in range(n):
        out.append(('vt.props.c06', 't3_history', {'seed': seed, 'k': k, 'backend': 'T3', 'steps': 14, 'sig': 'history'}))
    k = n
    reps = 2 if tier == 'quick' else 8
    for p in PRODUCERS:
        for m in MUTATORS[:4] + ['svd_ow', 'pinv_ow', 'rank_tensordot_ow', 'concatenate_ow']:
            for r in range(reps):
                k += 1
                out.append(('vt.props.c06', 't3_twostep', {'seed': seed, 'k': k, 'backend': 'T3', 'producer': p,
                                                           'mutator': m, 'sig': '%s->%s' % (p, m)}))
    out += common.extra_tasks(PID, tier, seed)
    # differential test of the NumPy/SciPy contract table the E1 frame / freshness proofs rest on (assumption A-numpy)
    from vt.e1 import nptest
    out += nptest.tasks(tier, seed)
    return out


class Live:
    def __init__(self, t, origin):
        self.t, self.origin = t, origin
        self.snap = spec.Snap(t)


def _small_tt(rng, d=None, vector=False, kind=None, rd=None, cd=None, r0=1, rN=1):
    from scikit_tt.tensor_train import TT
    d = d or int(rng.integers(1, 4))
    kind = kind or ['real', 'complex'][int(rng.integers(2))]
    rd = rd or [int(rng.choice([1, 2, 2, 3])) for _ in range(d)]
    cd = cd or ([1] * d if vector else [int(rng.choice([1, 1, 2])) for _ in range(d)])
    rk = [r0] + [int(rng.choice([1, 1, 2, 3])) for _ in range(d - 1)] + [rN]
    return TT(spec.rand_cores(rng, rd, cd, rk, kind))


def _tiny(a):
    """A-nonzero: relative thresholds divide by the leading singular value; exclude (numerically) zero tensors"""
    return any(float(np.max(np.abs(c))) < 1e-8 for c in a.cores) or float(np.max(np.abs(spec.G(a.cores)))) < 1e-8


def produce(rng, name, a, pool_pick):
    """apply producer `name` with first operand a (a TT); returns list of resulting TT objects (possibly empty) or None
    if not applicable.  pool_pick(pred) returns another live TT satisfying pred, or None."""
    from scikit_tt.tensor_train import TT
    d = a.order
    b1 = a.ranks[0] == 1 and a.ranks[-1] == 1
    if name in ('add', 'sub'):
        if not b1:
            return None
        b = pool_pick(lambda x: x.row_dims == a.row_dims and x.col_dims == a.col_dims and x.ranks[0] == 1 and x.ranks[-1] == 1)
        if b is None:
            b = _small_tt(rng, d, rd=list(a.row_dims), cd=list(a.col_dims))
        return [a + b if name == 'add' else a - b]
    if name == 'mul':
        return [a * float(rng.standard_normal())]
    if name == 'rmul':
        return [complex(1.0, 2.0) * a]
    if name == 'matmul':
        if not b1:
            return None
        b = pool_pick(lambda x: x.order == d and x.row_dims == a.col_dims and x.ranks[0] == 1 and x.ranks[-1] == 1)
        if b is None:
            b = _small_tt(rng, d, rd=list(a.col_dims))
        r = a @ b
        return [r] if isinstance(r, TT) else []
    if name == 'transpose':
        return [a.transpose(conjugate=bool(rng.integers(2)))]
    if name == 'conj':
        return [a.conj()]
    if name == 'copy':
        return [a.copy()]
    if name == 'rank_transpose':
        return [a.rank_transpose()]
    if name == 'concatenate':
        b = pool_pick(lambda x: x.ranks[0] == a.ranks[-1])
        if b is None:
            b = _small_tt(rng, r0=a.ranks[-1])
        return [a.concatenate(b)]
    if name == 'concatenate_list':
        b = _small_tt(rng, r0=a.ranks[-1])
        return [a.concatenate(list(b.cores))]
    if name.startswith('tensordot_'):
        mode = {'lf': 'last-first', 'll': 'last-last', 'fl': 'first-last', 'ff': 'first-first'}[name[-2:]]
        if (mode.startswith('last') and a.ranks[-1] != 1) or (mode.startswith('first') and a.ranks[0] != 1):
            return None
        na = int(rng.integers(1, d + 1))
        e = int(rng.integers(na, na + 3))
        ord_ = [int(rng.choice([1, 2, 3])) for _ in range(e)]
        ocd = [int(rng.choice([1, 2])) for _ in range(e)]
        pairs = {'last-first': [(d - na + i, i) for i in range(na)], 'last-last': [(d - na + i, e - na + i) for i in range(na)],
                 'first-last': [(i, e - na + i) for i in range(na)], 'first-first': [(i, i) for i in range(na)]}[mode]
        for (i, j) in pairs:
            ord_[j], ocd[j] = a.row_dims[i], a.col_dims[i]
        o = _small_tt(rng, e, rd=ord_, cd=ocd)
        return [a.tensordot(o, na, mode=mode), o]
    if name == 'rank_tensordot':
        m = rng.standard_normal((a.ranks[-1], int(rng.integers(1, 3))))
        return [a.rank_tensordot(m)]
    if name == 'diag':
        if any(x != 1 for x in a.col_dims):
            return None
        return [a.diag([i for i in range(d) if rng.integers(2)])]
    if name == 'squeeze':
        if not b1 or all(x * y == 1 for x, y in zip(a.row_dims, a.col_dims)):
            return None
        return [a.squeeze()]
    if name == 'tt2qtt':
        if not b1:
            return None
        R = [[x] if x < 2 or rng.integers(2) else [1, x] for x in a.row_dims]
        Cc = [[x] if len(R[i]) == 1 else [x, 1] for i, x in enumerate(a.col_dims)]
        return [a.tt2qtt(R, Cc)]
    if name == 'qtt2tt':
        groups, left = [], d
        while left:
            g = int(rng.integers(1, left + 1))
            groups.append(g)
            left -= g
        return [a.qtt2tt(groups)]
    if name == 'svd':
        if d < 2 or any(x != 1 for x in a.col_dims) or not b1:
            return None
        u, s, v = a.svd(int(rng.integers(1, d)))
        return [u, v]
    if name == 'pinv':
        if d < 2 or any(x != 1 for x in a.col_dims) or not b1 or _tiny(a):
            return None
        return [a.pinv(int(rng.integers(1, d)), threshold=1e-12)]
    if name == 'norm':
        if not b1:
            return None
        a.norm(p=2)
        return []
    if name == 'full':
        if not b1:
            return None
        a.full()
        a.matricize()
        return []
    if name == 'TTlist_trunc':
        # documented constructor: adopts the list; with max_rank it orthonormalises what it adopted.  Build from copies.
        return [TT([c.copy() for c in a.cores])]
    raise KeyError(name)


def mutate(rng, name, a):
    """apply in-place operation; returns (kept_alive, new_objects): kept_alive False when the receiver is documented as
    consumed (overwrite=True variants whose result is a different object built from the receiver's cores)"""
    d = a.order
    b1 = a.ranks[0] == 1 and a.ranks[-1] == 1
    if name == 'ortho_left':
        a.ortho_left()
        return True, []
    if name == 'ortho_right':
        a.ortho_right()
        return True, []
    if name == 'ortho':
        a.ortho()
        return True, []
    if name == 'ortho_trunc':
        if _tiny(a):
            return None
        a.ortho(threshold=1e-12, max_rank=int(rng.integers(1, 4)))
        return True, []
    if name == 'transpose_ow':
        a.transpose(overwrite=True)
        return True, []
    if name == 'conj_ow':
        a.conj(overwrite=True)
        return True, []
    if name == 'rank_transpose_ow':
        a.rank_transpose(overwrite=True)
        return True, []
    if name == 'rank_tensordot_ow':
        a.rank_tensordot(rng.standard_normal((a.ranks[-1], 2)), overwrite=True)
        return True, []
    if name == 'concatenate_ow':
        b = _small_tt(rng, r0=a.ranks[-1])
        a.concatenate(b, overwrite=True)
        return True, [b]
    if name == 'tensordot_ow':
        if a.ranks[-1] != 1:
            return None
        o = _small_tt(rng, 2, rd=[a.row_dims[-1], 2], cd=[a.col_dims[-1], 1])
        a.tensordot(o, 1, overwrite=True)
        return True, [o]
    if name == 'svd_ow':
        if d < 2 or any(x != 1 for x in a.col_dims) or not b1:
            return None
        u, s, v = a.svd(int(rng.integers(1, d)), overwrite=True)
        return False, [u, v]
    if name == 'pinv_ow':
        if d < 2 or any(x != 1 for x in a.col_dims) or not b1 or _tiny(a):
            return None
        p = a.pinv(int(rng.integers(1, d)), threshold=1e-12, overwrite=True)
        return False, [p]
    raise KeyError(name)


def check_pool(pool, skip, c, step_desc, receiver_origin):
    n_bad = 0
    for L in pool:
        if L is skip:
            continue
        bad = L.snap.diff(L.t)
        if bad:
            n_bad += 1
            c.add('frame:live-object-unchanged', False,
                  'after %s: object from %s changed: %s' % (step_desc, L.origin, '; '.join(bad[:2])),
                  sig='%s|victim:%s|receiver:%s' % (step_desc.split('(')[0], L.origin, receiver_origin))
            L.snap = spec.Snap(L.t)  # report each corruption once
    return n_bad


def t3_history(case):
    rng = rng_for(case)
    c = Clauses(PID, 'history', case, modfunc=('vt.props.c06', 't3_history'))
    pool = [Live(_small_tt(rng), 'input') for _ in range(3)]
    pool.append(Live(_small_tt(rng, vector=True, d=int(rng.integers(2, 4))), 'input'))
    eff = 0
    wf_bad = []
    for step in range(case['steps']):
        L = pool[int(rng.integers(len(pool)))]

        def pick(pred):
            cands = [x.t for x in pool if pred(x.t)]
            return cands[int(rng.integers(len(cands)))] if cands else None
        if rng.random() < 0.6:
            name = PRODUCERS[int(rng.integers(len(PRODUCERS)))]
            try:
                res = produce(rng, name, L.t, pick)
            except Exception as e:  # noqa
                c.add('no-exception-under-precondition', False, '%s on object from %s: %r' % (name, L.origin, e), sig=name)
                continue
            if res is None:
                continue
            eff += 1
            for r in res:
                if all(r is not x.t for x in pool):
                    bad = spec.wf_report(r)
                    if bad:
                        wf_bad.append('%s: %s' % (name, bad[0]))
                        c.add('post:wf(every-returned-TT)', False, '%s: %s' % (name, '; '.join(bad[:2])), sig=name)
                        continue
                    pool.append(Live(r, name))
            check_pool(pool, None, c, name, L.origin)
        else:
            name = MUTATORS[int(rng.integers(len(MUTATORS)))]
            try:
                res = mutate(rng, name, L.t)
            except Exception as e:  # noqa
                c.add('no-exception-under-precondition', False, '%s on object from %s: %r' % (name, L.origin, e), sig=name)
                L.snap = spec.Snap(L.t)
                continue
            if res is None:
                continue
            eff += 1
            alive, new = res
            check_pool(pool, L, c, name, L.origin)
            if alive:
                bad = spec.wf_report(L.t)
                if bad:
                    c.add('post:wf(self)-after-in-place', False, '%s: %s' % (name, '; '.join(bad[:2])), sig=name)
                    pool.remove(L)
                else:
                    L.snap = spec.Snap(L.t)
            else:
                pool.remove(L)
            for r in new:
                if spec.wf(r):
                    pool.append(Live(r, name))
                else:
                    c.add('post:wf(every-returned-TT)', False, '%s: %s' % (name, spec.wf_report(r)[0]), sig=name)
        if len(pool) > 12:
            del pool[int(rng.integers(len(pool)))]
        if not pool:
            pool = [Live(_small_tt(rng), 'input')]
    if not any(o['status'] == 'fail' for o in c.out):
        c.add('frame:live-object-unchanged', True, '%d effective steps' % eff, nontrivial=eff >= 3)
        c.add('post:wf(every-returned-TT)', True, nontrivial=eff >= 3)
    return c.out


def t3_twostep(case):
    """directed history: producer(a[, b]) -> r ; in-place mutator on r (and on a) ; operands and result must be isolated"""
    rng = rng_for(case)
    c = Clauses(PID, 'twostep', case, modfunc=('vt.props.c06', 't3_twostep'))
    p, m = case['producer'], case['mutator']
    vec = p in ('diag', 'svd', 'pinv') or m in ('svd_ow', 'pinv_ow')
    for attempt in range(6):
        a = _small_tt(rng, vector=vec, d=int(rng.integers(2, 4)) if vec else None)
        others = []

        def pick(pred):
            return None
        try:
            res = produce(rng, p, a, pick)
        except Exception as e:  # noqa
            c.add('no-exception-under-precondition', False, '%s: %r' % (p, e))
            return c.out
        if res is None or not res:
            continue
        pool = [Live(a, 'operand')] + [Live(r, 'result%d' % i) for i, r in enumerate(res)]
        for L in pool[1:]:
            bad = spec.wf_report(L.t)
            if bad:
                c.add('post:wf(every-returned-TT)', False, '%s: %s' % (p, bad[0]))
                return c.out
        # mutate each result in turn, then the operand, checking isolation after every call
        for L in list(pool[1:]) + [pool[0]]:
            try:
                r2 = mutate(rng, m, L.t)
            except Exception as e:  # noqa
                c.add('no-exception-under-precondition', False, '%s after %s: %r' % (m, p, e))
                return c.out
            if r2 is None:
                continue
            check_pool(pool, L, c, m, L.origin)
            if r2[0] and spec.wf(L.t):
                L.snap = spec.Snap(L.t)
            elif L in pool:
                pool.remove(L)
        if not any(o['status'] == 'fail' for o in c.out):
            c.add('frame:live-object-unchanged', True)
        return c.out
    return c.out
