"""C20 - quantum sampling draws from the Born distribution of the measured qubits."""
import itertools
import sys
import types
import numpy as np
from vt import spec
from vt.t3 import Clauses, rng_for
from vt.props import common

PID = 'C20'
META = common.meta(
    PID,
    functions=['scikit_tt.quantum_computation:sampling', 'scikit_tt.tensor_train:TT.diag', 'scikit_tt.tensor_train:TT.squeeze',
               'scikit_tt.tensor_train:TT.transpose', 'scikit_tt.tensor_train:TT.__matmul__'],
    level='exploration',
    rule='T3 only (the sample rule u > p0/(p0+p1) is a floating-point branch on LAPACK-derived numbers; no deductive back '
         'end decides it): seeded right-orthonormal normalised states with 1-6 qubits, TT ranks 1-4, complex amplitudes, '
         'every non-empty subset of measured sites for up to 4 qubits (seeded subsets beyond), sample counts 1-400; '
         'numpy.random.rand is seeded and the (samples, frequencies) pair is compared with a dense inverse-CDF oracle on the '
         'exact conditional Born probabilities; cases whose uniforms fall within 1e-9 of a decision boundary are skipped; '
         'chi-square-type bound for large sample counts; non-trivial = at least 2 qubits or rank >= 2.')


def _import_qc():
    if 'matplotlib' not in sys.modules:
        m = types.ModuleType('matplotlib')
        mp = types.ModuleType('matplotlib.pyplot')
        m.pyplot = mp
        sys.modules['matplotlib'] = m
        sys.modules['matplotlib.pyplot'] = mp
    import scikit_tt.quantum_computation as qc
    return qc


def tasks(tier, seed):
    out = []
    k = 0
    for nq in range(1, 5 if tier == 'quick' else 6):
        subsets = [list(s) for r in range(1, nq + 1) for s in itertools.combinations(range(nq), r)]
        reps = 2 if tier == 'quick' else 6
        if nq >= 5:
            subsets = subsets[::3]
        for sub in subsets:
            for rep in range(reps):
                k += 1
                out.append(('vt.props.c20', 't3_case', {'seed': seed, 'k': k, 'backend': 'T3', 'nq': nq, 'measure': sub,
                                                        'sig': 'n%d/measured%d' % (nq, len(sub))}))
    out += common.extra_tasks(PID, tier, seed)
    return out


def t3_case(case):
    qc = _import_qc()
    rng = rng_for(case)
    nq, meas = case['nq'], case['measure']
    c = Clauses(PID, 'quantum_computation.sampling', case, modfunc=('vt.props.c20', 't3_case'))
    rk = [1] + [int(rng.integers(1, 5)) for _ in range(nq - 1)] + [1]
    st = spec.rand_tt(rng, [2] * nq, [1] * nq, rk, 'complex')
    st = st.ortho_right()
    st = st * (1.0 / st.norm())
    st = st.ortho_right()
    snap = spec.Snap(st)
    psi = spec.den(st).reshape([2] * nq)
    prob = np.abs(psi) ** 2
    prob = prob / prob.sum()
    ns = int(rng.choice([1, 3, 10, 50, 400]))
    seed = int(rng.integers(1 << 30))
    np.random.seed(seed)
    U = np.random.rand(ns, len(meas))
    # marginal over the measured sites (unmeasured traced out)
    other = tuple(i for i in range(nq) if i not in meas)
    marg = prob.sum(axis=other) if other else prob          # axes ordered by site
    # dense inverse-CDF oracle
    S = np.zeros((ns, len(meas)))
    near = False
    for row in range(ns):
        prefix = ()
        for i in range(len(meas)):
            sub = marg[prefix]
            p0 = sub[0].sum()
            p1 = sub[1].sum()
            thr = p0 / (p0 + p1) if p0 + p1 > 0 else 0.0
            if abs(U[row, i] - thr) < 1e-9:
                near = True
            bit = 1 if U[row, i] > thr else 0
            S[row, i] = bit
            prefix = prefix + (bit,)
    if near:
        return []
    want_s, cnt = np.unique(S, return_counts=True, axis=0)
    want_f = cnt / ns
    np.random.seed(seed)
    ok, res = c.guarded('post:samples==inverse-CDF-oracle', lambda: qc.sampling(st, list(meas), ns))
    if ok:
        samples, freq = res
        samples = np.real(np.asarray(samples))
        freq = np.asarray(freq, dtype=float)
        nt = nq >= 2 or max(rk) >= 2
        c.add('post:frequencies-sum-to-one', abs(freq.sum() - 1) < 1e-12, '%s' % freq.sum())
        c.add('post:samples-distinct', len({tuple(r) for r in samples.tolist()}) == len(samples))
        same = samples.shape == want_s.shape and np.array_equal(samples, want_s)
        c.add('post:samples==inverse-CDF-oracle', same, 'got %s want %s' % (samples.tolist()[:4], want_s.tolist()[:4]), nontrivial=nt)
        if same:
            c.close('post:frequencies==oracle', freq, want_f, tol=1e-12, nontrivial=nt)
        if ns >= 400:
            # convergence to the marginal |amplitude|^2 distribution: total-variation distance bounded by 5 sigma-type bound
            emp = np.zeros(marg.shape)
            for r, f in zip(samples.astype(int), freq):
                emp[tuple(r)] = f
            tv = 0.5 * float(np.abs(emp - marg).sum())
            c.add('post:frequencies-near-marginal', tv <= 2.5 * np.sqrt(marg.size / ns), 'total variation %.3f' % tv)
    c.frame([snap], [st])
    return c.out
