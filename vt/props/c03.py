"""C03 - orthonormalisation preserves the tensor and yields orthonormal cores."""
import numpy as np
from vt import spec
from vt.t3 import Clauses, rng_for
from vt.props import common

PID = 'C03'
META = common.meta(
    PID,
    functions=['scikit_tt.tensor_train:TT.ortho_left', 'scikit_tt.tensor_train:TT.ortho_right',
               'scikit_tt.tensor_train:TT.ortho'],
    rule='T3: seeded shapes of order 1-5 with size-1 modes, rank-deficient and over-parameterised cores, real/complex, '
         'every admissible (start,end) for small orders; non-trivial = order >= 2; distinct = distinct (obligation, case).')


def tasks(tier, seed):
    out = []
    n = 90 if tier == 'quick' else common.thorough(600)
    for k in range(n):
        out.append(('vt.props.c03', 't3_case', {'seed': seed, 'k': k, 'backend': 'T3', 'd': 1 + k % 5,
                                                'kind': ['real', 'complex', 'mixed'][k % 3], 'flavour': (k // 3) % 3}))
    out += common.extra_tasks(PID, tier, seed)
    return out


def make_tt(rng, d, kind, flavour, operator=True):
    """flavour 0: generic; 1: over-parameterised ranks (larger than mode products); 2: rank-deficient cores"""
    from scikit_tt.tensor_train import TT
    dims = [1, 2, 3]
    rd = [int(rng.choice(dims)) for _ in range(d)]
    cd = [int(rng.choice(dims)) if operator else 1 for _ in range(d)]
    if flavour == 1:
        rk = [1] + [int(rng.integers(3, 8)) for _ in range(d - 1)] + [1]
    else:
        rk = [1] + [int(rng.integers(1, 5)) for _ in range(d - 1)] + [1]
    cores = spec.rand_cores(rng, rd, cd, rk, kind)
    if flavour == 2:
        for i in range(d - 1):
            if rk[i + 1] >= 2:  # duplicate a rank slice -> rank-deficient unfolding
                cores[i][:, :, :, -1] = cores[i][:, :, :, 0]
    return TT(cores), rd, cd, rk


def left_orth_defect(c):
    m = c.reshape(c.shape[0] * c.shape[1] * c.shape[2], c.shape[3])
    return float(np.max(np.abs(m.conj().T @ m - np.eye(m.shape[1])))) if m.shape[1] <= m.shape[0] else float('inf')


def right_orth_defect(c):
    m = c.reshape(c.shape[0], c.shape[1] * c.shape[2] * c.shape[3])
    return float(np.max(np.abs(m @ m.conj().T - np.eye(m.shape[0])))) if m.shape[0] <= m.shape[1] else float('inf')


def t3_case(case):
    rng = rng_for(case)
    d, kind, fl = case['d'], case['kind'], case['flavour']
    obs = []
    mf = ('vt.props.c03', 't3_case')

    def C(func):
        c = Clauses(PID, func, case, modfunc=mf)
        obs.append(c)
        return c
    t, rd, cd, rk = make_tt(rng, d, kind, fl)
    T = spec.den(t)
    nt = d >= 2

    # full left sweep
    c = C('TT.ortho_left')
    a = t.copy()
    ok, r = c.guarded('post:value', a.ortho_left)
    if ok:
        c.add('post:returns-self', r is a)
        c.wf(a, 'post:wf(self)')
        if spec.wf(a):
            c.close('post:value', spec.den(a), T, nontrivial=nt)
            c.add('post:ranks-not-increased', all(x <= y for x, y in zip(a.ranks, rk)), '%s vs %s' % (a.ranks, rk))
            bad = [(i, left_orth_defect(a.cores[i])) for i in range(d - 1) if left_orth_defect(a.cores[i]) > 1e-9]
            c.add('post:cores-left-orthonormal', not bad, str(bad[:3]), nontrivial=nt)
    # partial sweeps
    if d >= 2:
        for _ in range(2):
            s = int(rng.integers(0, d - 1))
            e = int(rng.integers(s, d - 1))
            a = t.copy()
            snap = spec.Snap(a)
            ok, r = c.guarded('post:value[partial]', lambda: a.ortho_left(start_index=s, end_index=e))
            if ok:
                c.wf(a, 'post:wf(self)[partial]')
                if spec.wf(a):
                    c.close('post:value[partial]', spec.den(a), T)
                    bad = [(i, left_orth_defect(a.cores[i])) for i in range(s, e + 1) if left_orth_defect(a.cores[i]) > 1e-9]
                    c.add('post:cores-left-orthonormal[partial]', not bad, 'start=%d end=%d %s' % (s, e, bad[:3]))
                    untouched = [i for i in range(d) if i < s or i > e + 1]
                    bad = [i for i in untouched if not np.array_equal(a.cores[i], snap.cores[i])]
                    c.add('frame:cores-outside-sweep-unchanged', not bad, 'start=%d end=%d changed %s' % (s, e, bad))
                    bad = [j for j in range(d + 1) if not (s < j <= e + 1) and a.ranks[j] != rk[j]]
                    c.add('frame:ranks-outside-sweep-unchanged', not bad, 'start=%d end=%d changed %s' % (s, e, bad))
                    c.add('post:ranks-not-increased[partial]', all(x <= y for x, y in zip(a.ranks, rk)))

    c = C('TT.ortho_right')
    a = t.copy()
    ok, r = c.guarded('post:value', a.ortho_right)
    if ok:
        c.add('post:returns-self', r is a)
        c.wf(a, 'post:wf(self)')
        if spec.wf(a):
            c.close('post:value', spec.den(a), T, nontrivial=nt)
            c.add('post:ranks-not-increased', all(x <= y for x, y in zip(a.ranks, rk)), '%s vs %s' % (a.ranks, rk))
            bad = [(i, right_orth_defect(a.cores[i])) for i in range(1, d) if right_orth_defect(a.cores[i]) > 1e-9]
            c.add('post:cores-right-orthonormal', not bad, str(bad[:3]), nontrivial=nt)
    if d >= 2:
        for _ in range(2):
            e = int(rng.integers(1, d))
            s = int(rng.integers(e, d))
            a = t.copy()
            snap = spec.Snap(a)
            ok, r = c.guarded('post:value[partial]', lambda: a.ortho_right(start_index=s, end_index=e))
            if ok:
                c.wf(a, 'post:wf(self)[partial]')
                if spec.wf(a):
                    c.close('post:value[partial]', spec.den(a), T)
                    bad = [(i, right_orth_defect(a.cores[i])) for i in range(e, s + 1) if right_orth_defect(a.cores[i]) > 1e-9]
                    c.add('post:cores-right-orthonormal[partial]', not bad, 'start=%d end=%d %s' % (s, e, bad[:3]))
                    untouched = [i for i in range(d) if i > s or i < e - 1]
                    bad = [i for i in untouched if not np.array_equal(a.cores[i], snap.cores[i])]
                    c.add('frame:cores-outside-sweep-unchanged', not bad, 'start=%d end=%d changed %s' % (s, e, bad))
                    bad = [j for j in range(d + 1) if not (e <= j <= s) and a.ranks[j] != rk[j]]
                    c.add('frame:ranks-outside-sweep-unchanged', not bad, 'start=%d end=%d changed %s' % (s, e, bad))

    c = C('TT.ortho')
    a = t.copy()
    ok, r = c.guarded('post:value', a.ortho)
    if ok:
        c.add('post:returns-self', r is a)
        c.wf(a, 'post:wf(self)')
        if spec.wf(a):
            c.close('post:value', spec.den(a), T, nontrivial=nt)
            c.add('post:ranks-not-increased', all(x <= y for x, y in zip(a.ranks, rk)))
            bad = [(i, right_orth_defect(a.cores[i])) for i in range(1, d) if right_orth_defect(a.cores[i]) > 1e-9]
            c.add('post:cores-right-orthonormal', not bad, str(bad[:3]), nontrivial=nt)
            mr = spec.max_ranks(rd, cd)
            c.add('post:ranks<=maximal', all(x <= y for x, y in zip(a.ranks, mr)), '%s vs %s' % (a.ranks, mr))
    return [o for c in obs for o in c.out]
