"""C16 - MANDy and ARR return (descend to) the least-squares coefficient tensor."""
import itertools
import numpy as np
from vt import spec
from vt.t3 import Clauses, rng_for
from vt.props import common

PID = 'C16'
META = common.meta(
    PID,
    functions=['scikit_tt.data_driven.regression:%s' % f for f in
               ['mandy_cm', 'mandy_fm', 'mandy_kb', 'arr', '__arr_construct_stack_left', '__arr_construct_stack_right',
                '__arr_construct_micro_matrix', '__arr_update_core']] + ['scikit_tt.tensor_train:TT.pinv'],
    rule='T3: seeded data (state dimension 1-3, 1-4 basis functions, snapshot counts from under- to over-determined, '
         'rank-deficient transformed data with threshold 1e-10); oracle numpy.linalg.pinv / lstsq on the dense transformed '
         'data matrix; ARR: residual per repeat count with rcond 1e-14; non-trivial = more than one snapshot.')

FUNS = [lambda t: 1.0 + 0 * t, lambda t: t, lambda t: t ** 2, np.sin, np.cos, lambda t: np.exp(-t * t)]


def tasks(tier, seed):
    out = []
    n = 48 if tier == 'quick' else common.thorough(320)
    for k in range(n):
        out.append(('vt.props.c16', 't3_mandy', {'seed': seed, 'k': k, 'backend': 'T3', 'variant': ['cm', 'fm', 'fm1', 'kb'][k % 4],
                                                 'deficient': (k // 4) % 3 == 2, 'sig': ['cm', 'fm', 'fm1', 'kb'][k % 4]}))
    for k in range(n, n + (16 if tier == 'quick' else 120)):
        out.append(('vt.props.c16', 't3_arr', {'seed': seed, 'k': k, 'backend': 'T3', 'sig': 'arr'}))
    out += common.extra_tasks(PID, tier, seed)
    return out


def dense_cm(x, fs):
    d, m = x.shape
    p = len(fs)
    P = np.zeros([p] * d + [m])
    for ix in itertools.product(range(p), repeat=d):
        for j in range(m):
            P[ix + (j,)] = np.prod([fs[ix[k]](x[k, j]) for k in range(d)])
    return P.reshape(-1, m)


def dense_fm(x, fs, add_one):
    d, m = x.shape
    p = len(fs)
    sz = d + (1 if add_one else 0)
    P = np.zeros([sz] * p + [m])
    for ix in itertools.product(range(sz), repeat=p):
        for j in range(m):
            v = 1.0
            for k in range(p):
                v *= (1.0 if ix[k] == 0 else fs[k](x[ix[k] - 1, j])) if add_one else fs[k](x[ix[k], j])
            P[ix + (j,)] = v
    return P.reshape(-1, m)


def t3_mandy(case):
    import scikit_tt.data_driven.regression as reg
    import scikit_tt.data_driven.transform as tr
    rng = rng_for(case)
    variant, deficient = case['variant'], case['deficient']
    d = int(rng.integers(1, 4))
    p = int(rng.integers(1, 4))
    m = int(rng.integers(1, 9))
    x = rng.uniform(-1, 1, (d, m))
    if deficient and m >= 2:
        x[:, -1] = x[:, 0]            # repeated snapshot -> rank-deficient transformed data
    y = rng.standard_normal((d, m))
    x0, y0 = x.copy(), y.copy()
    fs = [FUNS[i] for i in rng.choice(len(FUNS), size=p, replace=False)]
    thr = 1e-10 if deficient else 0.0
    if variant == 'kb':
        c = Clauses(PID, 'regression.mandy_kb', case, modfunc=('vt.props.c16', 't3_mandy'))
        basis = [[tr.Monomial(i, e) for e in range(p + 1)] for i in range(d)]
        M = np.zeros([p + 1] * d + [m])
        for ix in itertools.product(range(p + 1), repeat=d):
            for j in range(m):
                M[ix + (j,)] = np.prod([x[k, j] ** ix[k] for k in range(d)])
        M = M.reshape(-1, m)
        ok, z = c.guarded('post:fitted-values', lambda: reg.mandy_kb(x, y, basis))
        if ok:
            fitted = z @ (M.T @ M)
            want = y @ np.linalg.pinv(M, rcond=1e-12) @ M
            c.add('post:shape', z.shape == (d, m), str(z.shape))
            c.close('post:fitted-values', fitted, want, tol=1e-6, nontrivial=m >= 2)
        c.add('frame:data-unchanged', np.array_equal(x, x0) and np.array_equal(y, y0))
        return c.out
    name = 'regression.mandy_cm' if variant == 'cm' else 'regression.mandy_fm'
    c = Clauses(PID, name, case, modfunc=('vt.props.c16', 't3_mandy'))
    if variant == 'cm':
        M = dense_cm(x, fs)
        dims = [p] * d
        call = lambda: reg.mandy_cm(x, y, fs, threshold=thr)  # noqa
    else:
        add_one = variant == 'fm1'
        M = dense_fm(x, fs, add_one)
        dims = [d + (1 if add_one else 0)] * p
        call = lambda: reg.mandy_fm(x, y, fs, threshold=thr, add_one=add_one)  # noqa
    # threshold must lie below the smallest relevant singular-value ratio and above the noise of a rank-deficient
    # transformed data matrix (precondition of the property): decide from the spectrum of the dense matrix
    sv = np.linalg.svd(M, compute_uv=False)
    numerically_deficient = bool(sv[-1] <= 1e-9 * sv[0])
    if numerically_deficient:
        rel = sv / sv[0]
        if np.any((rel > 1e-12) & (rel < 1e-7)):
            return []              # no clear gap around the cut: outside the precondition
        thr = 1e-10
    elif sv[-1] <= 1e-6 * sv[0]:
        return []                  # badly conditioned but not deficient: result dominated by rounding
    deficient = numerically_deficient
    tag = '[%s%s]' % (variant, ',deficient' if deficient else '')
    ok, xi = c.guarded('post:value' + tag, call)
    if ok:
        c.wf(xi)
        if spec.wf(xi):
            c.add('post:dims', list(xi.row_dims) == dims + [d], '%s vs %s' % (xi.row_dims, dims + [d]))
            want = (y @ np.linalg.pinv(M, rcond=thr if thr else 1e-14)).T
            c.close('post:value' + tag, spec.den(xi).reshape(-1, d), want, tol=1e-6, nontrivial=m >= 2)
    c.add('frame:data-unchanged', np.array_equal(x, x0) and np.array_equal(y, y0))
    return c.out


def t3_arr(case):
    import scikit_tt.data_driven.regression as reg
    import scikit_tt.data_driven.transform as tr
    rng = rng_for(case)
    c = Clauses(PID, 'regression.arr', case, modfunc=('vt.props.c16', 't3_arr'))
    d = int(rng.integers(1, 4))
    p = int(rng.integers(2, 5))
    m = int(rng.integers(3, 12))
    x = rng.uniform(-1, 1, (d, m))
    ny = int(rng.integers(1, 3))
    y = rng.standard_normal((ny, m))
    basis = [[tr.Monomial(int(rng.integers(d)), e) for e in range(int(rng.integers(2, 4)))] for _ in range(p)]
    n = [len(b) for b in basis]
    Psi = np.zeros(n + [m])
    for ix in itertools.product(*[range(k) for k in n]):
        for j in range(m):
            Psi[ix + (j,)] = np.prod([basis[k][ix[k]](x[:, j]) for k in range(p)])
    rk = spec.admissible_ranks(rng, n)
    guess = spec.rand_tt(rng, n, [1] * p, rk, 'real')
    sg = spec.Snap(guess)
    x0, y0 = x.copy(), y.copy()

    def resid(sol, k):
        f = np.tensordot(spec.den(sol).reshape(n), Psi, axes=(list(range(p)), list(range(p))))
        return float(np.linalg.norm(f - y[k]))
    # run-time contracts on the private environment builders: stack_left[i][:, j] / stack_right[i][:, j] are the partial
    # contractions of the solution cores with the basis evaluations at snapshot j
    mon = {'bad': [], 'n': 0}
    evals = [np.array([[basis[k][q](x[:, j]) for j in range(m)] for q in range(n[k])]) for k in range(p)]    # (n_k, m)

    def wrap_left(fn):
        def w(i, stack_left, x_data, basis_list, solution):
            fn(i, stack_left, x_data, basis_list, solution)
            want = np.ones((1, m))
            for k in range(i):
                want = np.einsum('ij,kj,ikl->lj', want, evals[k], solution.cores[k][:, :, 0, :])
            mon['n'] += 1
            got = stack_left[i] if stack_left[i].shape == want.shape else np.broadcast_to(stack_left[i], want.shape)   # boundary entry is a broadcast (1, 1) one
            okc, det = spec.close(got, want, 1e-9)
            if not okc:
                mon['bad'].append('stack_left[%d]: %s' % (i, det))
        return w

    def wrap_right(fn):
        def w(i, stack_right, x_data, basis_list, solution):
            fn(i, stack_right, x_data, basis_list, solution)
            want = np.ones((1, m))
            for k in range(p - 1, i, -1):
                want = np.einsum('ikl,kj,lj->ij', solution.cores[k][:, :, 0, :], evals[k], want)
            mon['n'] += 1
            got = stack_right[i] if stack_right[i].shape == want.shape else np.broadcast_to(stack_right[i], want.shape)
            okc, det = spec.close(got, want, 1e-9)
            if not okc:
                mon['bad'].append('stack_right[%d]: %s' % (i, det))
        return w
    saved = {k: reg.__dict__[k] for k in ('__arr_construct_stack_left', '__arr_construct_stack_right')}
    reg.__dict__['__arr_construct_stack_left'] = wrap_left(saved['__arr_construct_stack_left'])
    reg.__dict__['__arr_construct_stack_right'] = wrap_right(saved['__arr_construct_stack_right'])
    res = []
    last = None
    for rep in (1, 2, 3):
        ok, sols = c.guarded('post:residual-non-increasing', lambda: reg.arr(x, y, basis, guess, repeats=rep, rcond=1e-14, progress=False))
        if not ok:
            break
        last = sols
        res.append([resid(s, k) for k, s in enumerate(sols)])
    reg.__dict__.update(saved)
    c.add('post:environments==partial-contractions', not mon['bad'], '; '.join(mon['bad'][:3]), nontrivial=mon['n'] > 0)
    if len(res) == 3:
        r0 = [resid(guess, k) for k in range(ny)]
        allr = [r0] + res
        bad = [(k, [a[k] for a in allr]) for k in range(ny) if any(allr[j + 1][k] > allr[j][k] * (1 + 1e-6) + 1e-9 for j in range(3))]
        c.add('post:residual-non-increasing', not bad, 'residuals guess,1,2,3 repeats: %s' % bad[:2], nontrivial=True)
        c.add('post:count', len(last) == ny)
        bad = []
        for k, s in enumerate(last):
            if spec.wf_report(s):
                bad.append('solution %d not wf: %s' % (k, spec.wf_report(s)[0]))
            elif any(a > b for a, b in zip(s.ranks, guess.ranks)):
                bad.append('solution %d ranks %s exceed guess ranks %s' % (k, s.ranks, guess.ranks))
        c.add('post:wf-and-ranks<=guess-ranks', not bad, '; '.join(bad[:2]))
        c.add('post:solutions-distinct-objects', all(last[a] is not last[b] and not spec.shares(last[a], last[b]) for a in range(ny) for b in range(a)) and all(s is not guess and not spec.shares(s, guess) for s in last))
    c.frame([sg], [guess], 'frame:guess-unchanged')
    c.add('frame:data-unchanged', np.array_equal(x, x0) and np.array_equal(y, y0))
    return c.out
