"""C11 - TDVP and Krylov propagators are exact on representable dynamics and conservative."""
import numpy as np
import scipy.linalg as sl
from vt import spec
from vt.t3 import Clauses, rng_for
from vt.props import common

PID = 'C11'
META = common.meta(
    PID,
    functions=['scikit_tt.solvers.ode:%s' % f for f in
               ['tdvp1site', 'tdvp2site', 'tdvp', 'krylov', '__update_core_tdvp', '__update_core_tdvp2site']] +
              ['scikit_tt.solvers.sle:__construct_stack_left_op', 'scikit_tt.solvers.sle:__construct_stack_right_op',
               'scikit_tt.solvers.sle:__construct_micro_matrix_als', 'scikit_tt.solvers.sle:__construct_micro_matrix_mals'],
    rule='T3: seeded Hermitian TT operators (real symmetric / complex Hermitian), orders 2-4, dims 2-3, right-orthonormal '
         'initial states (precondition taken from the only internal call site, tjm_jump_process_tdvp, which calls '
         'ortho_right first) of maximal and sub-maximal rank, step sizes and counts; comparison with expm(-i t H) x0; '
         'norm and energy along 1-site trajectories; Krylov with full dimension; non-trivial = dimension >= 4.')


def tasks(tier, seed):
    out = []
    n = 48 if tier == 'quick' else common.thorough(320)
    for k in range(n):
        out.append(('vt.props.c11', 't3_case', {'seed': seed, 'k': k, 'backend': 'T3', 'd': 1 + k % 4 if (k // 6) % 4 in (0, 2) else 2 + k % 3,
                                                'kind': ['real', 'complex'][(k // 3) % 2],
                                                'method': ['tdvp1site', 'tdvp2site', 'tdvp', 'krylov'][(k // 6) % 4]}))
    out += common.extra_tasks(PID, tier, seed)
    return out


def t3_case(case):
    import scikit_tt.solvers.ode as ode
    from scikit_tt.tensor_train import TT
    rng = rng_for(case)
    d, kind, method = case['d'], case['kind'], case['method']
    c = Clauses(PID, 'ode.' + method, case, modfunc=('vt.props.c11', 't3_case'))
    dims = [2, 3] if d <= 3 else [2]
    if d == 1:
        dims = [2, 3, 4]
    rd = [int(rng.choice(dims)) for _ in range(d)]
    N = int(np.prod(rd))
    H = spec.rnd(rng, (N, N), kind)
    H = (H + H.conj().T) / 2
    H = H / max(1.0, np.linalg.norm(H, 2))
    op = TT(H.reshape(rd + rd))
    H = spec.mat(op)
    mr = spec.max_ranks(rd, [1] * d)
    sig = 'd%d/%s' % (d, kind)
    nt = N >= 4

    def start(ranks):
        t = spec.rand_tt(rng, rd, [1] * d, ranks, 'complex')
        t = t.ortho_right()
        t = t * (1.0 / t.norm())
        return t.ortho_right()

    h = float(rng.uniform(0.05, 0.3))
    steps = int(rng.integers(1, 4))
    so = spec.Snap(op)

    if method == 'krylov':
        x = start(mr)
        sx = spec.Snap(x)
        x0 = spec.mat(x)[:, 0]
        ok, res = c.guarded('post:exact[full-krylov-dimension]', lambda: ode.krylov(op, x, N, h, threshold=1e-14, max_rank=10 ** 6, normalize=0))
        if ok:
            c.wf(res)
            if spec.wf(res):
                c.close('post:exact[full-krylov-dimension]', spec.mat(res)[:, 0], sl.expm(-1j * h * H) @ x0, tol=1e-7, nontrivial=nt, sig=sig)
                c.fresh(res, [x, op])
        c.frame([so, sx], [op, x])
        return c.out

    fn = getattr(ode, method)
    kw = {} if method == 'tdvp1site' else {'threshold': 1e-14, 'max_rank': 10 ** 6}
    # maximal ranks: no projection error -> exact
    x = start(mr)
    sx = spec.Snap(x)
    x0 = spec.mat(x)[:, 0]
    ok, sol = c.guarded('post:exact-at-maximal-rank', lambda: fn(op, x, h, steps, **kw))
    if ok:
        c.add('post:length', len(sol) == steps + 1, '%d' % len(sol), sig=sig)
        c.add('post:head-is-initial-value', sol[0] is x, sig=sig)
        bad = []
        for j in range(min(len(sol), steps + 1)):
            w = spec.wf_report(sol[j])
            if w:
                bad.append('state %d not wf: %s' % (j, w[0]))
                continue
            okc, det = spec.close(spec.mat(sol[j])[:, 0], sl.expm(-1j * j * h * H) @ x0, 1e-7)
            if not okc:
                bad.append('state %d: %s' % (j, det))
        c.add('post:exact-at-maximal-rank', not bad, '; '.join(bad[:3]), nontrivial=nt, sig=sig)
        ids = [id(s) for s in sol]
        c.add('post:states-distinct-objects', len(set(ids)) == len(ids) and not any(spec.shares(sol[a], sol[b]) for a in range(len(sol)) for b in range(a)), sig=sig)
    c.frame([so, sx], [op, x])

    # sub-maximal ranks: the one-site scheme conserves norm and energy
    if method == 'tdvp1site':
        rk = spec.admissible_ranks(rng, rd)
        y = start(rk)
        sy = spec.Snap(y)
        ok, sol = c.guarded('post:norm-and-energy-conserved', lambda: fn(op, y, h, 3))
        if ok:
            vs = [spec.mat(s)[:, 0] for s in sol]
            nrm = [float(np.linalg.norm(v)) for v in vs]
            en = [float(np.real(np.vdot(v, H @ v))) for v in vs]
            c.add('post:norm-conserved', max(abs(a - nrm[0]) for a in nrm) <= 1e-8, str(nrm), nontrivial=nt, sig=sig)
            c.add('post:energy-conserved', max(abs(a - en[0]) for a in en) <= 1e-8, str(en), nontrivial=nt, sig=sig)
            c.add('post:ranks-kept', all(list(s.ranks) == list(y.ranks) for s in sol[1:]), str([s.ranks for s in sol]), sig=sig)
        c.frame([sy], [y], 'frame:initial-state-unchanged[sub-maximal]')
    else:
        # low-rank start, ranks free to grow: only the splitting error remains -> convergence of order 2 in h
        # (nearest-neighbour Hamiltonian: the two-site tangent space contains H|psi>, so there is no one-off projection
        # error of order h from the product state; for long-range H first order is inherent and is not demanded)
        y = start([1] * (d + 1))
        y0 = spec.mat(y)[:, 0]
        T = 0.4
        Hn = np.zeros((N, N), dtype=complex)
        for i in range(d - 1):
            loc = spec.rnd(rng, (rd[i] * rd[i + 1], rd[i] * rd[i + 1]), kind)
            loc = (loc + loc.conj().T) / 2
            Hn = Hn + np.kron(np.kron(np.eye(int(np.prod(rd[:i]))), loc), np.eye(int(np.prod(rd[i + 2:]))))
        Hn = Hn / max(1.0, np.linalg.norm(Hn, 2))
        opn = TT(Hn.reshape(rd + rd))
        errs = []
        for m in (2, 4):
            ok, sol = c.guarded('post:convergence[rank-adaptive]', lambda: fn(opn, y, T / m, m, threshold=1e-14, max_rank=10 ** 6))
            if not ok:
                break
            errs.append(float(np.linalg.norm(spec.mat(sol[-1])[:, 0] - sl.expm(-1j * T * Hn) @ y0)))
        if len(errs) == 2:
            rate = np.log2(max(errs[0], 1e-300) / max(errs[1], 1e-300))
            c.add('post:convergence[rank-adaptive]', errs[0] < 1e-9 or (rate >= 1.5 and errs[1] < 0.05),
                  'errors %.3g %.3g observed order %.2f' % (errs[0], errs[1], rate), nontrivial=nt, sig=sig)
        # rank caps are respected
        cap = int(rng.integers(1, 4))
        y = start([1] + [min(cap, mr[j]) for j in range(1, d)] + [1])
        ok, sol = c.guarded('post:ranks<=max_rank', lambda: fn(op, y, h, 2, threshold=1e-12, max_rank=cap))
        if ok:
            bad = [s.ranks for s in sol[1:] if any(r > cap for r in s.ranks[1:-1])]
            c.add('post:ranks<=max_rank', not bad, 'cap %d: %s' % (cap, bad[:2]), sig=sig)
            bad = [j for j, s in enumerate(sol) if spec.wf_report(s)]
            c.add('post:wf(states)[max_rank]', not bad, str(bad), sig=sig)
    return c.out
