"""C05 - global SVD and pseudoinverse of a tensor train match the matrix ones."""
import numpy as np
from vt import spec
from vt.t3 import Clauses, rng_for
from vt.props import common
from vt.props.c03 import left_orth_defect, right_orth_defect

PID = 'C05'
META = common.meta(
    PID,
    functions=['scikit_tt.tensor_train:TT.svd', 'scikit_tt.tensor_train:TT.pinv'],
    trusted=['L-svd-unique: uniqueness of singular values', 'Moore-Penrose pseudoinverse = V S^-1 U^H of the compact SVD'],
    rule='T3: seeded vector-type TTs of order 2-5, every split index 1..d-1, real/complex, full-rank and rank-deficient '
         'unfoldings (threshold 1e-10 for the latter), max_rank caps; non-trivial = unfolding has >= 2 entries.')


def tasks(tier, seed):
    out = []
    n = 60 if tier == 'quick' else common.thorough(400)
    for k in range(n):
        out.append(('vt.props.c05', 't3_case', {'seed': seed, 'k': k, 'backend': 'T3', 'd': 2 + k % 4,
                                                'kind': ['real', 'complex'][k % 2], 'deficient': (k // 2) % 2}))
    out += common.extra_tasks(PID, tier, seed)
    return out


def t3_case(case):
    from scikit_tt.tensor_train import TT
    rng = rng_for(case)
    d, kind, deficient = case['d'], case['kind'], case['deficient']
    obs = []
    mf = ('vt.props.c05', 't3_case')

    def C(func):
        c = Clauses(PID, func, case, modfunc=mf)
        obs.append(c)
        return c
    rd = [int(rng.choice([1, 2, 3])) for _ in range(d)]
    rk = [1] + [int(rng.integers(1, 5)) for _ in range(d - 1)] + [1]
    cores = spec.rand_cores(rng, rd, [1] * d, rk, kind)
    if deficient:
        for i in range(d - 1):
            if rk[i + 1] >= 2:
                cores[i][:, :, :, -1] = 2.0 * cores[i][:, :, :, 0]
    # relative thresholds must be scale invariant: tensors with norm far from 1 are part of the family
    scale = float([1.0, 1e7, 1e-7][(case['k'] // 4) % 3])
    cores[int(rng.integers(d))] *= scale
    t = TT(cores)
    T = spec.den(t).reshape(rd)
    thr = 1e-10 if deficient else 0.0
    for index in range(1, d):
        M = T.reshape(int(np.prod(rd[:index])), int(np.prod(rd[index:])))
        Sd = np.linalg.svd(M, compute_uv=False)
        keep = int(np.sum(Sd / Sd[0] > thr)) if thr else len(Sd)
        st = spec.Snap(t)
        tag = '[index=%d/%d]' % (index, d)
        sig = 'd%d.index%d/%s/%s' % (d, index, kind, 'deficient' if deficient else 'full')
        c = C('TT.svd')
        ok, res = c.guarded('post:value', lambda: t.svd(index, threshold=thr))
        if ok:
            u, s, v = res
            c.wf(u, 'post:wf(u)')
            c.wf(v, 'post:wf(v)')
            if spec.wf(u) and spec.wf(v):
                c.add('post:len(s)', len(s) == u.ranks[-1] == v.ranks[0], '%d %d %d' % (len(s), u.ranks[-1], v.ranks[0]), sig=sig)
                c.add('post:u.order', u.order == index and v.order == d - index, sig=sig)
                bad = [(i, left_orth_defect(x)) for i, x in enumerate(u.cores) if left_orth_defect(x) > 1e-8]
                c.add('post:u-left-orthonormal', not bad, str(bad[:2]), sig=sig)
                bad = [(i, right_orth_defect(x)) for i, x in enumerate(v.cores) if right_orth_defect(x) > 1e-8]
                c.add('post:v-right-orthonormal', not bad, str(bad[:2]), sig=sig)
                Gu = spec.G(u.cores).reshape(-1, len(s))
                Gv = spec.G(v.cores).reshape(len(s), -1)
                c.close('post:value', (Gu * s) @ Gv, M, tol=1e-8, nontrivial=M.size >= 2, sig=sig)
                # the unfolding has min(m,n) singular values, the TT at most its bond rank: the surplus must vanish
                n_s = len(s)
                if thr:
                    okn = n_s == keep
                else:
                    okn = n_s <= len(Sd) and (n_s == len(Sd) or Sd[n_s] <= 1e-9 * Sd[0])
                if okn:
                    c.close('post:singular-values', s[:min(n_s, len(Sd))], Sd[:n_s], tol=1e-8, sig=sig)
                else:
                    c.add('post:singular-values', False, 'kept %d values, matrix SVD has %d above the cut' % (n_s, keep), sig=sig)
                c.fresh(u, [t], 'post:u-buffers-fresh')
                c.fresh(v, [t], 'post:v-buffers-fresh')
        c.frame([st], [t])
        # max_rank
        r = int(rng.integers(1, 4))
        ok, res = c.guarded('post:len(s)<=max_rank', lambda: t.svd(index, max_rank=r))
        if ok:
            c.add('post:len(s)<=max_rank', len(res[1]) <= r and res[0].ranks[-1] == len(res[1]), sig=sig)
        c.frame([st], [t], 'frame:operands-unchanged[max_rank]')

        c = C('TT.pinv')
        ok, p = c.guarded('post:value', lambda: t.pinv(index, threshold=thr))
        if ok:
            c.wf(p)
            if spec.wf(p):
                want = np.linalg.pinv(M, rcond=thr if thr else 1e-15).conj().T
                c.close('post:value', spec.den(p).reshape(M.shape), want, tol=1e-7, nontrivial=M.size >= 2, sig=sig)
                c.add('post:dims', list(p.row_dims) == rd and list(p.col_dims) == [1] * d, sig=sig)
                c.fresh(p, [t])
        c.frame([st], [t])
        # overwrite variant: same value, self consumed
        t2 = t.copy()
        ok, p2 = c.guarded('post:value[overwrite]', lambda: t2.pinv(index, threshold=thr, overwrite=True))
        if ok and ok and spec.wf(p2):
            want = np.linalg.pinv(M, rcond=thr if thr else 1e-15).conj().T
            c.close('post:value[overwrite]', spec.den(p2).reshape(M.shape), want, tol=1e-7, sig=sig)
    return [o for c in obs for o in c.out]
