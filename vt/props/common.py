"""shared metadata for property modules"""
import importlib

ASSUMPTIONS = [
    'A-real: floating point treated as exact real/complex arithmetic in E1/E2; T3 compares with tolerance 1e-9*scale',
    'A-int: array sizes below 2^63 (Python ints are mathematical integers in E1)',
    'A-numpy: the NumPy/SciPy contract table of vt/e1/npmodel.py (shape, kind, aliasing, contiguity, may-write sets) '
    'is assumed, not proved; it is differentially tested against the real NumPy/SciPy on every C06 run (vt/e1/nptest.py: acceptance, '
    'result shape, complexness, view-or-copy, contiguity of reshape/transpose/conj/copy/indexing/tensordot/dot/matmul/einsum/diag/svd/qr/rq '
    'on seeded random arrays - bounded)',
    'A-lapack: svd/qr/rq/solve/inv/eig/expm satisfy their mathematical definitions; overwrite_a may clobber its '
    'argument buffer and nothing else',
    'A-basis: user-supplied basis functions (regression.py) are total maps from a state vector to one real number without side effects; '
    'scipy.linalg.lstsq returns a solution with one entry per column of the system',
    'A-python: subset semantics of vt/e1/symexec.py (CPython evaluation order, no operator overloading besides TT)',
    'A-solver: soundness of z3 5.1 (the only solver used; `unknown` is never a verdict)',
    'A-alloc: allocation model of E1 - object/list/buffer identities are integers handed out by a monotone watermark; every identity '
    'in existence at a call is below the callee\'s entry watermark, everything a callee allocates lies between its entry and exit watermark',
    'A-heap: tensor trains stored in trajectory lists are described by uninterpreted functions of their identity (vt/e1/heap.py); the '
    'bound axioms H_top/H_bot are consistent by construction (finite id sets) but not proved inside z3',
    'L-cumsum-mono: cumulative sums of positive integers are strictly increasing (assumed by z3 in the qtt2tt contract; proved in Lean 4 + Mathlib, lemmas/ProdLemmas.lean, re-checked by the C06 run)',
    'L-prod-pos / L-prod-front / L-prod-split: a product of positive integers is positive; prod(l[a:b]) = l[a] * prod(l[a+1:b]); '
    'prod(l[0:n]) = prod(l[0:k]) * prod(l[k:n]) (assumed by z3 for the uninterpreted slice products; each proved in Lean 4 + Mathlib, lemmas/ProdLemmas.lean, re-checked by the C06 run - trusted: the correspondence of the Lean statements with the z3 encoding)',
    'L-prod-interleave: prod(p) = prod(p[0::2]) * prod(p[1::2]) for a list of even length (assumed by z3 for the final reshape of TT.full; proved in Lean, lemmas/ProdLemmas.lean)',
    'A-vacuity: where z3 cannot build a model of a quantified path condition the vacuity guard degrades to "no contradiction derivable '
    'within the obligation budget" (counted in coverage.e1_vacuity_inconclusive)',
    'A-engine: the VC generator vt/e1 itself (mitigated by canary obligations that must be refuted on every run and '
    'by the seeded-change corpus under /verif/seeded)',
]

EXPL = ('Sidecar contracts on the real functions of /repo/scikit_tt. Three back ends over one clause set: '
        'E1 = verification conditions generated from the real AST (re-read on every run) and discharged by z3 for all '
        'orders/dims/ranks/iterations (counted in obligations/discharged); E2 = exact symbolic execution of the real '
        'function objects over a polynomial ring, exact for all entries per concrete shape (bounded in shape); '
        'T3 = run-time evaluation of the same clauses against dense NumPy oracles on an enumerated+seeded family '
        '(bounded). Only E1 counts as proved; E2/T3 are bounded stand-ins and are listed under bounded_clauses.')


def meta(pid, functions=(), rule='', level='other', trusted=(), unverified=(), exhaustive=False):
    return {'pid': pid, 'level': level, 'explanation': EXPL, 'functions': list(functions), 'rule': rule,
            'assumptions': list(ASSUMPTIONS), 'trusted_base': ['z3 5.1.0', 'NumPy/SciPy contract table',
                                                               'vt/e1 VC generator'] + list(trusted),
            'unverified': list(unverified), 'exhaustive': exhaustive}


def thorough(n):
    """size of the seeded family of the thorough tier (VERIF_THOROUGH_SCALE times the base size; default 4)"""
    import os
    return n * max(1, int(os.environ.get('VERIF_THOROUGH_SCALE', '4')))


def extra_tasks(pid, tier, seed):
    """E1 / E2 tasks registered for this property (modules are optional while the framework grows)"""
    out = []
    for modname in ('vt.e1.registry', 'vt.e2.registry'):
        try:
            m = importlib.import_module(modname)
        except ImportError:
            continue
        out += m.tasks_for(pid, tier, seed)
    return out
