"""C08 - ALS eigen-solver returns consistent Ritz pairs and keeps exact eigenpairs."""
import numpy as np
from vt import spec
from vt.t3 import Clauses, rng_for
from vt.props import common
from vt.props.c07 import frame_matrix

PID = 'C08'
META = common.meta(
    PID,
    functions=['scikit_tt.solvers.evp:als', 'scikit_tt.solvers.evp:power_method',
               'scikit_tt.solvers.evp:__construct_left_stacks', 'scikit_tt.solvers.evp:__construct_right_stacks',
               'scikit_tt.solvers.evp:__construct_micro_matrices', 'scikit_tt.solvers.evp:__update_core'],
    trusted=['L-ritz: eigenvalue of P^H A P with orthonormal P is a Rayleigh quotient; Cauchy interlacing'],
    rule='T3: seeded Hermitian TT operators (real symmetric and complex Hermitian; HPD right-hand operators), orders '
         '1-4, dims 1-3, guesses of rank 1..maximal, solver in {eig, eigh, eigs}, number_ev 1-2, repeats 1-3, deflation '
         'sets with shifts; run-time contract on __construct_micro_matrices: micro_op == P^H (A + shift sum |p><p|) P; '
         'non-trivial = dimension >= 2.')


def tasks(tier, seed):
    out = []
    n = 72 if tier == 'quick' else common.thorough(540)
    for k in range(n):
        out.append(('vt.props.c08', 't3_case', {'seed': seed, 'k': k, 'backend': 'T3', 'd': 1 + k % 4,
                                                'kind': ['real', 'complex'][(k // 4) % 2],
                                                'solver': ['eig', 'eigh', 'eigs'][(k // 8) % 3],
                                                'gevp': (k // 24) % 3 == 2}))
    for k in range(n, n + (12 if tier == 'quick' else 80)):
        out.append(('vt.props.c08', 't3_power', {'seed': seed, 'k': k, 'backend': 'T3', 'd': 2 + k % 3,
                                                 'kind': ['real', 'complex'][(k // 3) % 2], 'gevp': (k // 6) % 2 == 1}))
    out += common.extra_tasks(PID, tier, seed)
    return out


def herm_problem(rng, d, kind, gevp):
    from scikit_tt.tensor_train import TT
    dims = [1, 2, 3] if d <= 3 else [1, 2]
    rd = [int(rng.choice(dims)) for _ in range(d)]
    if all(x == 1 for x in rd):
        rd[int(rng.integers(d))] = 2
    N = int(np.prod(rd))
    H = spec.rnd(rng, (N, N), kind)
    H = (H + H.conj().T) / 2
    # well separated spectrum: eigenvalue gaps of order 1
    w, V = np.linalg.eigh(H)
    w = np.sort(rng.permutation(np.arange(1, N + 1)) + 0.3 * rng.standard_normal(N))
    H = (V * w) @ V.conj().T
    H = (H + H.conj().T) / 2
    op = TT(H.reshape(rd + rd))
    B, opB = None, None
    if gevp:
        B = spec.hpd_dense(rng, N, kind, cond=10.0)
        opB = TT(B.reshape(rd + rd))
        B = spec.mat(opB)
    return op, spec.mat(op), opB, B, rd, N


def rq(x, A, B=None):
    num = np.vdot(x, A @ x)
    den = np.vdot(x, x) if B is None else np.vdot(x, B @ x)
    return num / den


class Monitor:
    def __init__(self, evp, A, B, prev_vecs, shift, c):
        self.evp, self.A, self.B, self.pv, self.shift, self.c = evp, A, B, prev_vecs, shift, c
        self.bad, self.n = [], 0

    def __enter__(self):
        m = self.evp.__dict__
        self.saved = m['__construct_micro_matrices']
        fn = self.saved

        def w(i, trains, stacks, shift):
            res = fn(i, trains, stacks, shift)
            try:
                P = frame_matrix(trains.solution.cores, i, 1, dims=trains.operator.row_dims)
                Aeff = self.A.copy()
                for p in self.pv:
                    Aeff = Aeff + shift * np.outer(p, p.conj())
                ok, det = spec.close(res[0], P.conj().T @ Aeff @ P, 1e-8)
                self.n += 1
                if not ok:
                    self.bad.append('core %d micro_op: %s' % (i, det))
                if self.B is not None:
                    ok, det = spec.close(res[1], P.conj().T @ self.B @ P, 1e-8)
                    if not ok:
                        self.bad.append('core %d micro_op_gevp: %s' % (i, det))
            except Exception as e:  # noqa
                self.bad.append('core %d: cannot evaluate contract: %r' % (i, e))
            return res
        m['__construct_micro_matrices'] = w
        return self

    def __exit__(self, *a):
        self.evp.__dict__['__construct_micro_matrices'] = self.saved

    def report(self, tag):
        self.c.add('post:micro_op==P^H.A.P[%s]' % tag, not self.bad, '; '.join(self.bad[:3]), nontrivial=self.n > 0)


def phase_dist(x, y):
    """distance between unit vectors up to a phase"""
    ph = np.vdot(y, x)
    if abs(ph) < 1e-300:
        return float(np.linalg.norm(x - y))
    return float(np.linalg.norm(x - y * (ph / abs(ph))))


def t3_case(case):
    import scikit_tt.solvers.evp as evp
    from scikit_tt.tensor_train import TT
    rng = rng_for(case)
    d, kind, solver, gevp = case['d'], case['kind'], case['solver'], case['gevp']
    c = Clauses(PID, 'evp.als', case, modfunc=('vt.props.c08', 't3_case'))
    op, A, opB, B, rd, N = herm_problem(rng, d, kind, gevp)
    import scipy.linalg as sl
    w, V = sl.eigh(A, B)
    lam_max = float(w[-1])
    mr = spec.max_ranks(rd, [1] * d)
    nt = N >= 2
    sigma = lam_max + 0.25        # target above the spectrum: 'nearest to sigma' and 'largest' coincide
    tag = solver + ('/gevp' if gevp else '')

    def vec(t):
        return spec.mat(t)[:, 0]

    if solver == 'eigs' and N < 4:
        solver_eff = 'eig'       # ARPACK needs k < n-1 on the micro problems; precondition of the 'eigs' option
    else:
        solver_eff = solver

    def run(guess, repeats, number_ev=1, previous=[], shift=0, operator=None, sig=None):
        return evp.als(operator or op, guess, previous=previous, shift=shift, operator_gevp=opB, number_ev=number_ev,
                       repeats=repeats, conv_eps=1e-14, solver=solver_eff, sigma=sigma if sig is None else sig, real=True)

    rk = spec.admissible_ranks(rng, rd)
    if solver_eff == 'eigs':
        rk = list(mr)          # keep the micro problems large enough for ARPACK (k < n - 1)
    guess = spec.rand_tt(rng, rd, [1] * d, rk, kind)
    snaps = [spec.Snap(op), spec.Snap(guess)] + ([spec.Snap(opB)] if gevp else [])
    if N >= 3 and solver_eff != 'eigs':
        sig_in = float(0.5 * (w[len(w) // 2] + w[len(w) // 2 - 1]))      # a target inside the spectrum
        for rep in (2, 3):
            ok, r_in = c.guarded('post:rayleigh-quotient[%s,target-inside-spectrum]' % tag, lambda: run(guess, rep, sig=sig_in))
            if ok and spec.wf(r_in[1]):
                c.close('post:rayleigh-quotient[%s,target-inside-spectrum]' % tag, np.real(r_in[0]), np.real(rq(vec(r_in[1]), A, B)), tol=1e-8, nontrivial=nt)
    lams, res = [], None
    for rep in (1, 2, 3):
        with Monitor(evp, A, B, [], 0, c) as mon:
            ok, res = c.guarded('post:rayleigh-quotient[%s]' % tag, lambda: run(guess, rep))
        if not ok:
            break
        if rep == 1:
            mon.report(tag)
        lam, x, its = res
        lams.append(float(np.real(lam)))
        if rep > 1 and spec.wf(x):
            # the reported eigenvalue belongs to the *returned* eigentensor also when several sweeps were made
            c.close('post:rayleigh-quotient[%s]' % tag, np.real(lam), np.real(rq(vec(x), A, B)), tol=1e-8, nontrivial=nt)
        if rep == 1:
            c.wf(x, 'post:wf(eigentensor)')
            xv = vec(x)
            c.close('post:rayleigh-quotient[%s]' % tag, np.real(lam), np.real(rq(xv, A, B)), tol=1e-8, nontrivial=nt)
            if not gevp:
                c.close('post:unit-norm[%s]' % tag, np.linalg.norm(xv), 1.0, tol=1e-8)
            c.add('post:<=lambda_max[%s]' % tag, np.real(lam) <= lam_max + 1e-8 * max(1, abs(lam_max)), '%.10g vs %.10g' % (np.real(lam), lam_max), nontrivial=nt)
            c.add('post:iterations', its == 1, 'iterations %s' % its)
            c.fresh(x, [guess, op], 'post:result-buffers-fresh')
    if len(lams) == 3:
        dist = [abs(l - sigma) for l in lams]
        c.add('post:sweeps-never-move-away-from-target[%s]' % tag,
              all(dist[j + 1] <= dist[j] + 1e-8 * max(1, abs(sigma)) for j in range(2)), 'eigenvalues per repeats %s sigma %.6g' % (lams, sigma), nontrivial=nt)
    c.frame(snaps, [op, guess] + ([opB] if gevp else []))

    # exact dominant eigentensor as guess ------------------------------------------------------------------------------
    v1 = V[:, -1]
    v1 = v1 / np.linalg.norm(v1)
    ex = TT(v1.reshape(rd + [1] * d))
    ok, res = c.guarded('post:exact-eigenpair-kept[%s]' % tag, lambda: run(ex, 1))
    if ok:
        lam, x, _ = res
        xv = vec(x)
        c.add('post:exact-eigenpair-kept[%s]' % tag, abs(np.real(lam) - lam_max) <= 1e-7 * max(1, abs(lam_max)) and
              phase_dist(xv / np.linalg.norm(xv), v1) <= 1e-6, 'lambda %.10g vs %.10g, vector distance %.3g' % (np.real(lam), lam_max, phase_dist(xv / np.linalg.norm(xv), v1)), nontrivial=nt)

    # maximal-rank guess -> exact extremal eigenpair -------------------------------------------------------------------
    g2 = spec.rand_tt(rng, rd, [1] * d, mr, kind)
    with Monitor(evp, A, B, [], 0, c) as mon:
        ok, res = c.guarded('post:exact-at-maximal-rank[%s]' % tag, lambda: run(g2, 2))
    if ok:
        mon.report(tag + '/maximal-guess')
        lam, x, _ = res
        xv = vec(x)
        c.add('post:exact-at-maximal-rank[%s]' % tag, abs(np.real(lam) - lam_max) <= 1e-7 * max(1, abs(lam_max)) and
              phase_dist(xv / np.linalg.norm(xv), v1) <= 1e-5, 'lambda %.10g vs %.10g, vector distance %.3g' % (np.real(lam), lam_max, phase_dist(xv / np.linalg.norm(xv), v1)), nontrivial=nt)

    # deflation == explicitly shifted operator (one or several deflation tensors) -----------------------------------------
    if not gevp and N >= 3:
        nprev = 2 if (N >= 4 and case['k'] % 2 == 0) else 1
        shift = -float(rng.uniform(2.0, 5.0)) - (w[-1] - w[0])   # pushes the deflated pairs to the bottom
        pvs, ps, shifted = [], [], op
        for q in range(nprev):
            pv = V[:, -1 - q] / np.linalg.norm(V[:, -1 - q])
            pt = TT(pv.reshape(rd + [1] * d))
            if q == 1:
                pt = pt + 0.0 * spec.rand_tt(rng, rd, [1] * d, [1] * (d + 1), kind)     # different TT ranks per deflation tensor
            pvs.append(pv)
            ps.append(pt)
            shifted = shifted + shift * (pt @ pt.transpose(conjugate=True))
        sps = [spec.Snap(p_) for p_ in ps]
        dtag = tag + '/deflation%d' % nprev
        with Monitor(evp, A, None, pvs, shift, c) as mon:
            ok, r1 = c.guarded('post:deflation==shifted-operator[%s]' % dtag, lambda: run(g2, 2, previous=ps, shift=shift))
        ok2, r2 = c.guarded('post:deflation==shifted-operator[%s]' % dtag, lambda: run(g2, 2, operator=shifted))
        if ok and ok2:
            mon.report(dtag)
            x1, x2 = vec(r1[1]), vec(r2[1])
            c.add('post:deflation==shifted-operator[%s]' % dtag,
                  abs(np.real(r1[0]) - np.real(r2[0])) <= 1e-7 * max(1, abs(r2[0])) and phase_dist(x1 / np.linalg.norm(x1), x2 / np.linalg.norm(x2)) <= 1e-5,
                  'eigenvalues %.10g vs %.10g, vector distance %.3g' % (np.real(r1[0]), np.real(r2[0]), phase_dist(x1 / np.linalg.norm(x1), x2 / np.linalg.norm(x2))))
            c.add('post:deflated-pair-is-next[%s]' % dtag, abs(np.real(r1[0]) - w[-1 - nprev]) <= 1e-6 * max(1, abs(w[-1 - nprev])), '%.10g vs %.10g' % (np.real(r1[0]), w[-1 - nprev]))
        c.frame(sps, ps, 'frame:previous-unchanged')
        if kind == 'real' and ok2:
            # the same deflation tensors handed over with a complex phase: |p><p| is unchanged, so is the shifted operator
            phase = np.exp(1j * float(rng.uniform(0.3, 1.2)))
            psc = [phase * p_ for p_ in ps]
            ctag = dtag + '/complex-deflation-tensors'
            ok3, r3 = c.guarded('post:deflation==shifted-operator[%s]' % ctag, lambda: run(g2, 2, previous=psc, shift=shift))
            if ok3:
                x3, x2 = vec(r3[1]), vec(r2[1])
                c.add('post:deflation==shifted-operator[%s]' % ctag,
                      abs(np.real(r3[0]) - np.real(r2[0])) <= 1e-7 * max(1, abs(r2[0])) and phase_dist(x3 / np.linalg.norm(x3), x2 / np.linalg.norm(x2)) <= 1e-5,
                      'eigenvalues %.10g vs %.10g, vector distance %.3g' % (np.real(r3[0]), np.real(r2[0]), phase_dist(x3 / np.linalg.norm(x3), x2 / np.linalg.norm(x2))))

    # precondition of the block solver: every micro problem has at least number_ev unknowns (all mode sizes >= 2)
    if N >= 4 and solver_eff != 'eigs' and all(x >= 2 for x in rd):
        with Monitor(evp, A, B, [], 0, c) as mon:
            ok, res = c.guarded('post:block-rayleigh-quotients[%s]' % tag, lambda: run(g2, 2, number_ev=2))
        if ok:
            lam, xs, _ = res
            c.add('post:block-count', isinstance(xs, list) and len(xs) == 2 and len(lam) == 2)
            if isinstance(xs, list) and len(xs) == 2:
                bad = []
                for j in range(2):
                    bad += ['eigentensor %d: %s' % (j, b) for b in spec.wf_report(xs[j])]
                c.add('post:wf(eigentensors)', not bad, '; '.join(bad[:2]))
                if not bad:
                    for j in range(2):
                        xv = vec(xs[j])
                        c.close('post:block-rayleigh-quotients[%s]' % tag, np.real(lam[j]), np.real(rq(xv, A, B)), tol=1e-7)
                    c.add('post:block-eigentensors-distinct-objects', xs[0] is not xs[1] and not spec.shares(xs[0], xs[1]),
                          'shared cores %s' % spec.shares(xs[0], xs[1])[:3], sig='evp.als/number_ev=2')
    return c.out


def t3_power(case):
    import scikit_tt.solvers.evp as evp
    from scikit_tt.tensor_train import TT
    import scipy.linalg as sl
    rng = rng_for(case)
    d, kind, gevp = case['d'], case['kind'], case['gevp']
    c = Clauses(PID, 'evp.power_method', case, modfunc=('vt.props.c08', 't3_power'))
    op, A, opB, B, rd, N = herm_problem(rng, d, kind, gevp)
    w, V = sl.eigh(A, B)
    j = int(rng.integers(N))
    gap = min([abs(w[j] - w[i]) for i in range(N) if i != j] + [1.0])
    sigma = float(w[j] + 0.1 * gap)
    mr = spec.max_ranks(rd, [1] * d)
    guess = spec.rand_tt(rng, rd, [1] * d, mr, kind)
    snaps = [spec.Snap(op), spec.Snap(guess)] + ([spec.Snap(opB)] if gevp else [])
    ok, res = c.guarded('post:rayleigh-quotient', lambda: evp.power_method(op, guess, operator_gevp=opB, repeats=25, sigma=sigma))
    if ok:
        lam, x = res
        xv = spec.mat(x)[:, 0]
        true_rq = rq(xv, A, B)
        c.add('post:rayleigh-quotient', abs(lam - true_rq) <= 1e-7 * max(1, abs(true_rq)), 'reported %s, true Rayleigh quotient %s' % (lam, true_rq))
        c.add('post:converges-to-nearest', abs(np.real(true_rq) - w[j]) <= 1e-5 * max(1, abs(w[j])), 'RQ %.10g vs nearest eigenvalue %.10g (sigma %.6g)' % (np.real(true_rq), w[j], sigma))
        c.wf(x, 'post:wf(eigentensor)')
    c.frame(snaps, [op, guess] + ([opB] if gevp else []))
    return c.out
