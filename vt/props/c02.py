"""C02 - contractions and structural rearrangements equal their dense definition."""
import itertools
import numpy as np
from vt import spec
from vt.t3 import Clauses, rng_for
from vt.props import common

PID = 'C02'
META = common.meta(
    PID,
    functions=['scikit_tt.tensor_train:TT.%s' % f for f in
               ['tensordot', 'rank_tensordot', 'concatenate', 'rank_transpose', 'diag', 'squeeze', 'tt2qtt', 'qtt2tt']] +
              ['scikit_tt.tensor_train:build_core', 'scikit_tt.tensor_train:build_core_vector'],
    rule='T3: tensordot over all four modes x every admissible num_axes for enumerated operand orders (incl. complete '
         'contraction of either/both operands, non-unit free boundary ranks); structural ops over seeded shapes incl. '
         'size-1 modes; non-trivial = result or operand has >= 2 entries; distinct = distinct (obligation, case).')

MODES = ['last-first', 'last-last', 'first-last', 'first-first']


def tasks(tier, seed):
    out = []
    k = 0
    orders = [1, 2, 3] if tier == 'quick' else [1, 2, 3, 4]
    reps = 1 if tier == 'quick' else 3
    for d in orders:
        for e in orders:
            for na in range(1, min(d, e) + 1):
                for mode in MODES:
                    for kind in ['real', 'complex']:
                        for rep in range(reps):
                            k += 1
                            out.append(('vt.props.c02', 't3_tensordot', {'d': d, 'e': e, 'na': na, 'mode': mode, 'kind': kind,
                                                                         'seed': seed, 'k': k, 'backend': 'T3',
                                                                         'sig': 'd%d.e%d.k%d/%s/%s' % (d, e, na, mode, kind)}))
    n = 60 if tier == 'quick' else common.thorough(400)
    for i in range(n):
        k += 1
        out.append(('vt.props.c02', 't3_struct', {'seed': seed, 'k': k, 'backend': 'T3', 'd': 1 + i % 4,
                                                  'kind': ['real', 'complex', 'mixed'][i % 3]}))
    for i in range(40 if tier == 'quick' else 200):
        k += 1
        out.append(('vt.props.c02', 't3_build_core', {'seed': seed, 'k': k, 'backend': 'T3', 'variant': i % 8,
                                                      'sig': 'variant%d' % (i % 8)}))
    out += common.extra_tasks(PID, tier, seed)
    return out


def tensordot_oracle(Gs, Go, d, e, na, mode):
    """dense definition: numpy contraction of the generalised denotations, documented free-mode order"""
    # labels
    ids = itertools.count()
    sL, sR, oL, oR = next(ids), next(ids), next(ids), next(ids)
    sr = [next(ids) for _ in range(d)]
    sc = [next(ids) for _ in range(d)]
    orr = [next(ids) for _ in range(e)]
    oc = [next(ids) for _ in range(e)]
    if mode == 'last-first':
        pairs = [(d - na + i, i) for i in range(na)]
        free_s, free_o = list(range(d - na)), list(range(na, e))
        modes = [('s', i) for i in free_s] + [('o', j) for j in free_o]
        left, right = sL, oR
    elif mode == 'last-last':
        pairs = [(d - na + i, e - na + i) for i in range(na)]
        free_s, free_o = list(range(d - na)), list(range(e - na))
        modes = [('s', i) for i in free_s] + [('o', j) for j in reversed(free_o)]
        left, right = sL, oL
    elif mode == 'first-last':
        pairs = [(i, e - na + i) for i in range(na)]
        free_s, free_o = list(range(na, d)), list(range(e - na))
        modes = [('o', j) for j in free_o] + [('s', i) for i in free_s]
        left, right = oL, sR
    else:
        pairs = [(i, i) for i in range(na)]
        free_s, free_o = list(range(na, d)), list(range(na, e))
        modes = [('o', j) for j in reversed(free_o)] + [('s', i) for i in free_s]
        left, right = oR, sR
    for (i, j) in pairs:
        orr[j] = sr[i]
        oc[j] = sc[i]
    ls = [sL] + sr + sc + [sR]
    lo = [oL] + orr + oc + [oR]
    outl = [left] + [sr[i] if w == 's' else orr[i] for (w, i) in modes] + [sc[i] if w == 's' else oc[i] for (w, i) in modes] + [right]
    res = np.einsum(Gs, ls, Go, lo, outl)
    if not modes:
        # complete contraction of both operands: the docstring fixes no order for the two free boundary ranks;
        # the coded convention (free rank of self first, then that of other) is taken as the definition
        if left in (oL, oR):
            res = res.T
        res = res.reshape(res.shape[0], 1, 1, res.shape[1])
    return res, len(modes)


def t3_tensordot(case):
    from scikit_tt.tensor_train import TT
    rng = rng_for(case)
    d, e, na, mode, kind = case['d'], case['e'], case['na'], case['mode'], case['kind']
    c = Clauses(PID, 'TT.tensordot', case, modfunc=('vt.props.c02', 't3_tensordot'))
    dims = [1, 2, 3]
    srd = [int(rng.choice(dims)) for _ in range(d)]
    scd = [int(rng.choice(dims)) for _ in range(d)]
    ord_ = [int(rng.choice(dims)) for _ in range(e)]
    ocd = [int(rng.choice(dims)) for _ in range(e)]
    spairs = {'last-first': [(d - na + i, i) for i in range(na)], 'last-last': [(d - na + i, e - na + i) for i in range(na)],
              'first-last': [(i, e - na + i) for i in range(na)], 'first-first': [(i, i) for i in range(na)]}[mode]
    for (i, j) in spairs:
        ord_[j], ocd[j] = srd[i], scd[i]
    srk = [int(rng.integers(1, 4)) for _ in range(d + 1)]
    ork = [int(rng.integers(1, 4)) for _ in range(e + 1)]
    if mode.startswith('last'):
        srk[-1] = 1
    else:
        srk[0] = 1
    if mode.endswith('first'):
        ork[0] = 1
    else:
        ork[-1] = 1
    s = TT(spec.rand_cores(rng, srd, scd, srk, kind))
    o = TT(spec.rand_cores(rng, ord_, ocd, ork, 'real' if kind == 'real' else 'mixed'))
    ss, so = spec.Snap(s), spec.Snap(o)
    want, nm = tensordot_oracle(spec.G(s.cores), spec.G(o.cores), d, e, na, mode)
    ok, r = c.guarded('post:value', lambda: s.tensordot(o, na, mode=mode))
    if ok:
        c.wf(r)
        if spec.wf(r):
            c.close('post:value', spec.G(r.cores), want, nontrivial=want.size >= 2)
            c.add('post:order', r.order == max(nm, 1), 'order %d, expected %d' % (r.order, max(nm, 1)))
        c.add('post:new-object', r is not s and r is not o)
    c.frame([ss, so], [s, o])
    # overwrite variant: result is self, same value
    s2 = s.copy()
    ok, r2 = c.guarded('post:value[overwrite]', lambda: s2.tensordot(o, na, mode=mode, overwrite=True))
    if ok:
        c.add('post:overwrite-returns-self', r2 is s2)
        c.wf(s2, 'post:wf(self)[overwrite]')
        if spec.wf(s2):
            c.close('post:value[overwrite]', spec.G(s2.cores), want)
    c.frame([so], [o], 'frame:other-unchanged[overwrite]')
    # documented exceptions
    c.raises('raises:ValueError[num_axes]', ValueError, lambda: s.tensordot(o, min(d, e) + 1, mode=mode))
    c.raises('raises:ValueError[mode]', ValueError, lambda: s.tensordot(o, na, mode='middle'))
    return c.out


def _factorizations(n):
    """ordered factorisations of n into factors >= 1 (length <= 3), incl. [n]"""
    out = [[n]]
    for a in range(1, n + 1):
        if n % a == 0:
            out.append([a, n // a])
            for b in range(1, n // a + 1):
                if (n // a) % b == 0:
                    out.append([a, b, n // a // b])
    return out


def t3_struct(case):
    from scikit_tt.tensor_train import TT
    rng = rng_for(case)
    d, kind = case['d'], case['kind']
    obs = []
    mf = ('vt.props.c02', 't3_struct')

    def C(func):
        c = Clauses(PID, func, case, modfunc=mf)
        obs.append(c)
        return c
    dims = [1, 2, 3, 4]
    rd = [int(rng.choice(dims)) for _ in range(d)]
    cd = [int(rng.choice(dims)) for _ in range(d)]
    rk = [int(rng.integers(1, 4)) for _ in range(d + 1)]
    t = TT(spec.rand_cores(rng, rd, cd, rk, kind))
    Gt = spec.G(t.cores)
    st = spec.Snap(t)

    # rank_tensordot
    c = C('TT.rank_tensordot')
    m = spec.rnd(rng, (rk[-1], int(rng.integers(1, 4))), 'complex' if kind == 'complex' else 'real')
    ok, r = c.guarded('post:value[last]', lambda: t.rank_tensordot(m, mode='last'))
    if ok:
        c.wf(r, 'post:wf(result)[last]')
        c.close('post:value[last]', spec.G(r.cores), np.tensordot(Gt, m, axes=([Gt.ndim - 1], [0])))
        c.fresh(r, [t], 'post:result-buffers-fresh[last]')
    m2 = spec.rnd(rng, (int(rng.integers(1, 4)), rk[0]), 'real')
    ok, r = c.guarded('post:value[first]', lambda: t.rank_tensordot(m2, mode='first'))
    if ok:
        c.wf(r, 'post:wf(result)[first]')
        c.close('post:value[first]', spec.G(r.cores), np.tensordot(m2, Gt, axes=([1], [0])))
    c.raises('raises:ValueError[shape]', ValueError, lambda: t.rank_tensordot(np.zeros((rk[-1] + 1, 2)), mode='last'))
    c.raises('raises:ValueError[mode]', ValueError, lambda: t.rank_tensordot(m, mode='middle'))
    c.frame([st], [t])
    t2 = t.copy()
    ok, r = c.guarded('post:value[overwrite]', lambda: t2.rank_tensordot(m, mode='last', overwrite=True))
    if ok:
        c.add('post:overwrite-returns-self', r is t2)
        c.wf(t2, 'post:wf(self)[overwrite]')

    # concatenate (TT and list)
    c = C('TT.concatenate')
    e = int(rng.integers(1, 4))
    ord_ = [int(rng.choice(dims)) for _ in range(e)]
    ocd = [int(rng.choice(dims)) for _ in range(e)]
    ork = [rk[-1]] + [int(rng.integers(1, 4)) for _ in range(e)]
    o = TT(spec.rand_cores(rng, ord_, ocd, ork, 'real'))
    so = spec.Snap(o)
    want = spec.G(t.cores + o.cores)
    ok, r = c.guarded('post:value', lambda: t.concatenate(o))
    if ok:
        c.wf(r)
        if spec.wf(r):
            c.close('post:value', spec.G(r.cores), want)
            c.add('post:dims', list(r.row_dims) == rd + ord_ and list(r.col_dims) == cd + ocd and list(r.ranks) == rk + ork[1:])
        c.add('post:new-object', r is not t and r is not o)
    ok, r = c.guarded('post:value[list]', lambda: t.concatenate([x.copy() for x in o.cores]))
    if ok:
        c.wf(r, 'post:wf(result)[list]')
        if spec.wf(r):
            c.close('post:value[list]', spec.G(r.cores), want)
    c.frame([st, so], [t, o])
    if ork[0] + 1 != rk[-1]:
        bad = TT(spec.rand_cores(rng, ord_, ocd, [rk[-1] + 1] + ork[1:], 'real'))
        c.raises('raises:ValueError', ValueError, lambda: t.concatenate(bad))

    # rank_transpose
    c = C('TT.rank_transpose')
    ok, r = c.guarded('post:value', t.rank_transpose)
    if ok:
        c.wf(r)
        perm = [2 * d + 1] + list(range(d, 0, -1)) + list(range(2 * d, d, -1)) + [0]
        if spec.wf(r):
            c.close('post:value', spec.G(r.cores), np.transpose(Gt, perm))
            c.add('post:dims', list(r.row_dims) == rd[::-1] and list(r.col_dims) == cd[::-1] and list(r.ranks) == rk[::-1])
        c.fresh(r, [t])
    c.frame([st], [t])

    # diag (vector-type input) -----------------------------------------------------------------------------------
    c = C('TT.diag')
    v = TT(spec.rand_cores(rng, rd, [1] * d, rk, kind))
    sv = spec.Snap(v)
    Gv = spec.G(v.cores)
    dl = [i for i in range(d) if rng.integers(2)]
    ok, r = c.guarded('post:value', lambda: v.diag(dl))
    if ok:
        c.wf(r)
        if spec.wf(r):
            want = np.zeros([rk[0]] + rd + [rd[i] if i in dl else 1 for i in range(d)] + [rk[-1]], dtype=complex)
            for ix in itertools.product(*[range(n) for n in rd]):
                col = tuple(ix[i] if i in dl else 0 for i in range(d))
                want[(slice(None),) + ix + col + (slice(None),)] = Gv[(slice(None),) + ix + (0,) * d + (slice(None),)]
            c.close('post:value', spec.G(r.cores), want, nontrivial=want.size >= 2)
    c.frame([sv], [v])

    # squeeze ------------------------------------------------------------------------------------------------------
    c = C('TT.squeeze')
    rd2, cd2 = list(rd), list(cd)
    for i in range(d):
        if rng.integers(3) == 0:
            rd2[i], cd2[i] = 1, 1
    if all(a * b == 1 for a, b in zip(rd2, cd2)):
        rd2[int(rng.integers(d))] = 2
    rk2 = [1] + rk[1:-1] + [1]
    w = TT(spec.rand_cores(rng, rd2, cd2, rk2, kind))
    sw = spec.Snap(w)
    W = spec.den(w)
    ok, r = c.guarded('post:value', w.squeeze)
    if ok:
        c.wf(r)
        keep = [i for i in range(d) if rd2[i] * cd2[i] > 1]
        if spec.wf(r):
            c.add('post:dims', list(r.row_dims) == [rd2[i] for i in keep] and list(r.col_dims) == [cd2[i] for i in keep],
                  '%s %s' % (r.row_dims, r.col_dims))
            c.close('post:value', spec.den(r), W.reshape([rd2[i] for i in keep] + [cd2[i] for i in keep]), nontrivial=W.size >= 2)
    c.frame([sw], [w])

    # tt2qtt / qtt2tt ------------------------------------------------------------------------------------------------
    c = C('TT.tt2qtt')
    u = TT(spec.rand_cores(rng, rd, cd, [1] + rk[1:-1] + [1], kind))
    su = spec.Snap(u)
    U = spec.den(u)
    R, Cc = [], []
    for i in range(d):
        fr = _factorizations(rd[i])
        fr = fr[int(rng.integers(len(fr)))]
        fc = [f for f in _factorizations(cd[i]) if len(f) == len(fr)]
        fc = fc[int(rng.integers(len(fc)))]
        R.append(fr)
        Cc.append(fc)
    flatR = [x for l in R for x in l]
    flatC = [x for l in Cc for x in l]
    ok, q = c.guarded('post:value', lambda: u.tt2qtt(R, Cc))
    if ok:
        c.wf(q)
        if spec.wf(q):
            c.add('post:dims', list(q.row_dims) == flatR and list(q.col_dims) == flatC, '%s %s' % (q.row_dims, q.col_dims))
            c.close('post:value', spec.den(q), U.reshape(flatR + flatC), nontrivial=U.size >= 2)
            c.fresh(q, [u])
            c2 = C('TT.qtt2tt')
            sq = spec.Snap(q)
            ok2, back = c2.guarded('post:round-trip', lambda: q.qtt2tt([len(l) for l in R]))
            if ok2:
                c2.wf(back)
                if spec.wf(back):
                    c2.add('post:dims', list(back.row_dims) == rd and list(back.col_dims) == cd)
                    c2.close('post:round-trip', spec.den(back), U, nontrivial=U.size >= 2)
                    c2.fresh(back, [q])
            c2.frame([sq], [q])
    c.frame([su], [u])
    # qtt2tt alone with random merge groups
    c = C('TT.qtt2tt')
    groups, left = [], d
    while left:
        g = int(rng.integers(1, left + 1))
        groups.append(g)
        left -= g
    ok, r = c.guarded('post:value', lambda: u.qtt2tt(groups))
    if ok:
        c.wf(r, 'post:wf(result)[merge]')
        if spec.wf(r):
            pr, pc, pos = [], [], 0
            for g in groups:
                pr.append(int(np.prod(rd[pos:pos + g])))
                pc.append(int(np.prod(cd[pos:pos + g])))
                pos += g
            c.add('post:dims[merge]', list(r.row_dims) == pr and list(r.col_dims) == pc)
            c.close('post:value', spec.den(r), U.reshape(pr + pc), nontrivial=U.size >= 2)
    c.frame([su], [u], 'frame:operands-unchanged[merge]')
    return [o for c in obs for o in c.out]


def t3_build_core(case):
    import scikit_tt.tensor_train as ttm
    rng = rng_for(case)
    v = case['variant']
    c = Clauses(PID, 'build_core', case, modfunc=('vt.props.c02', 't3_build_core'))
    r1, r2, m, n = [int(rng.integers(1, 4)) for _ in range(4)]
    cplx_blocks = v in (2, 3, 6)
    flag = v in (1, 3, 7)
    zero_last = v in (4, 5, 6, 7)

    mixed = cplx_blocks and (case['k'] // 8) % 2 == 0      # real and complex blocks in one list (the first blocks real): promotion must keep them
    if mixed:
        r1, r2 = max(r1, 2), max(r2, 2)

    def blk():
        if mixed and cplx_blocks:
            blk.count += 1
            return spec.rnd(rng, (m, n), 'real' if blk.count <= 1 or rng.integers(2) else 'complex')
        return spec.rnd(rng, (m, n), 'complex' if cplx_blocks else 'real')
    blk.count = 0
    if v % 2 == 0 or True:
        ml = [[blk() if rng.integers(4) else 0 for _ in range(r2)] for _ in range(r1)]
        if not any(isinstance(x, np.ndarray) for row in ml for x in row):
            ml[0][0] = blk()
        if zero_last:
            ml[-1][-1] = 0
            if not any(isinstance(x, np.ndarray) for row in ml for x in row):
                ml[0][0] = blk()
                if r1 == 1 and r2 == 1:
                    return []
        if mixed:       # guaranteed: a real block strictly before (row-major) a complex block
            ml[0][0] = spec.rnd(rng, (m, n), 'real')
            ml[0][1] = spec.rnd(rng, (m, n), 'complex')
            if r1 > 1:
                ml[1][0] = spec.rnd(rng, (m, n), 'real')
        any_cplx = any(isinstance(x, np.ndarray) and np.iscomplexobj(x) for row in ml for x in row)
        want = np.zeros((r1, m, n, r2), dtype=complex if (any_cplx or flag) else float)
        for i in range(r1):
            for j in range(r2):
                if isinstance(ml[i][j], np.ndarray):
                    want[i, :, :, j] = ml[i][j]
        ok, core = c.guarded('post:value', lambda: ttm.build_core(ml, iscomplex=flag))
        if ok:
            c.close('post:value', core, want)
            c.add('post:kind', np.iscomplexobj(core) == (any_cplx or flag), 'dtype %s' % core.dtype)
    # vector form
    cv = Clauses(PID, 'build_core_vector', case, modfunc=('vt.props.c02', 't3_build_core'))
    vl = [blk() if rng.integers(4) else 0 for _ in range(r1)]
    if not any(isinstance(x, np.ndarray) for x in vl):
        vl[0] = blk()
    if zero_last and r1 > 1:
        vl[-1] = 0
        if not any(isinstance(x, np.ndarray) for x in vl):
            vl[0] = blk()
    if mixed:
        vl[0] = spec.rnd(rng, (m, n), 'real')
        vl[1] = spec.rnd(rng, (m, n), 'complex')
    any_cplx_v = any(isinstance(x, np.ndarray) and np.iscomplexobj(x) for x in vl)
    wantv = np.zeros((r1, m, n, 1), dtype=complex if (any_cplx_v or flag) else float)
    for i in range(r1):
        if isinstance(vl[i], np.ndarray):
            wantv[i, :, :, 0] = vl[i]
    ok, core = cv.guarded('post:value', lambda: ttm.build_core(vl, iscomplex=flag))
    if ok:
        cv.close('post:value', core, wantv)
        cv.add('post:kind', np.iscomplexobj(core) == (any_cplx_v or flag), 'dtype %s' % core.dtype)
    return c.out + cv.out
