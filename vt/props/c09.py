"""C09 - one-step ODE schemes reproduce their defining recurrences."""
import math
import numpy as np
from vt import spec
from vt.t3 import Clauses, rng_for
from vt.props import common

PID = 'C09'
META = common.meta(
    PID,
    functions=['scikit_tt.solvers.ode:%s' % f for f in
               ['explicit_euler', 'errors_expl_euler', 'hod', 'implicit_euler', 'errors_impl_euler', 'trapezoidal_rule',
                'errors_trapezoidal', 'adaptive_step_size']],
    rule='T3: seeded TT operators (Markov generators for normalize=1, real/complex otherwise) of order 1-3, varying '
         'step-size lists, ALS and MALS inner solvers with maximal-rank guesses (representable ranks), micro solver in '
         '{solve, lu}, normalize in {0,1,2}, HOD orders 2-6 with and without previous value; every element of the '
         'returned trajectory is compared with the dense recurrence; non-trivial = state dimension >= 2.')


def tasks(tier, seed):
    out = []
    n = 60 if tier == 'quick' else common.thorough(420)
    for k in range(n):
        out.append(('vt.props.c09', 't3_case', {'seed': seed, 'k': k, 'backend': 'T3', 'd': 1 + k % 3,
                                                'flavour': ['markov', 'real', 'complex'][(k // 3) % 3],
                                                'scheme': ['explicit', 'implicit', 'trapezoidal', 'hod', 'errors'][(k // 9) % 5]}))
    for k in range(n, n + (6 if tier == 'quick' else 30)):
        out.append(('vt.props.c09', 't3_adaptive', {'seed': seed, 'k': k, 'backend': 'T3', 'd': 2 + k % 2, 'sig': 'adaptive'}))
    out += common.extra_tasks(PID, tier, seed)
    return out


def make_operator(rng, d, flavour):
    from scikit_tt.tensor_train import TT
    dims = [2, 3] if d <= 2 else [1, 2, 3]
    rd = [int(rng.choice(dims)) for _ in range(d)]
    if all(x == 1 for x in rd):
        rd[0] = 2
    N = int(np.prod(rd))
    if flavour == 'markov':
        A = np.abs(rng.standard_normal((N, N)))
        np.fill_diagonal(A, 0.0)
        A = A - np.diag(A.sum(axis=0))
        x0 = np.abs(rng.standard_normal(N)) + 0.1
        x0 /= x0.sum()
    else:
        A = spec.rnd(rng, (N, N), flavour)
        x0 = spec.rnd(rng, (N,), flavour)
        x0 /= np.linalg.norm(x0)
    op = TT(A.reshape(rd + rd))
    init = TT(x0.reshape(rd + [1] * d))
    return op, spec.mat(op), init, spec.mat(init)[:, 0], rd, N


def nrm(x, p):
    if p == 1:
        return np.sum(x)
    return np.linalg.norm(x)


def vec(t):
    return spec.mat(t)[:, 0]


def t3_case(case):
    import scikit_tt.solvers.ode as ode
    from scikit_tt.tensor_train import TT
    rng = rng_for(case)
    d, flavour, scheme = case['d'], case['flavour'], case['scheme']
    op, A, init, x0, rd, N = make_operator(rng, d, flavour)
    nsteps = int(rng.integers(2, 5))
    scale_h = 0.3 / max(1.0, float(np.max(np.abs(A))) * N)
    hs = [float(scale_h * rng.uniform(0.3, 1.0)) for _ in range(nsteps)]
    if case['k'] % 2 == 0:
        # a step size that comes back after a different one (a cache keyed on "the step size changed" must notice)
        nsteps = max(nsteps, 3)
        hs = (hs + [hs[-1]])[:nsteps] if len(hs) < nsteps else hs
        hs[2] = hs[0]
        if nsteps >= 4:
            hs[3] = hs[0]
    normalize = int(rng.choice([0, 1] if flavour == 'markov' else [0, 2]))
    mr = spec.max_ranks(rd, [1] * d)
    I = np.eye(N)
    snaps = [spec.Snap(op), spec.Snap(init)]
    nt = N >= 2
    sig = 'd%d/%s/normalize%d' % (d, flavour, normalize)
    obs = []

    def C(func):
        c = Clauses(PID, func, case, modfunc=('vt.props.c09', 't3_case'))
        obs.append(c)
        return c

    def compare(c, sol, dense, tag=''):
        c.add('post:length' + tag, len(sol) == len(dense), '%d vs %d' % (len(sol), len(dense)), sig=sig)
        c.add('post:head-is-initial-value' + tag, sol[0] is init, sig=sig)
        bad = []
        for j in range(min(len(sol), len(dense))):
            w = spec.wf_report(sol[j])
            if w:
                bad.append('state %d not wf: %s' % (j, w[0]))
                continue
            ok, det = spec.close(vec(sol[j]), dense[j], 1e-7)
            if not ok:
                bad.append('state %d: %s' % (j, det))
        c.add('post:trajectory==dense-recurrence' + tag, not bad, '; '.join(bad[:3]), nontrivial=nt, sig=sig)
        if normalize > 0:
            bad = [j for j in range(1, len(sol)) if abs(sol[j].norm(p=normalize) - 1) > 1e-8]
            c.add('post:unit-norm' + tag, not bad, 'states %s' % bad, sig=sig)
        ids = [id(s) for s in sol]
        c.add('post:states-distinct-objects' + tag, len(set(ids)) == len(ids) and not any(spec.shares(sol[a], sol[b]) for a in range(len(sol)) for b in range(a)), sig=sig)

    if scheme == 'explicit':
        c = C('ode.explicit_euler')
        ok, sol = c.guarded('post:trajectory==dense-recurrence', lambda: ode.explicit_euler(op, init, hs, normalize=normalize, progress=False))
        if ok:
            dense = [x0]
            for h in hs:
                y = (I + h * A) @ dense[-1]
                dense.append(y / nrm(y, normalize) if normalize else y)
            compare(c, sol, dense)
        c.frame(snaps, [op, init])
    elif scheme in ('implicit', 'trapezoidal'):
        fn = ode.implicit_euler if scheme == 'implicit' else ode.trapezoidal_rule
        c = C('ode.implicit_euler' if scheme == 'implicit' else 'ode.trapezoidal_rule')
        for tt_solver in (['als', 'mals'] if d >= 2 else ['als']):
            micro = str(rng.choice(['solve', 'lu']))
            guess = spec.rand_tt(rng, rd, [1] * d, mr, 'complex' if flavour == 'complex' else 'real')
            sg = spec.Snap(guess)
            tag = '[%s]' % tt_solver
            ok, sol = c.guarded('post:trajectory==dense-recurrence' + tag,
                                lambda: fn(op, init, guess, hs, repeats=1, tt_solver=tt_solver, threshold=1e-14, max_rank=np.inf,
                                           micro_solver=micro, normalize=normalize, progress=False))
            if ok:
                dense = [x0]
                for h in hs:
                    if scheme == 'implicit':
                        y = np.linalg.solve(I - h * A, dense[-1])
                    else:
                        y = np.linalg.solve(I - 0.5 * h * A, (I + 0.5 * h * A) @ dense[-1])
                    dense.append(y / nrm(y, normalize) if normalize else y)
                compare(c, sol, dense, tag)
            c.frame(snaps + [sg], [op, init, guess], 'frame:operands-unchanged' + tag)
    elif scheme == 'hod':
        c = C('ode.hod')
        normalize_h = 0 if flavour == 'markov' else normalize
        h = hs[0]
        for order in (2, 4, 6):
            # hod builds A^(order-1) in TT format without intermediate truncation: ranks r^(order-1).  Cases whose intermediate cores
            # would not fit in memory are outside the harness (a resource limit of the method, not a clause of the property)
            if max(op.ranks) ** (order - 1) * max(rd) > 8000:
                continue
            for with_prev in (False, True):
                tag = '[order=%d,%s]' % (order, 'previous' if with_prev else 'start-up')
                prev = None
                if with_prev:
                    pv = spec.rnd(rng, (N,), 'complex' if flavour == 'complex' else 'real')
                    pv /= np.linalg.norm(pv)
                    prev = TT(pv.reshape(rd + [1] * d))
                    sp_ = spec.Snap(prev)
                ok, sol = c.guarded('post:trajectory==dense-recurrence' + tag,
                                    lambda: ode.hod(op, init, h, nsteps, order=order, previous_value=prev, threshold=1e-14,
                                                    max_rank=50, normalize=normalize_h, progress=False))
                if ok:
                    op_hod = sum(2.0 / math.factorial(2 * k - 1) * h ** (2 * k - 1) * np.linalg.matrix_power(A, 2 * k - 1) for k in range(1, order // 2 + 1))
                    if with_prev:
                        xp = pv
                    else:
                        op_first = h * A + sum(2.0 / math.factorial(2 * k - 1) * (h / 2) ** (2 * k - 1) * np.linalg.matrix_power(A, 2 * k - 1) for k in range(2, order // 2 + 1))
                        xp = (I - 0.5 * h * A) @ x0
                        xp = x0 - op_first @ xp
                    if normalize_h:
                        xp = xp / nrm(xp, normalize_h)
                    dense = [x0]
                    for j in range(nsteps):
                        prevx = xp if j == 0 else dense[j - 1]
                        y = prevx + op_hod @ dense[j]
                        dense.append(y / nrm(y, normalize_h) if normalize_h else y)
                    sv_norm, normalize_saved = normalize_h, normalize
                    compare_h(c, sol, dense, tag, init, normalize_h, sig, nt)
                if with_prev:
                    c.frame([sp_], [prev], 'frame:previous_value-unchanged', )
        c.frame(snaps, [op, init])
    else:
        # defect formulas on arbitrary (non-solution) trajectories
        traj = [spec.rand_tt(rng, rd, [1] * d, spec.admissible_ranks(rng, rd), 'complex' if flavour == 'complex' else 'real') for _ in range(nsteps + 1)]
        tv = [vec(t) for t in traj]
        tsn = [spec.Snap(t) for t in traj]
        for nm, fn, f in [
            ('ode.errors_expl_euler', ode.errors_expl_euler, lambda j, h: np.linalg.norm(tv[j + 1] - (I + h * A) @ tv[j]) / np.linalg.norm(tv[j])),
            ('ode.errors_impl_euler', ode.errors_impl_euler, lambda j, h: np.linalg.norm((I - h * A) @ tv[j + 1] - tv[j]) / np.linalg.norm(tv[j])),
            ('ode.errors_trapezoidal', ode.errors_trapezoidal, lambda j, h: np.linalg.norm((I - 0.5 * h * A) @ tv[j + 1] - (I + 0.5 * h * A) @ tv[j]) / np.linalg.norm((I + 0.5 * h * A) @ tv[j])),
        ]:
            c = C(nm)
            ok, errs = c.guarded('post:value', lambda: fn(op, traj, hs))
            if ok:
                want = [f(j, hs[j]) for j in range(nsteps)]
                c.add('post:length', len(errs) == nsteps)
                if len(errs) == nsteps:
                    c.close('post:value', np.array(errs, dtype=float), np.array(want), tol=1e-7, nontrivial=nt)
            c.frame(snaps + tsn, [op, init] + traj)
    return [o for c in obs for o in c.out]


def compare_h(c, sol, dense, tag, init, normalize, sig, nt):
    c.add('post:length' + tag, len(sol) == len(dense), '%d vs %d' % (len(sol), len(dense)), sig=sig)
    c.add('post:head-is-initial-value' + tag, sol[0] is init, sig=sig)
    bad = []
    for j in range(min(len(sol), len(dense))):
        w = spec.wf_report(sol[j])
        if w:
            bad.append('state %d not wf: %s' % (j, w[0]))
            continue
        ok, det = spec.close(vec(sol[j]), dense[j], 1e-7)
        if not ok:
            bad.append('state %d: %s' % (j, det))
    c.add('post:trajectory==dense-recurrence' + tag, not bad, '; '.join(bad[:3]), nontrivial=nt, sig=sig)
    if normalize > 0:
        bad = [j for j in range(1, len(sol)) if abs(sol[j].norm(p=normalize) - 1) > 1e-8]
        c.add('post:unit-norm' + tag, not bad, 'states %s' % bad, sig=sig)


def t3_adaptive(case):
    import scikit_tt.solvers.ode as ode
    rng = rng_for(case)
    d = case['d']
    c = Clauses(PID, 'ode.adaptive_step_size', case, modfunc=('vt.props.c09', 't3_adaptive'))
    op, A, init, x0, rd, N = make_operator(rng, d, 'markov')
    mr = spec.max_ranks(rd, [1] * d)
    guess = spec.rand_tt(rng, rd, [1] * d, mr, 'real')
    guess = guess * (1.0 / float(np.sum(spec.mat(guess))))
    snaps = [spec.Snap(op), spec.Snap(init), spec.Snap(guess)]
    t_end = float(rng.uniform(0.05, 0.5))
    method = str(rng.choice(['two_step_Euler', 'trapezoidal_rule']))
    first = float(rng.choice([1e-3, 1e-2, 1.0]))
    etol = float(rng.choice([1e-1, 1e-2]))
    ctol = 0.5
    if case['k'] % 2 == 0:
        # a first step beyond the end time that is accepted (loose tolerances): the recorded time must still be clipped
        t_end = float(rng.uniform(0.005, 0.03)) / max(1.0, float(np.max(np.abs(A))))
        first = float(rng.uniform(1.5, 4.0)) * t_end
        etol, ctol = 1e6, 1e6
    ok, res = c.guarded('post:times-strictly-increasing', lambda: ode.adaptive_step_size(
        op, init, guess, t_end, step_size_first=first, second_method=method, progress=False,
        closeness_min=1e-12, error_tol=etol, closeness_tol=ctol))
    if ok:
        sol, times = res
        c.add('post:len(solution)==len(time_steps)', len(sol) == len(times), '%d %d' % (len(sol), len(times)))
        c.add('post:times-strictly-increasing', all(times[j + 1] > times[j] for j in range(len(times) - 1)), str(times[:8]), nontrivial=len(times) >= 3)
        c.add('post:times<=time_end', all(t <= t_end * (1 + 1e-12) for t in times) and times[0] == 0, 'last %s end %s' % (times[-1], t_end))
        c.add('post:head-is-initial-value', sol[0] is init)
        bad = [j for j, s in enumerate(sol) if spec.wf_report(s)]
        c.add('post:wf(states)', not bad, str(bad))
    c.frame(snaps, [op, init, guess])
    return c.out
