"""C07 - ALS/MALS linear solvers: energy descent, fixed point, exactness at full rank."""
import numpy as np
from vt import spec
from vt.t3 import Clauses, rng_for
from vt.props import common

PID = 'C07'
META = common.meta(
    PID,
    functions=['scikit_tt.solvers.sle:als', 'scikit_tt.solvers.sle:mals'] +
              ['scikit_tt.solvers.sle:__%s' % f for f in
               ['construct_stack_left_op', 'construct_stack_left_rhs', 'construct_stack_right_op', 'construct_stack_right_rhs',
                'construct_micro_matrix_als', 'construct_micro_matrix_mals', 'construct_micro_rhs_als',
                'construct_micro_rhs_mals', 'update_core_als', 'update_core_mals']],
    trusted=['L-descent: Galerkin projection onto range(P) of an HPD system does not increase the energy error '
             '(Holtz, Rohwedder, Schneider 2012)'],
    rule='T3: seeded HPD TT operators (dense HPD decomposed exactly, and B^H B + I in TT form), orders 1-4, dims 1-3, '
         'real/complex, guesses of rank 1 .. maximal, solver in {solve, lu}, repeats 0..3; run-time contracts installed on '
         'the private helpers check micro_op == P^H A P and micro_rhs == P^H b at every call with the explicit frame '
         'matrix P; non-trivial = system dimension >= 2.')


def tasks(tier, seed):
    out = []
    n = 64 if tier == 'quick' else common.thorough(480)
    for k in range(n):
        out.append(('vt.props.c07', 't3_case', {'seed': seed, 'k': k, 'backend': 'T3', 'd': 1 + k % 4,
                                                'kind': ['real', 'complex'][(k // 4) % 2],
                                                'solver': ['solve', 'lu'][(k // 8) % 2],
                                                'method': ['als', 'mals'][(k // 16) % 2]}))
    out += common.extra_tasks(PID, tier, seed)
    return out


def frame_matrix(cores, i, width=1, dims=None):
    """explicit frame matrix P for the cores i..i+width-1 free: columns indexed (r_i, n_i.., r_{i+width})"""
    d = len(cores)
    L = np.ones((1, 1))
    for c in cores[:i]:
        L = np.tensordot(L, c[:, :, 0, :], axes=([L.ndim - 1], [0]))
        L = L.reshape(-1, c.shape[3])
    Rm = np.ones((1, 1))
    for c in reversed(cores[i + width:]):
        Rm = np.tensordot(c[:, :, 0, :], Rm, axes=([2], [0]))
        Rm = Rm.reshape(c.shape[0], -1)
    ns = [dims[j] if dims is not None else cores[j].shape[1] for j in range(i, i + width)]
    nmid = int(np.prod(ns))
    # P[(a, b, c), (r, n, s)] = L[a, r] * delta(b, n) * R[s, c]
    P = np.einsum('ar,bn,sc->abcrns', L, np.eye(nmid), Rm)
    return P.reshape(L.shape[0] * nmid * Rm.shape[1], L.shape[1] * nmid * Rm.shape[0])


class Monitor:
    """run-time contracts on the private helpers of sle (installed into the module namespace for one call)"""

    def __init__(self, sle, A, b, c):
        self.sle, self.A, self.b, self.c = sle, A, b, c
        self.saved = {}
        self.n = {'micro_op': 0, 'micro_rhs': 0}
        self.bad = {'micro_op': [], 'micro_rhs': []}

    def __enter__(self):
        m = self.sle.__dict__
        for name, width, what in [('__construct_micro_matrix_als', 1, 'micro_op'), ('__construct_micro_matrix_mals', 2, 'micro_op'),
                                  ('__construct_micro_rhs_als', 1, 'micro_rhs'), ('__construct_micro_rhs_mals', 2, 'micro_rhs')]:
            self.saved[name] = m[name]
            m[name] = self.wrap(m[name], width, what)
        return self

    def __exit__(self, *a):
        self.sle.__dict__.update(self.saved)

    def wrap(self, fn, width, what):
        def w(i, s1, s2, obj, solution):
            res = fn(i, s1, s2, obj, solution)
            try:
                P = frame_matrix(solution.cores, i, width, dims=obj.row_dims)
                want = P.conj().T @ self.A @ P if what == 'micro_op' else P.conj().T @ self.b.reshape(-1, 1)
                ok, det = spec.close(res, want, 1e-8)
                self.n[what] += 1
                if not ok:
                    self.bad[what].append('core %d: %s' % (i, det))
            except Exception as e:  # noqa  (dirty window: shapes transiently inconsistent)
                self.bad[what].append('core %d: cannot evaluate contract: %r' % (i, e))
            return res
        return w

    def report(self, tag):
        for what, nm in [('micro_op', 'post:micro_op==P^H.A.P'), ('micro_rhs', 'post:micro_rhs==P^H.b')]:
            self.c.add('%s[%s]' % (nm, tag), not self.bad[what], '; '.join(self.bad[what][:3]), nontrivial=self.n[what] > 0)


def make_problem(rng, d, kind, variant):
    from scikit_tt.tensor_train import TT
    import scikit_tt.tensor_train as ttm
    dims = [1, 2, 3] if d <= 3 else [1, 2]
    rd = [int(rng.choice(dims)) for _ in range(d)]
    if all(x == 1 for x in rd):
        rd[int(rng.integers(d))] = 2
    N = int(np.prod(rd))
    if variant == 0:
        A = spec.hpd_dense(rng, N, kind, cond=float(rng.choice([5, 50, 500])))
        op = TT(A.reshape(rd + rd))
    else:
        B = spec.rand_tt(rng, rd, rd, [1] + [int(rng.integers(1, 3)) for _ in range(d - 1)] + [1], kind)
        op = B.transpose(conjugate=True) @ B + ttm.eye(rd)
    A = spec.mat(op)
    xs = spec.rnd(rng, (N,), kind)
    rk_b = [1] + [int(rng.integers(1, 3)) for _ in range(d - 1)] + [1]
    rhs = spec.rand_tt(rng, rd, [1] * d, rk_b, kind)
    return op, rhs, rd, A, N


def t3_case(case):
    import scikit_tt.solvers.sle as sle
    from scikit_tt.tensor_train import TT
    rng = rng_for(case)
    d, kind, solver, method = case['d'], case['kind'], case['solver'], case['method']
    if method == 'mals' and d < 2:
        d = 2 + int(rng.integers(3))
    name = 'sle.' + method
    c = Clauses(PID, name, case, modfunc=('vt.props.c07', 't3_case'))
    op, rhs, rd, A, N = make_problem(rng, d, kind, int(rng.integers(2)))
    b = spec.mat(rhs)[:, 0]
    xstar = np.linalg.solve(A, b)
    mr = spec.max_ranks(rd, [1] * d)
    nt = N >= 2

    def err_A(t):
        e = spec.mat(t)[:, 0] - xstar
        return float(np.sqrt(abs(np.vdot(e, A @ e))))
    scale = float(np.sqrt(abs(np.vdot(xstar, A @ xstar)))) + 1e-300

    def run(guess, repeats, **kw):
        if method == 'als':
            return sle.als(op, guess, rhs, repeats=repeats, solver=solver)
        return sle.mals(op, guess, rhs, repeats=repeats, solver=solver, **kw)

    # generic guess of sub-maximal ranks -------------------------------------------------------------------------------
    rk = spec.admissible_ranks(rng, rd)
    guess = spec.rand_tt(rng, rd, [1] * d, rk, kind)
    snaps = [spec.Snap(op), spec.Snap(guess), spec.Snap(rhs)]
    errs = [err_A(guess)]
    res = None
    kw = {} if method == 'als' else {'threshold': 0.0 if rng.integers(2) else 1e-14, 'max_rank': np.inf}
    for rep in (1, 2, 3):
        with Monitor(sle, A, b, c) as mon:
            ok, res = c.guarded('post:descent', lambda: run(guess, rep, **kw))
        if not ok:
            break
        if rep == 1:
            mon.report('generic-guess')
        errs.append(err_A(res))
    if res is not None and len(errs) == 4:
        c.wf(res)
        c.add('post:dims==dims(rhs)', list(res.row_dims) == list(rhs.row_dims) and list(res.col_dims) == list(rhs.col_dims))
        bad = [(j, errs[j], errs[j + 1]) for j in range(3) if errs[j + 1] > errs[j] * (1 + 1e-7) + 1e-9 * scale]
        c.add('post:descent', not bad, 'energy errors guess,1,2,3 sweeps: %s' % ['%.6g' % e for e in errs], nontrivial=nt)
        if method == 'als':
            c.add('post:ranks<=guess-ranks', all(x <= y for x, y in zip(res.ranks, guess.ranks)), '%s vs %s' % (res.ranks, guess.ranks))
        c.fresh(res, [guess, rhs, op])
    c.frame(snaps, [op, guess, rhs])

    # exact solution as guess -> fixed point ------------------------------------------------------------------------------
    ex = TT(xstar.reshape(rd + [1] * d))
    sx = spec.Snap(ex)
    ok, res = c.guarded('post:fixed-point', lambda: run(ex, 1, **kw))
    if ok:
        c.add('post:fixed-point', err_A(res) <= 1e-7 * scale, 'energy error %.3g (scale %.3g)' % (err_A(res), scale), nontrivial=nt)
    c.frame([sx], [ex], 'frame:guess-unchanged[fixed-point]')

    # maximal-rank guess -> exact after one sweep ----------------------------------------------------------------------
    g2 = spec.rand_tt(rng, rd, [1] * d, mr, kind)
    with Monitor(sle, A, b, c) as mon:
        ok, res = c.guarded('post:exact-at-maximal-rank', lambda: run(g2, 1, **kw))
    if ok:
        mon.report('maximal-guess')
        c.add('post:exact-at-maximal-rank', err_A(res) <= 1e-7 * scale, 'energy error %.3g (scale %.3g)' % (err_A(res), scale), nontrivial=nt)

    # over-parameterised guess (a bond rank above the maximal one): frames are rank deficient ---------------------------
    if d >= 2 and case['k'] % 4 == 0:
        j = 1 + int(rng.integers(d - 1))
        rk_o = list(mr)
        rk_o[j] = mr[j] + 1
        g4 = spec.rand_tt(rng, rd, [1] * d, rk_o, kind)
        e0 = err_A(g4)
        # the frames of an over-parameterised guess are rank deficient, so the micro matrices are singular.  LAPACK usually copes
        # (tiny pivots; the null-space component of the micro solution is annihilated by the frame).  An exactly zero pivot
        # makes `solve` raise and `lu` produce non-finite numbers: the solver then does not return an iterate at all - a
        # separate obligation, so that the descent clause keeps its meaning for every iterate that is returned.
        sig_s = '%s/over-parameterised-guess/singular-micro-system' % method
        out = spec.isolated(lambda: run(g4, 1, **kw))        # (a singular system can also take the interpreter down inside LAPACK)
        r4, e1 = None, None
        if out[0] == 'ok':
            r4 = out[1]
            e1 = err_A(r4)
            if not np.isfinite(e1):
                c.add('post:returns-an-iterate[over-parameterised-guess]', False, 'guess ranks %s (maximal %s), row_dims %s: non-finite iterate' % (rk_o, mr, rd), sig=sig_s)
                r4 = None
        elif out == ('crash', 'timeout'):
            pass        # the isolated run did not finish (loaded machine): no verdict for this sub-case
        else:
            c.add('post:returns-an-iterate[over-parameterised-guess]', False, 'guess ranks %s (maximal %s), row_dims %s: %s' % (rk_o, mr, rd, ' '.join(map(str, out))), sig=sig_s)
        if r4 is not None:
            c.add('post:returns-an-iterate[over-parameterised-guess]', True, sig=sig_s)
            c.add('post:descent[over-parameterised-guess]', e1 <= e0 * (1 + 1e-7) + 1e-9 * scale,
                  'energy errors %.6g -> %.6g' % (e0, e1), sig='%s/over-parameterised-guess' % method)

    # MALS rank cap ------------------------------------------------------------------------------------------------------
    if method == 'mals':
        cap = int(rng.integers(1, 4))
        g3 = spec.rand_tt(rng, rd, [1] * d, [1] + [min(cap, mr[j]) for j in range(1, d)] + [1], kind)
        e0 = err_A(g3)
        ok0, r0 = c.guarded('post:ranks<=max_rank[threshold=0]', lambda: run(g3, 1, threshold=0, max_rank=cap))
        if ok0:
            c.add('post:ranks<=max_rank[threshold=0]', all(x <= cap for x in r0.ranks[1:-1]), '%s cap %d' % (r0.ranks, cap))
        ok, r1 = c.guarded('post:ranks<=max_rank', lambda: run(g3, 1, threshold=1e-12, max_rank=cap))
        if ok:
            c.wf(r1, 'post:wf(result)[max_rank]')
            c.add('post:ranks<=max_rank', all(x <= cap for x in r1.ranks[1:-1]), '%s cap %d' % (r1.ranks, cap))
            active = any(cap < mr[j] for j in range(1, d))
            ok2, r2 = c.guarded('post:descent[active-max_rank]', lambda: run(g3, 2, threshold=1e-12, max_rank=cap))
            if ok2:
                e1, e2 = err_A(r1), err_A(r2)
                okd = e1 <= e0 * (1 + 1e-7) + 1e-9 * scale and e2 <= e1 * (1 + 1e-7) + 1e-9 * scale
                c.add('post:descent[active-max_rank]' if active else 'post:descent[inactive-max_rank]', okd,
                      'energy errors %.6g %.6g %.6g cap %d maximal %s' % (e0, e1, e2, cap, mr),
                      sig='mals/truncation-active' if active else None)
    return c.out
