"""C12 - Markov operators built from reactions or transitions equal their definition."""
import numpy as np
from vt import spec
from vt.t3 import Clauses, rng_for
from vt.props import common

PID = 'C12'
META = common.meta(
    PID,
    functions=['scikit_tt.slim:slim_mme', 'scikit_tt.slim:slim_mme_hom', 'scikit_tt.slim:__slim_tcr_decomposition',
               'scikit_tt.data_driven.ulam:ulam_2d', 'scikit_tt.data_driven.ulam:ulam_3d'],
    rule='T3: seeded nearest-neighbour reaction systems: chains of 2-5 cells with sizes 2-4 (equal and different), 0-3 '
         'reactions per cell/bond over all reactant/product pairs, positive rates, open and cyclic (so unequal bond ranks '
         'occur); homogeneous shortcut; Ulam: seeded integer transition tables on 2-d/3-d grids; oracle = state '
         'enumeration of the master-equation generator / direct histogram; non-trivial = at least one two-cell reaction.')


def tasks(tier, seed):
    out = []
    n = 96 if tier == 'quick' else common.thorough(800)
    for k in range(n):
        out.append(('vt.props.c12', 't3_slim', {'seed': seed, 'k': k, 'backend': 'T3', 'd': 2 + k % 4, 'cyclic': (k // 4) % 2 == 1,
                                                'hom': (k // 8) % 3 == 2}))
    for k in range(n, n + (24 if tier == 'quick' else 200)):
        out.append(('vt.props.c12', 't3_ulam', {'seed': seed, 'k': k, 'backend': 'T3', 'dim': 2 + k % 2, 'sig': 'ulam%dd' % (2 + k % 2)}))
    out += common.extra_tasks(PID, tier, seed)
    return out


def embed(ops, sizes):
    """kron of per-cell matrices (identity where None)"""
    M = np.ones((1, 1))
    for i, n in enumerate(sizes):
        M = np.kron(M, ops.get(i, np.eye(n)))
    return M


def E(n, a, b):
    m = np.zeros((n, n))
    m[a, b] = 1.0
    return m


def dense_generator(sizes, scr, tcr):
    """master-equation generator by summing the elementary reaction terms (column = source state)"""
    d = len(sizes)
    N = int(np.prod(sizes))
    A = np.zeros((N, N))
    for i in range(d):
        for (r, p, rate) in scr[i]:
            A += rate * (embed({i: E(sizes[i], p, r)}, sizes) - embed({i: E(sizes[i], r, r)}, sizes))
    for b in range(len(tcr)):
        i, j = (b, b + 1) if b < d - 1 else (d - 1, 0)
        for (r1, p1, r2, p2, rate) in tcr[b]:
            A += rate * (embed({i: E(sizes[i], p1, r1), j: E(sizes[j], p2, r2)}, sizes) -
                         embed({i: E(sizes[i], r1, r1), j: E(sizes[j], r2, r2)}, sizes))
    return A


def t3_slim(case):
    import scikit_tt.slim as slim
    rng = rng_for(case)
    d, cyclic, hom = case['d'], case['cyclic'], case['hom']
    func = 'slim.slim_mme_hom' if hom else 'slim.slim_mme'
    c = Clauses(PID, func, case, modfunc=('vt.props.c12', 't3_slim'))

    def scr_for(n):
        out = []
        for _ in range(int(rng.integers(0, 3))):
            r = int(rng.integers(n))
            p = int(rng.integers(n))
            out.append([r, p, float(rng.uniform(0.2, 3.0))])
        return out

    def tcr_for(n1, n2, lo=0):
        out = []
        for _ in range(int(rng.integers(lo, 4))):
            out.append([int(rng.integers(n1)), int(rng.integers(n1)), int(rng.integers(n2)), int(rng.integers(n2)), float(rng.uniform(0.2, 3.0))])
        return out
    if hom:
        n = int(rng.integers(2, 4))
        sizes = [n] * d
        s1, t1 = scr_for(n), tcr_for(n, n, lo=1)
        scr = [s1] * d
        tcr = [t1] * (d if cyclic else d - 1)
        call = lambda: slim.slim_mme_hom(list(sizes), s1, t1, cyclic=cyclic)  # noqa
    else:
        sizes = [int(rng.integers(2, 5 if d <= 3 else 4)) for _ in range(d)]
        scr = [scr_for(sizes[i]) for i in range(d)]
        tcr = [tcr_for(sizes[i], sizes[i + 1], lo=1) for i in range(d - 1)]
        if cyclic:
            tcr.append(tcr_for(sizes[-1], sizes[0], lo=1))
        call = lambda: slim.slim_mme(list(sizes), scr, tcr)  # noqa
    sig = 'd%d/%s/%s/%s' % (d, 'cyclic' if cyclic else 'open', 'hom' if hom else 'inhom', 'equal-sizes' if len(set(sizes)) == 1 else 'different-sizes')
    want = dense_generator(sizes, scr, tcr)
    ok, op = c.guarded('post:value', call)
    if ok:
        c.wf(op, sig=sig) if False else c.wf(op)
        if spec.wf(op):
            c.add('post:dims', list(op.row_dims) == sizes and list(op.col_dims) == sizes, sig=sig)
            M = spec.mat(op)
            c.close('post:value', M, want, tol=1e-9, nontrivial=any(len(t) for t in tcr), sig=sig)
            c.add('post:column-sums-vanish', float(np.max(np.abs(M.sum(axis=0)))) <= 1e-9 * max(1.0, float(np.max(np.abs(M)))), 'max |column sum| %.3g' % np.max(np.abs(M.sum(axis=0))), sig=sig)
            off = M - np.diag(np.diag(M))
            c.add('post:off-diagonals-nonnegative', float(off.min()) >= -1e-9, 'min %.3g' % off.min(), sig=sig)
    return c.out


def t3_ulam(case):
    import scikit_tt.data_driven.ulam as ulam
    rng = rng_for(case)
    dim = case['dim']
    c = Clauses(PID, 'ulam.ulam_%dd' % dim, case, modfunc=('vt.props.c12', 't3_ulam'))
    states = [int(rng.integers(1, 5)) for _ in range(dim)]
    sims = int(rng.integers(1, 6))
    # every box fully sampled: `sims` transitions per source box, plus (sometimes) a box left unsampled
    boxes = [tuple(ix) for ix in np.ndindex(*states)]
    skip = boxes[int(rng.integers(len(boxes)))] if rng.integers(3) == 0 and len(boxes) > 1 else None
    cols = []
    for b in boxes:
        if b == skip:
            continue
        for _ in range(sims):
            tgt = [int(rng.integers(n)) for n in states]
            cols.append([x + 1 for x in b] + [y + 1 for y in tgt])
    order = rng.permutation(len(cols))
    tr = np.array([cols[i] for i in order], dtype=int).T
    tr0 = tr.copy()
    N = int(np.prod(states))
    want = np.zeros((N, N))
    for col in tr.T:
        src = np.ravel_multi_index(tuple(col[:dim] - 1), states)
        dst = np.ravel_multi_index(tuple(col[dim:] - 1), states)
        want[dst, src] += 1.0 / sims
    fn = ulam.ulam_2d if dim == 2 else ulam.ulam_3d
    ok, op = c.guarded('post:value', lambda: fn(tr, list(states), sims))
    if ok:
        c.wf(op)
        if spec.wf(op):
            M = spec.mat(op).reshape(N, N)
            c.close('post:value', M, want, tol=1e-12, nontrivial=N >= 2)
            full = [np.ravel_multi_index(b, states) for b in boxes if b != skip]
            c.add('post:columns-of-sampled-boxes-sum-to-one', np.allclose(M[:, full].sum(axis=0), 1.0, atol=1e-12))
        c.add('frame:transitions-unchanged', np.array_equal(tr, tr0))
    return c.out
