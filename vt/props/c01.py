"""C01 - TT arithmetic equals dense linear algebra."""
import itertools
import numpy as np
from vt import spec
from vt.t3 import Clauses, rng_for
from vt.props import common

PID = 'C01'
META = common.meta(
    PID,
    functions=['scikit_tt.tensor_train:TT.%s' % f for f in
               ['__init__', 'full', 'matricize', 'element', '__add__', '__sub__', '__mul__', '__rmul__', '__matmul__',
                'dot', 'transpose', 'conj', 'copy', 'isoperator', 'norm']] +
              ['scikit_tt.tensor_train:%s' % f for f in ['zeros', 'ones', 'eye', 'unit', 'uniform', 'residual_error']],
    rule='T3: enumerated+seeded family of (order, row dims, col dims, ranks, kind) with real/complex/mixed cores (complex data in even cores, only in cores k>=1 of the left, only in cores k>=1 of the right operand); '
         'a case is non-trivial if the dense tensor has at least 2 entries or the order is 1 (edge case); '
         'distinct = distinct (obligation, case) pairs.')

OPS = ['full', 'matricize', 'element', 'add', 'sub', 'mul', 'matmul', 'transpose', 'conj', 'copy', 'norm2', 'norm1',
       'residual', 'constructors']


def tasks(tier, seed):
    rng = np.random.default_rng(seed)
    out = []
    if tier == 'quick':
        fam = spec.shape_family([1, 2, 3], [1, 2, 3], [1, 2, 3], operator=True, limit=60, rng=rng)
        fam += spec.shape_family([4], [1, 2], [1, 2, 3], operator=True, limit=8, rng=rng)
        kinds = ['real', 'complex', 'mixed', 'mixed1', 'rmixed']
    else:
        fam = spec.shape_family([1, 2, 3], [1, 2, 3], [1, 2, 3], operator=True, limit=400, rng=rng)
        fam += spec.shape_family([4, 5], [1, 2, 3], [1, 2, 3, 4], operator=True, limit=80, rng=rng)
        kinds = ['real', 'complex', 'mixed', 'mixed1', 'rmixed']
    # always include the degenerate corners
    fam = [([1], [1], [1, 1]), ([2], [1], [1, 1]), ([2], [3], [1, 1]), ([1, 1], [1, 1], [1, 2, 1]),
           ([2, 1], [1, 2], [1, 1, 1]), ([2, 2, 2], [1, 1, 1], [1, 2, 2, 1])] + fam
    k = 0
    for (rd, cd, rk) in fam:
        for kind in kinds:
            k += 1
            out.append(('vt.props.c01', 't3_case', {'rd': rd, 'cd': cd, 'rk': rk, 'kind': kind, 'seed': seed, 'k': k,
                                                     'backend': 'T3'}))
    out += common.extra_tasks(PID, tier, seed)
    return out


def _second(rng, rd, cd, rk, kind):
    """a second operand with the same dims and independent admissible ranks"""
    d = len(rd)
    rk2 = [1] + [int(rng.integers(1, 4)) for _ in range(d - 1)] + [1]
    k2 = {'real': 'real', 'complex': 'complex', 'mixed': 'real', 'mixed1': 'real', 'rmixed': 'mixed1'}[kind]
    return spec.rand_tt(rng, rd, cd, rk2, k2)


def t3_case(case):
    import scikit_tt.tensor_train as ttm
    from scikit_tt.tensor_train import TT
    rng = rng_for(case)
    rd, cd, rk, kind = case['rd'], case['cd'], case['rk'], case['kind']
    d = len(rd)
    obs = []
    mf = ('vt.props.c01', 't3_case')

    def C(func):
        c = Clauses(PID, func, case, modfunc=mf)
        obs.append(c)
        return c

    # mixed1: complex data only in cores k >= 1 of the left operand; rmixed: only in cores k >= 1 of the right operand
    a = spec.rand_tt(rng, rd, cd, rk, 'real' if kind == 'rmixed' else kind)
    b = _second(rng, rd, cd, rk, kind)
    A, B = spec.den(a), spec.den(b)
    nontriv = A.size >= 2 or d == 1
    sa, sb = spec.Snap(a), spec.Snap(b)

    # --- full / matricize / element -------------------------------------------------------------------------------
    c = C('TT.full')
    ok, r = c.guarded('post:value', a.full)
    if ok:
        c.close('post:value', r, A, nontrivial=nontriv)
    c = C('TT.matricize')
    ok, r = c.guarded('post:value', a.matricize)
    if ok:
        M = spec.mat(a)
        want = M.reshape(M.shape[0]) if M.shape[1] == 1 else M
        c.close('post:value', r, want, nontrivial=nontriv)
    c = C('TT.element')
    idxs = list(itertools.product(*[range(n) for n in list(rd) + list(cd)]))
    if len(idxs) > 40:
        sel = rng.choice(len(idxs), 40, replace=False)
        idxs = [idxs[i] for i in sel]
    bad = []
    for ix in idxs:
        try:
            v = a.element([int(i) for i in ix])
            if abs(v - A[ix]) > 1e-9 * max(1.0, abs(A[ix])):
                bad.append('%s: %s vs %s' % (ix, v, A[ix]))
        except Exception as e:  # noqa
            bad.append('%s: exception %r' % (ix, e))
    c.add('post:value', not bad, '; '.join(bad[:3]), nontrivial=nontriv)
    c.raises('raises:IndexError', IndexError, lambda: a.element([int(n) for n in list(rd) + list(cd)]))

    # --- sum / difference / scalar multiple -------------------------------------------------------------------------
    c = C('TT.__add__')
    ok, r = c.guarded('post:value', lambda: a + b)
    if ok:
        c.wf(r)
        if spec.wf(r):
            c.close('post:value', spec.den(r), A + B, nontrivial=nontriv)
            want = [1] + [a.ranks[i] + b.ranks[i] for i in range(1, d)] + [1]
            c.add('post:ranks', list(r.ranks) == want, '%s vs %s' % (r.ranks, want))
            c.fresh(r, [a, b])
    c.frame([sa, sb], [a, b])
    c = C('TT.__sub__')
    ok, r = c.guarded('post:value', lambda: a - b)
    if ok:
        c.wf(r)
        if spec.wf(r):
            c.close('post:value', spec.den(r), A - B, nontrivial=nontriv)
            c.fresh(r, [a, b])
    c.frame([sa, sb], [a, b])
    c = C('TT.__mul__')
    for nm, s in [('int', 3), ('float', float(rng.standard_normal())), ('complex', complex(rng.standard_normal(), rng.standard_normal()))]:
        ok, r = c.guarded('post:value[%s]' % nm, lambda: a * s)
        if ok:
            c.close('post:value[%s]' % nm, spec.den(r), s * A, nontrivial=nontriv)
            c.fresh(r, [a], 'post:result-buffers-fresh[%s]' % nm)
        ok, r = c.guarded('post:rvalue[%s]' % nm, lambda: s * a)
        if ok:
            c.close('post:rvalue[%s]' % nm, spec.den(r), s * A, nontrivial=nontriv)
    c.raises('raises:TypeError', TypeError, lambda: a * 'x')
    c.frame([sa], [a])

    # --- operator product -------------------------------------------------------------------------------------------
    c = C('TT.__matmul__')
    pd = [int(rng.integers(1, 4)) for _ in range(d)]
    k2 = 'complex' if kind != 'real' and rng.integers(2) else 'real'
    rk2 = [1] + [int(rng.integers(1, 4)) for _ in range(d - 1)] + [1]
    e = spec.rand_tt(rng, cd, pd, rk2, k2)
    se = spec.Snap(e)
    ok, r = c.guarded('post:value', lambda: a @ e)
    if ok:
        want = spec.mat(a) @ spec.mat(e)
        if all(x == 1 for x in rd) and all(x == 1 for x in pd):
            c.add('post:scalar-when-all-dims-1', not isinstance(r, TT), 'type %s' % type(r))
            if not isinstance(r, TT):
                c.close('post:value', np.asarray(r).reshape(1, 1), want, nontrivial=nontriv)
        else:
            c.add('post:returns-TT', isinstance(r, TT), 'type %s' % type(r))
            if isinstance(r, TT):
                c.wf(r)
                if spec.wf(r):
                    c.close('post:value', spec.mat(r), want, nontrivial=nontriv)
                    c.add('post:dims', list(r.row_dims) == list(rd) and list(r.col_dims) == list(pd) and
                          list(r.ranks) == [x * y for x, y in zip(a.ranks, e.ranks)], '%s %s %s' % (r.row_dims, r.col_dims, r.ranks))
                    c.fresh(r, [a, e])
        ok2, r2 = c.guarded('post:dot-alias', lambda: a.dot(e))
        if ok2 and isinstance(r2, TT) and isinstance(r, TT):
            c.close('post:dot-alias', spec.mat(r2), spec.mat(r))
    c.frame([sa, se], [a, e])
    if list(cd) != [x + 1 for x in cd]:
        bad_op = spec.rand_tt(rng, [x + 1 for x in cd], pd, rk2, 'real')
        c.raises('raises:ValueError', ValueError, lambda: a @ bad_op)

    # --- transpose / conj / copy --------------------------------------------------------------------------------------
    c = C('TT.transpose')
    perm_all = list(range(d, 2 * d)) + list(range(d))
    ok, r = c.guarded('post:value', lambda: a.transpose())
    if ok:
        c.wf(r)
        c.close('post:value', spec.den(r), np.transpose(A, perm_all), nontrivial=nontriv)
        c.fresh(r, [a])
    ok, r = c.guarded('post:value[conjugate]', lambda: a.transpose(conjugate=True))
    if ok:
        c.close('post:value[conjugate]', spec.den(r), np.conj(np.transpose(A, perm_all)), nontrivial=nontriv)
    sub = [i for i in range(d) if rng.integers(2)]
    ok, r = c.guarded('post:value[subset]', lambda: a.transpose(cores=sub))
    if ok:
        perm = list(range(2 * d))
        for i in sub:
            perm[i], perm[d + i] = d + i, i
        c.wf(r, 'post:wf(result)[subset]')
        if spec.wf(r):
            c.close('post:value[subset]', spec.den(r), np.transpose(A, perm), nontrivial=nontriv)
    c.frame([sa], [a])
    a2 = a.copy()
    ok, r = c.guarded('post:value[overwrite]', lambda: a2.transpose(overwrite=True))
    if ok:
        c.add('post:overwrite-returns-self', r is a2)
        c.wf(a2, 'post:wf(self)[overwrite]')
        c.close('post:value[overwrite]', spec.den(a2), np.transpose(A, perm_all))

    c = C('TT.conj')
    ok, r = c.guarded('post:value', a.conj)
    if ok:
        c.wf(r)
        c.close('post:value', spec.den(r), np.conj(A), nontrivial=nontriv)
        c.fresh(r, [a])
    c.frame([sa], [a])
    c = C('TT.copy')
    ok, r = c.guarded('post:value', a.copy)
    if ok:
        c.wf(r)
        c.close('post:value', spec.den(r), A, tol=0.0 + 1e-300, nontrivial=nontriv)
        c.fresh(r, [a])
        c.add('post:metadata', list(r.row_dims) == list(a.row_dims) and list(r.col_dims) == list(a.col_dims) and list(r.ranks) == list(a.ranks))
    c.frame([sa], [a])
    c = C('TT.isoperator')
    want = not (all(x == 1 for x in rd) or all(x == 1 for x in cd))
    c.add('post:value', a.isoperator() == want)

    # --- norms ------------------------------------------------------------------------------------------------------
    c = C('TT.norm')
    ok, r = c.guarded('post:value[p=2]', lambda: a.norm(p=2))
    if ok:
        c.close('post:value[p=2]', r, np.linalg.norm(A.ravel()), nontrivial=nontriv)
    c.frame([sa], [a], 'frame:operands-unchanged[p=2]')
    # p=1 precondition from the docstring: non-negative entries
    pos = TT([np.abs(np.real(x)) for x in spec.rand_cores(rng, rd, cd, rk, 'real')])
    sp = spec.Snap(pos)
    ok, r = c.guarded('post:value[p=1]', lambda: pos.norm(p=1))
    if ok:
        M = spec.mat(pos)
        # vectors (all row dims 1 or all col dims 1): Manhattan norm = sum of entries; operators: max column sum
        if all(x == 1 for x in cd) or all(x == 1 for x in rd):
            want = np.sum(np.abs(M))
        else:
            want = np.max(np.sum(np.abs(M), axis=0))
        c.close('post:value[p=1]', r, want, nontrivial=nontriv)
    c.frame([sp], [pos], 'frame:operands-unchanged[p=1]')
    c.raises('raises:ValueError', ValueError, lambda: a.norm(p=3))

    # --- residual error -----------------------------------------------------------------------------------------------
    c = C('residual_error')
    if d >= 1:      # order 1 included: residual_error used to end in UnboundLocalError there (fixed in /repo)
        op = spec.rand_tt(rng, rd, rd, [1] + [int(rng.integers(1, 3)) for _ in range(d - 1)] + [1], 'complex' if kind != 'real' else 'real')
        x = spec.rand_tt(rng, rd, [1] * d, [1] + [int(rng.integers(1, 3)) for _ in range(d - 1)] + [1], 'real')
        y = spec.rand_tt(rng, rd, [1] * d, [1] + [int(rng.integers(1, 3)) for _ in range(d - 1)] + [1], 'complex' if kind == 'complex' else 'real')
        snaps = [spec.Snap(op), spec.Snap(x), spec.Snap(y)]
        ok, r = c.guarded('post:value', lambda: ttm.residual_error(op, x, y))
        if ok:
            want = np.linalg.norm(spec.mat(op) @ spec.mat(x)[:, 0] - spec.mat(y)[:, 0])
            c.close('post:value', r, want, tol=1e-8)
        c.frame(snaps, [op, x, y])

    # --- constructors -------------------------------------------------------------------------------------------------
    c = C('zeros')
    ok, r = c.guarded('post:value', lambda: ttm.zeros(rd, cd, rk))
    if ok:
        c.wf(r)
        c.close('post:value', spec.den(r), np.zeros(list(rd) + list(cd)))
        c.add('post:metadata', list(r.row_dims) == list(rd) and list(r.col_dims) == list(cd) and list(r.ranks) == list(rk))
    c = C('ones')
    ok, r = c.guarded('post:value', lambda: ttm.ones(rd, cd, rk))
    if ok:
        c.wf(r)
        c.close('post:value', spec.den(r), float(np.prod(rk)) * np.ones(list(rd) + list(cd)))
    ok, r = c.guarded('post:value[default-ranks]', lambda: ttm.ones(rd, cd))
    if ok:
        c.close('post:value[default-ranks]', spec.den(r), np.ones(list(rd) + list(cd)))
    c = C('eye')
    ok, r = c.guarded('post:value', lambda: ttm.eye(rd))
    if ok:
        c.wf(r)
        c.close('post:value', spec.mat(r), np.eye(int(np.prod(rd))))
    c = C('unit')
    inds = [int(rng.integers(0, n)) for n in rd]
    ok, r = c.guarded('post:value', lambda: ttm.unit(rd, inds))
    if ok:
        c.wf(r)
        want = np.zeros(list(rd) + [1] * d)
        want[tuple(inds) + (0,) * d] = 1
        c.close('post:value', spec.den(r), want)
    c = C('uniform')
    nrm = float(abs(rng.standard_normal()) + 0.5)
    ok, r = c.guarded('post:value', lambda: ttm.uniform(rd, ranks=rk, norm=nrm))
    if ok:
        c.wf(r)
        U = spec.den(r)
        c.add('post:entries-equal', np.allclose(U, U.flat[0], rtol=1e-10, atol=1e-12))
        c.close('post:two-norm', np.linalg.norm(U.ravel()), nrm)

    return [o for c in obs for o in c.out]
