"""C19 - generator EDMD: product-rule evaluation and reduced matrix match the dense ones."""
import itertools
import numpy as np
from vt import spec
from vt.t3 import Clauses, rng_for
from vt.props import common

PID = 'C19'
META = common.meta(
    PID,
    functions=['scikit_tt.data_driven.tgedmd:%s' % f for f in
               ['amuset_hosvd', 'generator_on_product', 'generator_on_product_reversible', '_reduced_matrix_tgedmd',
                '_contraction_step_LPsi_u', '_contraction_step_dPsi_u', '_frob_inner', '_generator']],
    trusted=['numerical differentiation of the product function (complex step for gradients, central differences of '
             'complex-step gradients for Hessians) as the independent product-rule oracle'],
    rule='T3: seeded state dimension 1-3, diffusion d x e with e in 1..d+1 (non-square), 5-10 snapshots, product bases '
         'with 2-3 modes of 2-3 functions (monomial, sine, cosine, Gauss), every index tuple, reweighting on/off, '
         'reversible or not, all return options; oracle = generator applied to the product by numerical differentiation; '
         'dense projected generator from the dense transformed data matrix; non-trivial = every case.')


def tasks(tier, seed):
    out = []
    n = 40 if tier == 'quick' else common.thorough(280)
    for k in range(n):
        out.append(('vt.props.c19', 't3_case', {'seed': seed, 'k': k, 'backend': 'T3', 'reversible': k % 2 == 1,
                                                'reweight': (k // 2) % 2 == 1, 'sig': 'rev' if k % 2 else 'nonrev'}))
    out += common.extra_tasks(PID, tier, seed)
    return out


def rand_basis(rng, d, p):
    import scikit_tt.data_driven.transform as tr
    basis = []
    for _ in range(p):
        fs = []
        for _ in range(int(rng.integers(2, 4))):
            i = int(rng.integers(d))
            fam = int(rng.integers(4))
            if fam == 0:
                fs.append(tr.Monomial(i, int(rng.integers(0, 4))))
            elif fam == 1:
                fs.append(tr.Sin(i, float(rng.uniform(0.5, 2))))
            elif fam == 2:
                fs.append(tr.Cos(i, float(rng.uniform(0.5, 2))))
            else:
                fs.append(tr.GaussFunction(i, float(rng.standard_normal()), float(rng.uniform(0.5, 2))))
        basis.append(fs)
    return basis


def prod_fun(basis, s):
    def g(x):
        v = 1.0
        for j, fs in enumerate(basis):
            v = v * fs[s[j]](x)
        return v
    return g


def num_grad(g, x):
    h = 1e-30
    out = np.zeros(len(x))
    for i in range(len(x)):
        xc = x.astype(complex)
        xc[i] += 1j * h
        out[i] = np.imag(g(xc)) / h
    return out


def num_hess(g, x):
    dlt = 1e-5
    d = len(x)
    H = np.zeros((d, d))
    for j in range(d):
        e = np.zeros(d)
        e[j] = dlt
        H[:, j] = (num_grad(g, x + e) - num_grad(g, x - e)) / (2 * dlt)
    return 0.5 * (H + H.T)


def t3_case(case):
    import scikit_tt.data_driven.tgedmd as tg
    rng = rng_for(case)
    rev, rew = case['reversible'], case['reweight']
    obs = []
    mf = ('vt.props.c19', 't3_case')

    def C(func):
        c = Clauses(PID, func, case, modfunc=mf)
        obs.append(c)
        return c
    d = int(rng.integers(1, 4))
    e = int(rng.integers(1, d + 2))
    m = int(rng.integers(5, 11))
    p = int(rng.integers(2, 4))
    basis = rand_basis(rng, d, p)
    n = [len(b) for b in basis]
    x = rng.uniform(-1, 1, (d, m))
    sigma = rng.standard_normal((d, e, m))
    b = rng.standard_normal((d, m))
    w = rng.uniform(0.5, 2.0, m) if rew else None
    x0, s0, b0 = x.copy(), sigma.copy(), b.copy()
    tuples = list(itertools.product(*[range(k) for k in n]))
    N = len(tuples)

    # ---- scalar product-rule evaluations -------------------------------------------------------------------------------
    c = C('tgedmd.generator_on_product')
    bad = []
    LPsi = np.zeros((N, m))
    dPsi = np.zeros((N, d, m))
    Psi = np.zeros((N, m))
    for a_, s in enumerate(tuples):
        g = prod_fun(basis, s)
        for l in range(m):
            gr = num_grad(g, x[:, l])
            H = num_hess(g, x[:, l])
            am = sigma[:, :, l] @ sigma[:, :, l].T
            LPsi[a_, l] = b[:, l] @ gr + 0.5 * np.sum(am * H)
            dPsi[a_, :, l] = gr
            Psi[a_, l] = g(x[:, l])
    for a_, s in enumerate(tuples):
        for l in range(min(m, 3)):
            got = tg.generator_on_product(basis, s, x[:, l], b[:, l], sigma[:, :, l])
            if abs(got - LPsi[a_, l]) > 1e-6 * max(1.0, abs(LPsi[a_, l])):
                bad.append('s=%s snapshot %d: %.10g vs %.10g' % (s, l, got, LPsi[a_, l]))
    c.add('post:value==L(product)', not bad, '; '.join(bad[:2]))
    c = C('tgedmd.generator_on_product_reversible')
    bad = []
    for a_, s in enumerate(tuples):
        for l in range(min(m, 3)):
            for i in range(e):
                got = tg.generator_on_product_reversible(basis, s, i, x[:, l], sigma[:, :, l])
                want = dPsi[a_, :, l] @ sigma[:, i, l]
                if abs(got - want) > 1e-8 * max(1.0, abs(want)):
                    bad.append('s=%s i=%d snapshot %d: %.10g vs %.10g' % (s, i, l, got, want))
    c.add('post:value==grad(product).sigma_i', not bad, '; '.join(bad[:2]))

    # ---- reduced matrix vs dense contraction, given an orthonormal HOSVD basis built independently ------------------------
    sw = np.sqrt(w) if rew else np.ones(m)
    Pw = Psi * sw
    # TT-SVD of the (weighted) transformed data tensor with NumPy only
    cores_u, ranks = [], [1]
    res = Pw.reshape(n + [m])
    r = 1
    for i in range(p):
        mat_ = res.reshape(r * n[i], -1)
        U, S, Vh = np.linalg.svd(mat_, full_matrices=False)
        keep = S > 1e-9 * S[0]
        U, S, Vh = U[:, keep], S[keep], Vh[keep]
        cores_u.append(U.reshape(r, n[i], -1))
        r = U.shape[1]
        ranks.append(r)
        res = np.diag(S) @ Vh
    ranks.append(1)
    S_last, V_last = S, Vh               # Psi_w = Q * diag(S_last) * V_last with Q the contraction of cores_u
    Q = cores_u[0]
    for cu in cores_u[1:]:
        Q = np.tensordot(Q, cu, axes=([Q.ndim - 1], [0]))
    Q = Q.reshape(N, -1)
    c = C('tgedmd._reduced_matrix_tgedmd')
    sv_rel = S_last / S_last[0]
    well = bool(sv_rel[-1] > 1e-6)
    if well:
        s_inv = np.diag(1.0 / S_last)
        ok, M = c.guarded('post:value==dense-contraction', lambda: tg._reduced_matrix_tgedmd(
            cores_u, s_inv, V_last.T, ranks, x, basis, sigma, b=None if rev else b, reweight=w))
        if ok:
            if rev:
                Cmat = np.zeros((N, N))
                for l in range(m):
                    am = sigma[:, :, l] @ sigma[:, :, l].T
                    Cmat += (w[l] if rew else 1.0) * dPsi[:, :, l] @ am @ dPsi[:, :, l].T
                want = -0.5 * s_inv @ Q.T @ Cmat @ Q @ s_inv
            else:
                want = V_last @ (LPsi * sw).T @ Q @ s_inv
            c.close('post:value==dense-contraction', M, want, tol=1e-5)

    # ---- eigenvalues of the driver vs the dense projected generator ----------------------------------------------------------
    c = C('tgedmd.amuset_hosvd')
    Um, Sm, Vhm = np.linalg.svd(Pw, full_matrices=False)
    thr = 1e-8
    gap_ok = not np.any((Sm > 1e-11) & (Sm < 1e-5))
    if gap_ok and Sm[0] > 1e-3:
        keep = Sm > thr
        Um, Sm, Vhm = Um[:, keep], Sm[keep], Vhm[keep]
        if rev:
            Cmat = np.zeros((N, N))
            for l in range(m):
                am = sigma[:, :, l] @ sigma[:, :, l].T
                Cmat += (w[l] if rew else 1.0) * dPsi[:, :, l] @ am @ dPsi[:, :, l].T
            Md = -0.5 * np.diag(1 / Sm) @ Um.T @ Cmat @ Um @ np.diag(1 / Sm)
        else:
            Md = Vhm @ (LPsi * sw).T @ Um @ np.diag(1 / Sm)
        lam_o = np.linalg.eigvals(Md)
        for opt in ('eigenvectors', 'eigenfunctionevals', 'eigentensors'):
            import io
            import contextlib
            buf = io.StringIO()
            with contextlib.redirect_stdout(buf):
                ok, res_ = c.guarded('post:eigenvalues==dense-gEDMD[%s]' % opt, lambda: tg.amuset_hosvd(
                    x, basis, sigma, b=None if rev else b, reweight=w, threshold=thr, max_rank=np.inf, return_option=opt))
            if ok:
                lam = np.asarray(res_[0])
                if len(lam) == len(lam_o):
                    scale = max(1.0, float(np.max(np.abs(lam_o))))
                    c.add('post:eigenvalues==dense-gEDMD[%s]' % opt,
                          float(np.max(np.abs(np.sort_complex(lam.astype(complex)) - np.sort_complex(lam_o.astype(complex))))) <= 1e-5 * scale * max(1.0, (Sm[0] / Sm[-1]) ** 2 * 1e-6),
                          'max diff %.3g (scale %.3g, cond %.3g)' % (np.max(np.abs(np.sort_complex(lam.astype(complex)) - np.sort_complex(lam_o.astype(complex)))), scale, Sm[0] / Sm[-1]))
                else:
                    c.add('post:eigenvalues==dense-gEDMD[%s]' % opt, False, '%d eigenvalues vs %d' % (len(lam), len(lam_o)))
                if np.max(np.abs(np.imag(lam))) < 1e-12:
                    c.add('post:sorted-descending[%s]' % opt, bool(np.all(np.diff(np.real(lam)) <= 1e-12)))
    c.add('frame:data-unchanged', np.array_equal(x, x0) and np.array_equal(sigma, s0) and np.array_equal(b, b0))
    return [o for c in obs for o in c.out]
