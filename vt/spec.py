"""Spec functions, written independently of the code under verification.

den(T)  - the denotation of a tensor train: the einsum of its core list exactly as the class docstring defines it,
          axes (rho_0, m_1..m_d, n_1..n_d, rho_d);  G(T) keeps the boundary ranks, den(T) drops them (must be 1).
mat(T)  - row-major matricisation of den.
wf(T)   - representation invariant (metadata == shapes of the cores).
"""
import itertools
import numpy as np


def G(cores):
    """generalised denotation with open boundary ranks: shape (r0, m1..md, n1..nd, rd)"""
    d = len(cores)
    res = cores[0]                      # (r0, m1, n1, r1)
    for c in cores[1:]:
        res = np.tensordot(res, c, axes=([res.ndim - 1], [0]))
    # axes now: r0, m1, n1, m2, n2, ..., md, nd, rd
    perm = [0] + [1 + 2 * i for i in range(d)] + [2 + 2 * i for i in range(d)] + [2 * d + 1]
    return np.transpose(res, perm)


def den(t):
    cores = t.cores if hasattr(t, 'cores') else t
    g = G(cores)
    assert g.shape[0] == 1 and g.shape[-1] == 1, 'boundary ranks must be 1'
    return g[0, ..., 0]


def mat(t):
    x = den(t)
    d = x.ndim // 2
    m = int(np.prod(x.shape[:d], dtype=np.int64))
    n = int(np.prod(x.shape[d:], dtype=np.int64))
    return x.reshape(m, n)


def wf_report(t):
    """list of violated clauses of the representation invariant ([] = well-formed)"""
    bad = []
    try:
        d = t.order
        if not isinstance(t.cores, list) or len(t.cores) != d:
            bad.append('len(cores)=%s != order=%s' % (len(t.cores), d))
            return bad
        if len(t.row_dims) != d or len(t.col_dims) != d or len(t.ranks) != d + 1:
            bad.append('metadata lengths %d %d %d for order %d' % (len(t.row_dims), len(t.col_dims), len(t.ranks), d))
            return bad
        for i, c in enumerate(t.cores):
            if not isinstance(c, np.ndarray) or c.ndim != 4:
                bad.append('core %d is not a 4-d ndarray (ndim=%s)' % (i, getattr(c, 'ndim', None)))
                continue
            want = (t.ranks[i], t.row_dims[i], t.col_dims[i], t.ranks[i + 1])
            if tuple(c.shape) != tuple(want):
                bad.append('core %d shape %s != metadata %s' % (i, tuple(c.shape), tuple(want)))
        ids = [id(t.row_dims), id(t.col_dims), id(t.ranks), id(t.cores)]
        if len(set(ids)) != 4:
            bad.append('metadata lists are not distinct objects')
    except Exception as e:  # noqa
        bad.append('exception while inspecting: %r' % (e,))
    return bad


def wf(t):
    return not wf_report(t)


class Snap:
    """value + metadata snapshot of a TT (deep), for frame conditions"""

    def __init__(self, t):
        self.order = t.order
        self.row_dims = list(t.row_dims)
        self.col_dims = list(t.col_dims)
        self.ranks = list(t.ranks)
        self.cores = [np.array(c, copy=True) for c in t.cores]
        self.shapes = [tuple(c.shape) for c in t.cores]

    def diff(self, t, tol=0.0):
        """[] if t is (bitwise, or within tol) what it was at snapshot time"""
        bad = []
        if t.order != self.order:
            bad.append('order %s -> %s' % (self.order, t.order))
        if list(t.row_dims) != self.row_dims:
            bad.append('row_dims %s -> %s' % (self.row_dims, list(t.row_dims)))
        if list(t.col_dims) != self.col_dims:
            bad.append('col_dims %s -> %s' % (self.col_dims, list(t.col_dims)))
        if list(t.ranks) != self.ranks:
            bad.append('ranks %s -> %s' % (self.ranks, list(t.ranks)))
        if len(t.cores) != len(self.cores):
            bad.append('number of cores %d -> %d' % (len(self.cores), len(t.cores)))
            return bad
        for i, (a, b) in enumerate(zip(self.cores, t.cores)):
            if tuple(np.shape(b)) != a.shape:
                bad.append('core %d shape %s -> %s' % (i, a.shape, tuple(np.shape(b))))
            elif tol == 0.0:
                if not np.array_equal(a, b):
                    bad.append('core %d entries changed (max diff %.3g)' % (i, float(np.max(np.abs(a - b)))))
            elif a.size and float(np.max(np.abs(a - b))) > tol:
                bad.append('core %d entries changed (max diff %.3g)' % (i, float(np.max(np.abs(a - b)))))
        return bad


def shares(t1, t2):
    """indices (i, j) such that core i of t1 and core j of t2 may share memory"""
    out = []
    for i, a in enumerate(t1.cores):
        for j, b in enumerate(t2.cores):
            if isinstance(a, np.ndarray) and isinstance(b, np.ndarray) and np.shares_memory(a, b):
                out.append((i, j))
    return out


def lists_shared(t1, t2):
    out = []
    for n1 in ('row_dims', 'col_dims', 'ranks', 'cores'):
        for n2 in ('row_dims', 'col_dims', 'ranks', 'cores'):
            if getattr(t1, n1) is getattr(t2, n2):
                out.append((n1, n2))
    return out


# ----------------------------------------------------------------------------------------------------------------------
# generators (all deterministic in the rng passed)

def rnd(rng, shape, kind='real'):
    if kind == 'complex':
        return rng.standard_normal(shape) + 1j * rng.standard_normal(shape)
    return rng.standard_normal(shape)


def rand_cores(rng, row_dims, col_dims, ranks, kind='real'):
    """kind: real | complex | mixed (complex cores at even positions) | mixed1 (complex cores at odd positions, core 0 real)"""
    cores = []
    for i in range(len(row_dims)):
        k = kind
        if kind == 'mixed':
            k = 'complex' if i % 2 == 0 else 'real'
        elif kind == 'mixed1':
            k = 'complex' if i % 2 == 1 else 'real'
        cores.append(rnd(rng, (ranks[i], row_dims[i], col_dims[i], ranks[i + 1]), k))
    return cores


def rand_tt(rng, row_dims, col_dims, ranks, kind='real'):
    from scikit_tt.tensor_train import TT
    return TT(rand_cores(rng, row_dims, col_dims, ranks, kind))


def max_ranks(row_dims, col_dims):
    """maximal (exact-representation) TT ranks"""
    n = [r * c for r, c in zip(row_dims, col_dims)]
    d = len(n)
    rk = [1]
    for i in range(1, d):
        left = int(np.prod(n[:i]))
        right = int(np.prod(n[i:]))
        rk.append(min(left, right))
    rk.append(1)
    return rk


def shape_family(orders, dims, ranks, operator=True, limit=None, rng=None):
    """enumerate (row_dims, col_dims, ranks) with boundary ranks 1; optionally a seeded sub-sample of size `limit`"""
    out = []
    for d in orders:
        for rd in itertools.product(dims, repeat=d):
            cds = itertools.product(dims, repeat=d) if operator else [tuple([1] * d)]
            for cd in cds:
                for rk in itertools.product(ranks, repeat=d - 1):
                    out.append((list(rd), list(cd), [1] + list(rk) + [1]))
    if limit is not None and len(out) > limit:
        idx = rng.choice(len(out), size=limit, replace=False)
        out = [out[i] for i in sorted(idx)]
    return out


def close(a, b, tol=1e-9):
    a = np.asarray(a)
    b = np.asarray(b)
    if a.shape != b.shape:
        return False, 'shape %s vs %s' % (a.shape, b.shape)
    if a.size == 0:
        return True, ''
    scale = max(1.0, float(np.max(np.abs(b))), float(np.max(np.abs(a))))
    err = float(np.max(np.abs(a - b)))
    if not np.isfinite(err):
        return False, 'non-finite difference'
    return err <= tol * scale, 'max abs diff %.3g (scale %.3g)' % (err, scale)


def hpd_dense(rng, n, kind='real', cond=50.0):
    """Hermitian positive definite with controlled condition number"""
    a = rnd(rng, (n, n), kind)
    q, _ = np.linalg.qr(a)
    ev = np.linspace(1.0, cond, n)
    return (q * ev) @ q.conj().T


def admissible_ranks(rng, rd, cd=None, cap=None):
    """random TT ranks for which every core can have full-rank unfoldings (r_j <= r_{j-1} n_{j-1}, r_j <= n_j r_{j+1});
    this is the precondition under which Galerkin frames have full column rank (A-nonsingular)"""
    d = len(rd)
    n = [rd[i] * (cd[i] if cd else 1) for i in range(d)]
    mr = max_ranks(rd, cd or [1] * d)
    rk = [1] + [int(rng.integers(1, min(mr[j], cap or mr[j]) + 1)) for j in range(1, d)] + [1]
    for j in range(1, d):
        rk[j] = min(rk[j], rk[j - 1] * n[j - 1])
    for j in range(d - 1, 0, -1):
        rk[j] = min(rk[j], n[j] * rk[j + 1])
    return rk


def isolated(fn, timeout=300):
    """Run fn() in a forked child and hand its result back through a pipe.  Used for calls that feed *singular* systems to
    LAPACK (over-parameterised guesses): depending on the pivots the real code raises, returns non-finite numbers or takes the
    interpreter down with SIGSEGV inside scipy.linalg.solve - the child absorbs that.
    Returns ('ok', value) | ('exception', type name, repr) | ('crash', 'signal N' or 'timeout')."""
    import os
    import pickle
    import select
    import signal
    import time
    r, w = os.pipe()
    pid = os.fork()
    if pid == 0:
        try:
            os.close(r)
            signal.alarm(0)
            try:
                out = ('ok', fn())
            except BaseException as e:  # noqa
                out = ('exception', type(e).__name__, repr(e))
            data = pickle.dumps(out)
            with os.fdopen(w, 'wb') as f:
                f.write(data)
        finally:
            os._exit(0)
    os.close(w)
    chunks, t0 = [], time.time()
    while True:
        left = timeout - (time.time() - t0)
        if left <= 0:
            try:
                os.kill(pid, signal.SIGKILL)
            except OSError:
                pass
            os.waitpid(pid, 0)
            os.close(r)
            return ('crash', 'timeout')
        ready, _, _ = select.select([r], [], [], min(left, 5.0))
        if ready:
            b = os.read(r, 1 << 20)
            if not b:
                break
            chunks.append(b)
    os.close(r)
    _, status = os.waitpid(pid, 0)
    if os.WIFSIGNALED(status):
        return ('crash', 'signal %d' % os.WTERMSIG(status))
    try:
        return pickle.loads(b''.join(chunks))
    except Exception as e:  # noqa
        return ('crash', 'no result (%r)' % e)
