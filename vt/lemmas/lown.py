"""L-own: the per-operation contracts (fresh results / in-place writes inside the receiver's ownership set) lift to every
finite history: ownership sets of live objects stay pairwise disjoint, and no operation writes a buffer owned by an
object other than its receiver.  Machine-checked: inductiveness over an abstract transition relation, discharged by z3.

State: live(o), own(o, b) (object o owns buffer b), mark (all allocated buffer ids are < mark).
  producer step  : a non-live object n becomes live; every buffer it owns is fresh (>= mark); nothing else changes.
                   (this is exactly `post:result-buffers-fresh` + `post:result-object-and-lists-fresh` of the contracts)
  in-place step  : receiver r; written buffers W subset of own(r) u fresh;  own'(r) subset of own(r) u fresh;
                   own' of every other object unchanged.   (`frame:buffer-write`, `core-buffers-fresh-or-own-slot`)
Invariant: disjoint ownership of distinct live objects, and owned buffers lie below the watermark.
"""
import time
import z3
from vt.core import Ob, OK, FAIL, UNDEC


def obligations():
    O, B = z3.IntSort(), z3.IntSort()
    live, live2 = z3.Function('live', O, z3.BoolSort()), z3.Function('live2', O, z3.BoolSort())
    own, own2 = z3.Function('own', O, B, z3.BoolSort()), z3.Function('own2', O, B, z3.BoolSort())
    written = z3.Function('written', B, z3.BoolSort())
    mark, mark2 = z3.Ints('mark mark2')
    o, p, b, n, r = z3.Ints('o p b n r')

    def inv(lv, ow, mk):
        return z3.And(z3.ForAll([o, p, b], z3.Implies(z3.And(lv(o), lv(p), o != p, ow(o, b)), z3.Not(ow(p, b)))),
                      z3.ForAll([o, b], z3.Implies(z3.And(lv(o), ow(o, b)), b < mk)))
    producer = z3.And(z3.Not(live(n)), live2(n), z3.ForAll([o], z3.Implies(o != n, live2(o) == live(o))),
                      z3.ForAll([b], z3.Implies(own2(n, b), z3.And(b >= mark, b < mark2))),
                      z3.ForAll([o, b], z3.Implies(o != n, own2(o, b) == own(o, b))), mark2 >= mark,
                      z3.ForAll([b], z3.Not(written(b))))
    inplace = z3.And(live(r), z3.ForAll([o], live2(o) == live(o)),
                     z3.ForAll([b], z3.Implies(written(b), z3.Or(own(r, b), b >= mark))),
                     z3.ForAll([b], z3.Implies(own2(r, b), z3.Or(own(r, b), z3.And(b >= mark, b < mark2)))),
                     z3.ForAll([o, b], z3.Implies(o != r, own2(o, b) == own(o, b))), mark2 >= mark)
    no_foreign_write = z3.ForAll([o, b], z3.Implies(z3.And(live(o), o != r, written(b)), z3.Not(own(o, b))))
    return [
        ('lemma:L-own/producer-preserves-disjoint-ownership', z3.Implies(z3.And(inv(live, own, mark), producer), inv(live2, own2, mark2))),
        ('lemma:L-own/in-place-preserves-disjoint-ownership', z3.Implies(z3.And(inv(live, own, mark), inplace), inv(live2, own2, mark2))),
        ('lemma:L-own/in-place-writes-no-foreign-buffer', z3.Implies(z3.And(inv(live, own, mark), inplace), no_foreign_write)),
        # canary: without the freshness clause of the producer the invariant is NOT inductive (must be refuted)
        ('lemma:L-own/canary(sharing-producer-breaks-invariant)', None),
    ], (inv, live, own, mark, live2, own2, mark2, n, o, b)


def run(case):
    pid = case.get('pid', 'C06')
    obs_, ctxt = obligations()
    inv, live, own, mark, live2, own2, mark2, n, o, b = ctxt
    out = []
    for name, goal in obs_:
        s = z3.Solver()
        s.set('timeout', 20000)
        t0 = time.time()
        if goal is None:
            sharing = z3.And(z3.Not(live(n)), live2(n), z3.ForAll([o], z3.Implies(o != n, live2(o) == live(o))),
                             z3.ForAll([o, b], z3.Implies(o != n, own2(o, b) == own(o, b))), mark2 >= mark,
                             z3.ForAll([b], z3.Implies(own2(n, b), b < mark2)))
            s.add(z3.Not(z3.Implies(z3.And(inv(live, own, mark), sharing), inv(live2, own2, mark2))))
            r = s.check()
            st = OK if r == z3.sat else (FAIL if r == z3.unsat else UNDEC)
            out.append(Ob('%s/E1:%s' % (pid, name), 'E1', st, sig='L-own', detail='canary %s' % r, case=case, t=time.time() - t0))
            continue
        s.add(z3.Not(goal))
        r = s.check()
        st = OK if r == z3.unsat else (FAIL if r == z3.sat else UNDEC)
        out.append(Ob('%s/E1:%s' % (pid, name), 'E1', st, sig='L-own', detail=str(r), case=case, t=time.time() - t0,
                      native={'reproduced': False} if st == FAIL else None))
    return out
