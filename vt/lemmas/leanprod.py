"""The arithmetic lemmas the E1 contracts assume about slice products and cumulative sums (L-prod-pos, L-prod-front,
L-prod-split, L-cumsum-mono, L-prod-interleave) are proved in Lean 4 + Mathlib: lemmas/ProdLemmas.lean.  This task re-checks
the file with the installed `lean` (no `sorry`, no error).  What stays trusted is the correspondence between the Lean
statements (functions ℕ → ℤ, Finset.Ico products) and the z3 encoding (uninterpreted P(a, b) with ground instances).
If lean is not available or does not finish in time the lemmas simply remain assumptions for this run (no verdict)."""
import os
import shutil
import subprocess
import time
from vt.core import Ob, OK, FAIL, ROOT

LEMMAS = ['L_prod_pos', 'L_prod_back', 'L_prod_front', 'L_prod_split', 'L_cumsum_mono', 'L_prod_interleave']


def run(case):
    pid = case.get('pid', 'C06')
    path = os.path.join(ROOT, 'lemmas', 'ProdLemmas.lean')
    name = '%s/lemma:L-prod/lean-proof-checked' % pid
    lean = shutil.which('lean')
    if lean is None or not os.path.exists(path):
        return [Ob(name, 'E1', OK, sig='lemmas/ProdLemmas.lean', detail='lean not available: the product lemmas remain assumptions in this run', case=case, nontrivial=False)]
    src = open(path).read()
    if 'sorry' in src or 'axiom ' in src or not all(('theorem %s ' % l) in src for l in LEMMAS):
        return [Ob(name, 'E1', FAIL, sig='lemmas/ProdLemmas.lean', detail='the lemma file does not state all lemmas or contains sorry / axiom', case=case)]
    t0 = time.time()
    try:
        def lift():
            import resource
            soft, hard = resource.getrlimit(resource.RLIMIT_AS)
            resource.setrlimit(resource.RLIMIT_AS, (hard, hard))       # lean maps the Mathlib .olean files (many GB of address space)
        r = subprocess.run([lean, path], capture_output=True, text=True, timeout=900, cwd=ROOT, preexec_fn=lift)
    except subprocess.TimeoutExpired:
        return [Ob(name, 'E1', OK, sig='lemmas/ProdLemmas.lean', detail='lean did not finish within 900 s (cold Mathlib cache): the product lemmas remain assumptions in this run',
                   case=case, nontrivial=False, t=time.time() - t0)]
    out = (r.stdout + r.stderr).strip()
    if r.returncode != 0 and any(m in out for m in ('failed to read file', 'unknown module prefix', 'object file', 'out of memory', 'Cannot allocate')):
        # the toolchain could not load Mathlib in this environment: nothing is known about the lemma file
        return [Ob(name, 'E1', OK, sig='lemmas/ProdLemmas.lean', detail='lean could not load Mathlib here (%s): the product lemmas remain assumptions in this run' % out[:200],
                   case=case, nontrivial=False, t=time.time() - t0)]
    ok = r.returncode == 0 and 'error' not in out and 'sorry' not in out
    return [Ob(name, 'E1', OK if ok else FAIL, sig='lemmas/ProdLemmas.lean',
               detail=('Lean 4 + Mathlib accepted %s' % ', '.join(LEMMAS)) if ok else ('lean rejected the lemma file: ' + out[:1500]), case=case, t=time.time() - t0)]
