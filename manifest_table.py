# edited by hand; consumed by gen_manifest.py
_NOTE = ('trusted: z3 5.1 (soundness), the VC generator vt/e1 and its NumPy/SciPy contract table (A-numpy, A-lapack), '
         'NumPy/SciPy (LAPACK) as oracle and as the numerics under test in the run-time part; floating point treated as real/complex '
         'arithmetic in E1; tolerance 1e-9 relative in T3; bounded family of shapes/seeds (VERIF_SEED); assumptions listed in every evidence file')
_E1 = ('Sidecar contracts (requires/ensures/modifies, loop invariants, ghost isometry flags) on the real functions; the structural '
       'clauses (index/shape safety, wf, metadata equations, rank bounds, gauge flags, frame/freshness, environment definedness) are '
       'turned into verification conditions from the real AST on every run and discharged by z3 for ALL orders, dimensions, ranks and '
       'iterations (evidence: coverage.obligations == coverage.discharged, function list with AST hashes, vacuity guards); every call is checked against the callee contract (its domain, i.e. validity of every TT argument, and its requires), never against the callee body; the value '
       'clauses (equals the dense definition, inequalities) are evaluated at run time against independent dense oracles over an '
       'enumerated+seeded family and are labelled bounded. Not claimed as proof: the value clauses are bounded and the E1 trusted base '
       '(NumPy contract table, own VC generator) is assumed, so the category is other.')
_T3 = ('Sidecar contracts (pre/postconditions, frame clauses, contracts on private helpers installed into the module namespace) '
       'evaluated at run time against independent dense oracles over an enumerated+seeded family; no function of this property is '
       'within reach of the E1 generator yet (listed under unverified_functions), so everything here is a bounded stand-in, never counted as proved.')
_TECH_E1 = 'contract-based deductive verification: own AST->VC generator + z3 (structural clauses, unbounded) + run-time contracts vs dense oracles (value clauses, bounded)'
_TECH_T3 = 'sidecar run-time contracts vs dense oracles (bounded stand-in)'
for _i in (1, 2, 3, 4, 5, 6, 7, 8, 9, 10, 11, 17):
    CLAIMED['C%02d' % _i] = ('other', _TECH_E1, _E1, _NOTE)
for _i in (12, 13, 15, 19):
    CLAIMED['C%02d' % _i] = ('other', _TECH_T3, _T3, _NOTE)
CLAIMED['C16'] = ('other', _TECH_E1,
                  'Alternating ridge regression: `arr` and its four private helpers are under sidecar contracts whose structural clauses are turned into '
                  'verification conditions from the real AST on every run and discharged by z3 for ALL orders, basis sizes, ranks, snapshot / target / repeat counts: '
                  'helper protocol (environments built for the current ranks, contractions pair the legs that belong together - rank with rank, basis index with the '
                  'physical leg, snapshots jointly), the returned solutions are valid tensor trains of the dimensions of the guess with ranks <= the ranks of the guess '
                  '(equal whenever the orthonormalised unfolding is not wider than tall), nothing of the guess or the data is written or shared. Bounded (run-time '
                  'contracts vs dense pinv / lstsq oracles over a seeded family, never counted as proved): the residual never increasing with the sweep count, exact '
                  'rank preservation on the sampled guesses, and everything about the three MANDy routines (not within reach of the E1 generator; listed under unverified_functions).', _NOTE)
CLAIMED['C18'] = ('other', _TECH_T3 + '; utils.truncated_svd additionally under an E1 contract (structural clauses, unbounded)',
                  'Sidecar contracts (pre/postconditions, frame clauses, contracts on private helpers installed into the module namespace) '
                  'evaluated at run time against independent dense oracles over an enumerated+seeded family - a bounded stand-in, never counted as proved. '
                  'Of the functions this property depends on only utils.truncated_svd is within reach of the E1 generator (its shape / rank-cut clauses are '
                  'discharged by z3 for all sizes); the AMUSEt drivers, _reduced_matrix and hocur are listed under unverified_functions.', _NOTE)
CLAIMED['C14'] = ('other', 'contracts decided by exact symbolic execution of the real methods on sympy symbols (all points and parameters, enumerated families) + complex-step run-time checks',
                  'The real __call__/partial/partial2/gradient/hessian methods are executed on sympy symbols with symbolic parameters (module names np/legendre rebound to contract shims); simplify(partial - diff(call)) == 0 is exact in the evaluation point and the parameters for every enumerated family/index/dimension/degree; B-splines and vectorised evaluation are run-time checks (bounded).', _NOTE)
CLAIMED['C20'] = ('exploration', 'run-time contract vs dense inverse-CDF oracle with seeded uniforms (bounded)',
                  'The sampler is compared with a dense inverse-CDF oracle for seeded uniform variates over an enumerated family of states and measured subsets; the sample rule is a floating-point branch on LAPACK-derived numbers which no deductive back end here decides, so this is exploration only; the structural contracts of the algebraic ingredients diag/transpose/@ are re-verified by E1 under this id (squeeze and the sampler itself are not under an E1 contract).', _NOTE)
