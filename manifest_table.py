# edited by hand; consumed by gen_manifest.py
_T3 = "run-time contracts vs dense oracles (bounded)"
CLAIMED['C01'] = ('other', 'sidecar contracts: run-time clause evaluation vs dense spec (bounded); E1/E2 added as built',
                  'Contracts of the value-level TT API evaluated on the real code for an enumerated+seeded family of shapes/kinds against the independent einsum denotation; bounded, not a proof.',
                  'NumPy as oracle; tolerance 1e-9 relative; bounded family of shapes')
for _p in ['C%02d' % i for i in range(2, 16)]:
    CLAIMED[_p] = CLAIMED['C01']
for _p in ['C%02d' % i for i in range(16, 21)]:
    NA[_p] = 'check not built yet in this session (work in progress; see DESIGN.md section 8)'
