# edited by hand; consumed by gen_manifest.py
_NOTE = ('trusted: NumPy/SciPy (LAPACK) as oracle and as the numerics under test; tolerance 1e-9 relative unless stated in the '
         'property module; bounded family of shapes/seeds (VERIF_SEED); assumptions listed in every evidence file')
_TXT = ('Sidecar contracts on the real functions this property depends on (pre/postconditions, frame and freshness clauses, '
        'contracts on private helpers installed into the module namespace), evaluated at run time against independent dense '
        'oracles over an enumerated+seeded family; E1 (AST->VC + z3) obligations, where present for this property, are counted '
        'separately in the evidence as obligations/discharged. Bounded stand-in: never counted as proved.')
for _i in range(1, 21):
    CLAIMED['C%02d' % _i] = ('other', 'sidecar contracts; run-time clause evaluation vs dense oracles (bounded)', _TXT, _NOTE)
CLAIMED['C14'] = ('other', 'sidecar contracts; exact symbolic execution of the real methods on sympy symbols + complex-step run-time checks',
                  _TXT + ' For C14 the real derivative methods are additionally executed symbolically (sympy) - exact in the point and the parameters for the enumerated families/indices/degrees.', _NOTE)
CLAIMED['C20'] = ('exploration', 'run-time contract vs dense inverse-CDF oracle with seeded uniforms (bounded)',
                  'The sampler is compared with a dense inverse-CDF oracle for seeded uniform variates over an enumerated family of states and measured subsets; no deductive back end decides the floating-point branch, so this is exploration only.', _NOTE)
