#!/bin/sh
# Build the offline overlay interpreter used by every check:
#   python 3.12 of /venv (the interpreter the repository's own test-suite runs under, with numpy/scipy and the
#   editable scikit_tt install pointing at /repo) + z3-solver, cvc5, sympy, jsonschema, icontract from the wheelhouse.
set -e
cd "$(dirname "$0")"
V=.venv312
if [ -x "$V/bin/python" ] && "$V/bin/python" -c "import z3, sympy, jsonschema, numpy, scipy" 2>/dev/null; then
  echo "setup: $V already usable"; exit 0
fi
rm -rf "$V"
/venv/bin/python -m venv "$V"
PIP_NO_INDEX=1 "$V/bin/pip" install -q --no-index --find-links /opt/veriftools/wheels z3-solver cvc5 sympy jsonschema icontract
echo "import site; site.addsitedir('/venv/lib/python3.12/site-packages')" > "$V/lib/python3.12/site-packages/_ovl.pth"
"$V/bin/python" -c "import z3, sympy, jsonschema, numpy, scipy, scikit_tt; print('setup ok', z3.get_version_string(), numpy.__version__, scipy.__version__, scikit_tt.__file__)"
