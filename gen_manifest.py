#!/usr/bin/env python3
"""Regenerates MANIFEST.json from the per-property table below (kept here so the manifest stays valid and uniform)."""
import json, os
HERE = os.path.dirname(os.path.abspath(__file__))
BASE_OFF = "cd /repo && /venv/bin/python -m pytest -ra -q -p no:cacheprovider --timeout=900 --continue-on-collection-errors"

# pid -> (category, technique, text, note)   ; absent pid => not_applicable with reason
CLAIMED = {}
NA = {}
exec(open(os.path.join(HERE, 'manifest_table.py')).read())

checks = []
for pid in sorted(CLAIMED):
    cat, tech, text, note = CLAIMED[pid]
    checks.append({
        "property_id": pid,
        "quick_cmd": "./check %s --tier quick" % pid,
        "thorough_cmd": "./check %s --tier thorough" % pid,
        "evidence_file": "/verif/evidence/%s.json" % pid,
        "replay_cmd_template": "./check --replay {path}",
        "engine": "vt",
        "level_claimed": {"category": cat, "text": text, "design_ref": "DESIGN.md section 4 (%s), section 8" % pid},
        "level_note": note,
        "technique": tech,
    })
man = {
    "version": 1,
    "setup_cmd": "./setup.sh",
    "hooks": {"guard": "SCIKIT_TT_VERIF", "enable": "none needed: contracts are sidecars in /verif; the guard name is reserved and unused",
              "baseline_off_cmd": BASE_OFF, "source_commits": [], "add_only": True},
    "engines": [{"name": "vt", "path": "/verif/vt", "serves_properties": sorted(CLAIMED),
                 "kind_free_text": "sidecar contracts on the real functions; E1 = own AST->VC generator discharged by z3/cvc5 (proved, all shapes); "
                                   "E2 = exact symbolic execution of the real function objects over a polynomial ring (bounded in shape); "
                                   "T3 = run-time contract evaluation against dense oracles (bounded)"}],
    "checks": checks,
    "not_applicable": [{"property_id": p, "reason": r} for p, r in sorted(NA.items())],
    "notes": "Exit codes: 0 held, 1 violation (VIOLATION line), 2 undecided, 3 checker crash. KNOWN_FINDINGS.txt lists open/fixed findings.",
}
json.dump(man, open(os.path.join(HERE, 'MANIFEST.json'), 'w'), indent=1)
print('manifest: %d checks, %d not_applicable' % (len(checks), len(NA)))
