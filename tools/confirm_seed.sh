#!/bin/sh
# usage: tools/confirm_seed.sh <seed-id> <property> <patch.diff> <demo.py> <meta.txt>
# Confirms in a scratch worktree (outside /repo and /verif) that the change (a) applies to /repo HEAD, (b) makes the
# demonstration fail, (c) leaves the demonstration passing without it, (d) keeps the baseline test-suite green;
# then stores it under /verif/seeded/<seed-id>/ .  The scratch worktree is removed afterwards.
ID="$1"; PROP="$2"; PATCH="$3"; DEMO="$4"; META="$5"
WT=$(mktemp -d /tmp/confirm_XXXXXX); rmdir "$WT"
export OMP_NUM_THREADS=1 OPENBLAS_NUM_THREADS=1 MKL_NUM_THREADS=1
git -C /repo worktree add -q --detach "$WT" HEAD || exit 3
cp "$DEMO" "$WT/_demo.py"
cd "$WT"
PYTHONPATH="$WT" /venv/bin/python _demo.py > "$WT/_clean.log" 2>&1; RC_CLEAN=$?
git apply "$PATCH" || { echo "$ID: patch does not apply"; git -C /repo worktree remove --force "$WT"; exit 2; }
PYTHONPATH="$WT" /venv/bin/python _demo.py > "$WT/_mut.log" 2>&1; RC_MUT=$?
PYTHONPATH="$WT" /venv/bin/python -m pytest -q -p no:cacheprovider -n ${NPROC:-6} --timeout=1800 tests/ > "$WT/_tests.log" 2>&1
SUMMARY=$(tail -1 "$WT/_tests.log")
FAILED=$(grep -E "^(FAILED|ERROR)" "$WT/_tests.log" | grep -v test_tdmd | wc -l)
echo "$ID: demo clean rc=$RC_CLEAN, mutated rc=$RC_MUT, tests: $SUMMARY (non-baseline failures: $FAILED)"
if [ "$RC_CLEAN" = 0 ] && [ "$RC_MUT" != 0 ] && [ "$FAILED" = 0 ]; then
  D=/verif/seeded/$ID; mkdir -p "$D"
  cp "$PATCH" "$D/patch.diff"; cp "$DEMO" "$D/demo.py"
  python3 - "$ID" "$PROP" "$META" "$SUMMARY" "$RC_MUT" > "$D/meta.json" <<'PY'
import json, sys
id_, prop, meta, summary, rc = sys.argv[1:6]
print(json.dumps({"id": id_, "breaks_property": prop, "needs_to_manifest_and_description": open(meta).read(),
  "confirmed": {"worktree": "scratch git worktree of /repo HEAD under /tmp (removed)",
                "demo_on_clean_tree_exit": 0, "demo_with_patch_exit": int(rc),
                "test_suite_with_patch": summary, "baseline_failures_ignored": "tests/test_tdmd.py (2 tests, data file missing at baseline)",
                "commands": ["git apply patch.diff", "PYTHONPATH=<wt> /venv/bin/python demo.py", "PYTHONPATH=<wt> /venv/bin/python -m pytest -q -p no:cacheprovider -n 6 --timeout=1800 tests/"]},
  "repo_head": __import__('subprocess').check_output(['git','-C','/repo','rev-parse','--short','HEAD']).decode().strip()}, indent=1))
PY
  echo "$ID: KEPT"
else
  echo "$ID: REJECTED"; tail -5 "$WT/_mut.log"; grep -E "^(FAILED|ERROR)" "$WT/_tests.log" | head -5
fi
cd /; git -C /repo worktree remove --force "$WT"
