#!/bin/sh
# usage: tools/seed_matrix.sh [seed-id ...]      (not a manifest command)
# Re-runs the quick checks of every kept seeded change against a scratch worktree of /repo HEAD with the change applied
# (VERIF_REPO points the checks at the scratch tree; /repo itself is never touched) and records which obligations fire.
# Output: seeded/MATRIX.tsv  (seed, property, rc, number of VIOLATION lines, first obligations).  Scratch tree removed afterwards.
cd "$(dirname "$0")/.." || exit 3
V=$(pwd)
WT=$(mktemp -d /tmp/seedmx_XXXXXX); rmdir "$WT"
OUT=$(mktemp -d /tmp/seedmx_out_XXXXXX)
git -C /repo worktree add -q --detach "$WT" HEAD || exit 3
trap 'git -C /repo worktree remove --force "$WT"; rm -rf "$OUT"' EXIT
SEEDS="$*"; [ -n "$SEEDS" ] || SEEDS=$(ls seeded | grep -E '^C[0-9]+-[0-9]+$')
TMPM="$OUT/matrix.tsv"; : > "$TMPM"
for s in $SEEDS; do
  prop=${s%%-*}
  extra=""
  grep -q '"also_check"' "seeded/$s/meta.json" 2>/dev/null && extra=$(jq -r '.also_check[]?' "seeded/$s/meta.json")
  ( cd "$WT" && git checkout -q -- . && git apply "$V/seeded/$s/patch.diff" ) || { printf '%s\t%s\tpatch-does-not-apply\n' "$s" "$prop" >> "$TMPM"; continue; }
  for pid in $prop $extra; do
    out=$(VERIF_REPO="$WT" VERIF_OUT="$OUT" timeout 1800 ./check "$pid" --tier quick 2>&1); rc=$?
    n=$(echo "$out" | grep -c '^VIOLATION')
    obs=$(echo "$out" | grep '^VIOLATION' | sed -E 's/.*obligation=([^ ]+).*/\1/' | sort -u | head -4 | tr '\n' ' ')
    printf '%s\t%s\trc=%s\t%s\t%s\n' "$s" "$pid" "$rc" "$n" "$obs" >> "$TMPM"
    printf '%s\t%s\trc=%s\t%s\t%s\n' "$s" "$pid" "$rc" "$n" "$obs"
  done
done
if [ -z "$*" ]; then cp "$TMPM" seeded/MATRIX.tsv; fi
