#!/usr/bin/env python3
"""prints the as-built per-property table of DESIGN.md section 8.0 from the evidence files (run after ./check <all> --tier quick)"""
import json, os, re
here = os.path.dirname(os.path.dirname(os.path.abspath(__file__)))
print('| id | E1: functions verified for all shapes (obligations discharged) | E2 (exact symbolic) | T3 run-time clauses (evaluations) | not under an E1 contract |')
print('|---|---|---|---|---|')
for k in range(1, 21):
    pid = 'C%02d' % k
    ev = json.load(open(os.path.join(here, 'evidence', pid + '.json')))
    cov = ev['coverage']
    bb = cov['by_backend']
    fns = sorted({re.sub(r'\[.*', '', f).replace('fn:', '').replace('TT.', '') for f in cov.get('e1_functions_verified', [])})
    e1 = '%s (%d/%d)' % (', '.join('`%s`' % f for f in fns), bb['E1']['discharged'], bb['E1']['obligations']) if 'E1' in bb else '-'
    e2 = '%d/%d' % (bb['E2']['discharged'], bb['E2']['obligations']) if 'E2' in bb else '-'
    t3 = '%d clauses (%d)' % (len([c for c in cov['bounded_clauses']]), bb.get('T3', {}).get('obligations', 0))
    un = ', '.join('`%s`' % f.split(':')[-1] for f in cov.get('unverified_functions', [])) or '-'
    print('| %s | %s | %s | %s | %s |' % (pid, e1, e2, t3, un))
