#!/usr/bin/env python3
"""Mutation self-test of the E1 engine (not a manifest command).

Each entry edits a scratch copy of /repo/scikit_tt (under $TMPDIR, removed afterwards) and states which contract must then
have at least one refuted obligation whose name contains the given fragment - or, for harmless refactorings, that every
obligation is still discharged.  Run:  PYTHONPATH=/verif .venv312/bin/python tools/e1_selftest.py
"""
import os
import shutil
import subprocess
import sys
import tempfile
import json

F = 'scikit_tt/tensor_train.py'
MUTANTS = [
    # (id, file, old, new, contract, expected fragment or None for "must stay green")
    ('copy-drops-ndarray-copy', F, 'cores = [self.cores[i].copy() for i in range(self.order)]', 'cores = [self.cores[i] for i in range(self.order)]', 'TT.copy', 'result-buffers-fresh'),
    ('concatenate-shares-other', F, 'tt.cores.extend([core.copy() for core in other.cores])', 'tt.cores.extend(other.cores)', 'TT.concatenate', 'buffers-fresh'),
    ('transpose-forgets-dim-swap', F, '                tt_transpose.col_dims[i] = row_dim\n', '                tt_transpose.col_dims[i] = col_dim\n', 'TT.transpose', 'inv-pres'),
    ('rank_transpose-keeps-ranks', F, '        tt_transpose.ranks.reverse()\n', '', 'TT.rank_transpose', 'post:'),
    ('add-wrong-ranks', F, 'ranks = [1] + [self.ranks[i] + tt_add.ranks[i] for i in range(1, order)] + [1]', 'ranks = [1] + [self.ranks[i] + tt_add.ranks[i] for i in range(1, order)] + [2]', 'TT.__add__', ''),
    ('matmul-wrong-reshape', F, '                    core_1.shape[ 1], \n                    core_2.shape[ 2]', '                    core_1.shape[ 2], \n                    core_2.shape[ 2]', 'TT.__matmul__', 'reshape-size'),
    ('ortho_left-u-not-truncated', F, "                            u = u[:, :np.minimum(u.shape[1], max_ranks[i+1])]\n", '', 'TT.ortho_left', ''),
    ('ortho-left-sweep-rank-truncated', F, 'self.ortho_left(threshold=threshold, max_rank=np.inf).ortho_right', 'self.ortho_left(threshold=threshold, max_rank=max_rank).ortho_right', 'TT.ortho', 'gauge'),
    ('ortho_right-ignores-start', F, 'for i in range(start_index, end_index - 1, -1):', 'for i in range(self.order - 1, end_index - 1, -1):', 'TT.ortho_right', ''),
    ('ortho_right-off-by-one', F, 'for i in range(start_index, end_index - 1, -1):', 'for i in range(start_index, end_index, -1):', 'TT.ortho_right', 'right-orthonormal'),
    ('ortho_left-no-overwrite (harmless)', F, "self.ranks[i + 1]), full_matrices=False, overwrite_a=True,\n                                check_finite=False)\n                        except:", "self.ranks[i + 1]), full_matrices=False, overwrite_a=False,\n                                check_finite=False)\n                        except:", 'TT.ortho_left', None),
    ('conj-renamed-local (harmless)', F, 'tt_conj', 'tt_c', 'TT.conj', None),
    ('transpose-renamed-local (harmless)', F, 'tt_transpose', 'tt_t', 'TT.transpose', None),
    ('als-guess-not-copied', 'scikit_tt/solvers/sle.py', '    solution = initial_guess.copy().ortho_right()\n\n    # define stacks\n    stack_left_op   = [None] * operator.order\n    stack_left_rhs  = [None] * operator.order\n    stack_right_op  = [None] * operator.order\n    stack_right_rhs = [None] * operator.order\n\n    # construct right stacks for the left- and right-hand side\n    for i in range(operator.order - 1, -1, -1):', '    solution = initial_guess.ortho_right()\n\n    # define stacks\n    stack_left_op   = [None] * operator.order\n    stack_left_rhs  = [None] * operator.order\n    stack_right_op  = [None] * operator.order\n    stack_right_rhs = [None] * operator.order\n\n    # construct right stacks for the left- and right-hand side\n    for i in range(operator.order - 1, -1, -1):', 'fn:als', ''),
    ('sle-left-stack-reads-slot-i', 'scikit_tt/solvers/sle.py', 'stack_left_op[i] = np.tensordot(stack_left_op[i - 1], solution.cores[i - 1][:, :, 0, :], axes=(0, 0))', 'stack_left_op[i] = np.tensordot(stack_left_op[i], solution.cores[i - 1][:, :, 0, :], axes=(0, 0))', 'fn:__construct_stack_left_op', 'not-None'),
    ('sle-micro-matrix-wrong-transpose', 'scikit_tt/solvers/sle.py', 'micro_op = micro_op.transpose([1, 2, 5, 0, 3, 4]).reshape(\n        solution.ranks[i] * operator.row_dims[i] * solution.ranks[i + 1],', 'micro_op = micro_op.transpose([1, 2, 5, 0, 3, 4]).reshape(\n        solution.ranks[i] * operator.row_dims[i] * solution.ranks[i],', 'fn:__construct_micro_matrix_als', 'reshape-size'),
    ('mals-backward-right-stack-off-by-one', 'scikit_tt/solvers/sle.py', '            __construct_stack_right_op(i + 1, stack_right_op, operator, solution)', '            __construct_stack_right_op(i, stack_right_op, operator, solution)', 'fn:mals', 'pre['),
    ('tensordot-shares-other (pre-fix behaviour)', F, '        other_cores = [core.copy() for core in other.cores]\n', '        other_cores = other.cores\n', 'TT.tensordot', 'buffers-fresh'),
    ('tensordot-last-last-no-rank-transposition', F, "                for i in range(first_idx_self, len(tdot.cores)):  # they need to be rank-transposed\n                    tdot.cores[i] = np.transpose(tdot.cores[i], [3, 1, 2, 0])", "                for i in range(first_idx_self, len(tdot.cores)):  # they need to be rank-transposed\n                    tdot.cores[i] = np.transpose(tdot.cores[i], [0, 1, 2, 3])", 'TT.tensordot', ''),
    ('tensordot-first-last-wrong-slice', F, '                tdot.cores = other_cores[:first_idx_other] + tdot.cores', '                tdot.cores = other_cores[:first_idx_other - 1] + tdot.cores', 'TT.tensordot', ''),
    ('rank_tensordot-no-copy', F, '        if overwrite is False:\n            tdot = self.copy()\n        else:\n            tdot = self\n\n        if mode == \'last\':', '        tdot = self\n\n        if mode == \'last\':', 'TT.rank_tensordot', 'frame'),
    ('euler-identity-hoisted (harmless)', 'scikit_tt/solvers/ode.py', "    for i in range(len(step_sizes)):\n        # compute next time step\n        tt_tmp = (tt.eye(operator.row_dims) + step_sizes[i] * operator).dot(solution[i])", "    identity = tt.eye(operator.row_dims)\n    for i in range(len(step_sizes)):\n        # compute next time step\n        tt_tmp = (identity + step_sizes[i] * operator).dot(solution[i])", 'fn:explicit_euler', None),
    ('sle-conj-spelled-conjugate (harmless)', 'scikit_tt/solvers/sle.py', "np.conj(solution.cores[i - 1][:, :, 0, :]), axes=([0, 2], [0, 1]))", "np.conjugate(solution.cores[i - 1][:, :, 0, :]), axes=([0, 2], [0, 1]))", 'fn:__construct_stack_left_op', None),
    ('stage-einsum-as-tensordot (harmless)', 'scikit_tt/solvers/ode.py', "tmp_vec = np.einsum('ijk, lj -> ilk', tmp_vec, K[i])", "tmp_vec = np.tensordot(tmp_vec, K[i], axes=(1, 1)).transpose([0, 2, 1])", 'fn:__splitting_stage', None),
    ('sle-left-rhs-missing-conj', 'scikit_tt/solvers/sle.py', "np.conj(solution.cores[i - 1][:, :, 0, :]), axes=([0, 1], [0, 1]))", "solution.cores[i - 1][:, :, 0, :], axes=([0, 1], [0, 1]))", 'fn:__construct_stack_left_rhs', 'sesquilinear-structure'),
    ('evp-left-stack-conj-on-ket-side', 'scikit_tt/solvers/evp.py', "stacks.op_left[i] = np.tensordot(stacks.op_left[i - 1], trains.solution.cores[i - 1][:, :, 0, :], axes=(0, 0))", "stacks.op_left[i] = np.tensordot(stacks.op_left[i - 1], np.conjugate(trains.solution.cores[i - 1][:, :, 0, :]), axes=(0, 0))", 'fn:__construct_left_stacks', 'sesquilinear-structure'),
    ('power-method-plain-transpose', 'scikit_tt/solvers/evp.py', "eigenvalue = (eigentensor.transpose(conjugate=True).dot(operator).dot(eigentensor))", "eigenvalue = (eigentensor.transpose().dot(operator).dot(eigentensor))", 'fn:power_method', 'sesquilinear-inner-product'),
    ('init-array-cap-only-without-threshold', 'scikit_tt/tensor_train.py', "                    if max_rank != np.inf:\n                        u = u[:, :np.minimum(u.shape[1], max_rank)]\n                        s = s[:np.minimum(s.shape[0], max_rank)]\n                        v = v[:np.minimum(v.shape[0], max_rank), :]\n\n                    # define new TT core", "                    elif max_rank != np.inf:\n                        u = u[:, :np.minimum(u.shape[1], max_rank)]\n                        s = s[:np.minimum(s.shape[0], max_rank)]\n                        v = v[:np.minimum(v.shape[0], max_rank), :]\n\n                    # define new TT core", 'TT.__init__(array)', 'ranks'),
    ('hod-previous-value-not-copied', 'scikit_tt/solvers/ode.py', "solution_prev = previous_value.copy()", "solution_prev = previous_value", 'fn:hod', 'frame'),
    ('strang-works-on-stored-state', 'scikit_tt/solvers/ode.py', "        tmp = solution[i].copy()\n\n        # Strang splitting\n        tmp = __splitting_stage(K, np.arange(0,order,2), tmp, threshold, 2*max_rank)", "        tmp = solution[i]\n\n        # Strang splitting\n        tmp = __splitting_stage(K, np.arange(0,order,2), tmp, threshold, 2*max_rank)", 'fn:strang_splitting', 'frozen-state'),
    ('arr-left-stack-khatri-rao-wrong-order', 'scikit_tt/data_driven/regression.py', "stack_left[i] = np.einsum('ij, kj, ikl -> lj', stack_left[i - 1], stack_left[i], solution.cores[i - 1][:,:,0,:])", "stack_left[i] = np.einsum('kj, ij -> kij', stack_left[i], stack_left[i - 1]).reshape(-1, m)\n        stack_left[i] = solution.cores[i - 1].reshape(-1, solution.ranks[i]).T.dot(stack_left[i])", 'fn:__arr_construct_stack_left', 'sesquilinear-structure'),
    ('arr-left-stack-khatri-rao-right-order (harmless)', 'scikit_tt/data_driven/regression.py', "stack_left[i] = np.einsum('ij, kj, ikl -> lj', stack_left[i - 1], stack_left[i], solution.cores[i - 1][:,:,0,:])", "stack_left[i] = np.einsum('ij, kj -> ikj', stack_left[i - 1], stack_left[i]).reshape(-1, m)\n        stack_left[i] = solution.cores[i - 1].reshape(-1, solution.ranks[i]).T.dot(stack_left[i])", 'fn:__arr_construct_stack_left', None),
    ('arr-right-stack-basis-on-rank-leg', 'scikit_tt/data_driven/regression.py', "np.einsum('ikl, kj, lj -> ij', solution.cores[i + 1][:,:,0,:], stack_right[i], stack_right[i + 1])", "np.einsum('ikl, lj, kj -> ij', solution.cores[i + 1][:,:,0,:], stack_right[i], stack_right[i + 1])", 'fn:__arr_construct_stack_right', 'sesquilinear-structure'),
    ('arr-micro-matrix-rows-in-wrong-order', 'scikit_tt/data_driven/regression.py', "np.einsum('ij,kj,lj->iklj', stack_left[i], micro_matrix, stack_right[i])", "np.einsum('ij,kj,lj->kilj', stack_left[i], micro_matrix, stack_right[i])", 'fn:__arr_construct_micro_matrix', 'design-matrix-roles'),
    ('arr-micro-matrix-operands-reordered (harmless)', 'scikit_tt/data_driven/regression.py', "np.einsum('ij,kj,lj->iklj', stack_left[i], micro_matrix, stack_right[i])", "np.einsum('kj,ij,lj->iklj', micro_matrix, stack_left[i], stack_right[i])", 'fn:__arr_construct_micro_matrix', None),
    ('arr-update-core-untransposed-system', 'scikit_tt/data_driven/regression.py', "lin.lstsq(micro_matrix.T, rhs, cond=rcond, lapack_driver='gelss')", "lin.lstsq(micro_matrix, rhs, cond=rcond, lapack_driver='gelss')", 'fn:__arr_update_core', ''),
    ('arr-update-core-splits-rows-wrongly', 'scikit_tt/data_driven/regression.py', "        # save orthonormal part\n        solution.cores[i] = q.reshape(solution.ranks[i], solution.row_dims[i], 1, solution.ranks[i + 1])", "        # save orthonormal part\n        solution.cores[i] = q.reshape(solution.row_dims[i], solution.ranks[i], 1, solution.ranks[i + 1]).transpose([1, 0, 2, 3])", 'fn:__arr_update_core', ''),
    ('arr-update-core-backward-rank-slot', 'scikit_tt/data_driven/regression.py', "            solution.ranks[i] = q.shape[0]", "            solution.ranks[i] = q.shape[1]", 'fn:__arr_update_core', ''),
    ('full-axes-repeated', F, "q = [2 * i for i in range(self.order)] + [1 + 2 * i for i in range(self.order)]", "q = [2 * i for i in range(self.order)] + [2 * i for i in range(self.order)]", 'TT.full', 'transpose-axes-distinct'),
    ('full-column-modes-first', F, "q = [2 * i for i in range(self.order)] + [1 + 2 * i for i in range(self.order)]", "q = [1 + 2 * i for i in range(self.order)] + [2 * i for i in range(self.order)]", 'TT.full', 'post:row-modes-first'),
    ('full-interleave-swapped', F, "        p[::2] = self.row_dims\n        p[1::2] = self.col_dims", "        p[::2] = self.col_dims\n        p[1::2] = self.row_dims", 'TT.full', 'post:row-modes-first'),
    ('full-sweep-reshape-off-by-one', F, "full_tensor = full_tensor.reshape(np.prod(self.row_dims[:i + 1]) * np.prod(self.col_dims[:i + 1]),", "full_tensor = full_tensor.reshape(np.prod(self.row_dims[:i]) * np.prod(self.col_dims[:i + 1]),", 'TT.full', 'reshape-size'),
    ('full-no-boundary-check', F, "        if self.ranks[0] != 1 or self.ranks[-1] != 1:\n            raise ValueError(\"The first and last rank have to be 1!\")\n\n        # reshape first core", "        # reshape first core", 'TT.full', ''),
    ('full-transpose-as-function (harmless)', F, "full_tensor = full_tensor.reshape(p).transpose(q)", "full_tensor = full_tensor.reshape(p)\n        full_tensor = full_tensor.transpose(q)", 'TT.full', None),
    ('arr-guess-not-copied', 'scikit_tt/data_driven/regression.py', "solution = [initial_guess.copy() for _ in range(y_data.shape[0])]", "solution = [initial_guess for _ in range(y_data.shape[0])]", 'fn:arr', '*'),
    ('arr-update-writes-the-guess', 'scikit_tt/data_driven/regression.py', "                    __arr_update_core(i, micro_matrix, rhs, solution[k], rcond, 'forward')", "                    __arr_update_core(i, micro_matrix, rhs, initial_guess, rcond, 'forward')", 'fn:arr', 'frame'),
    ('arr-forward-update-on-last-core', 'scikit_tt/data_driven/regression.py', "                if i < order - 1:\n                    # construct micro system", "                if i < order:\n                    # construct micro system", 'fn:arr', 'pre['),
    ('arr-backward-right-stack-not-rebuilt', 'scikit_tt/data_driven/regression.py', "                # update right stack\n                __arr_construct_stack_right(i, stack_right, x_data, basis_list, solution[k])\n\n                # construct micro system", "                # construct micro system", 'fn:arr', 'pre['),
    ('arr-rhs-column-instead-of-row', 'scikit_tt/data_driven/regression.py', "rhs = y_data[k, :]", "rhs = y_data[:, k]", 'fn:arr', ''),
    ('arr-wrong-solution-in-backward-sweep', 'scikit_tt/data_driven/regression.py', "                __arr_update_core(i, micro_matrix, rhs, solution[k], rcond, 'backward')", "                __arr_update_core(i, micro_matrix, rhs, solution[0], rcond, 'backward')", 'fn:arr', '*'),
    ('arr-counter-renamed (harmless)', 'scikit_tt/data_driven/regression.py', "counter", "n_done", 'fn:arr', None),
    ('evp-deflation-in-place-add (pre-fix behaviour)', 'scikit_tt/solvers/evp.py', "micro_op = micro_op + shift*tmp.dot(np.conjugate(tmp.T))", "micro_op += shift*tmp.dot(np.conjugate(tmp.T))", 'fn:__construct_micro_matrices', 'no-complex-into-real'),
    ('evp-deflation-projector-conjugated-on-the-wrong-side', 'scikit_tt/solvers/evp.py', "micro_op = micro_op + shift*tmp.dot(np.conjugate(tmp.T))", "micro_op = micro_op + shift*np.conjugate(tmp).dot(tmp.T)", 'fn:__construct_micro_matrices', 'sesquilinear-structure'),
    ('evp-deflation-left-stack-without-conjugate', 'scikit_tt/solvers/evp.py', "stacks.previous_left[j][i] = np.tensordot(stacks.previous_left[j][i], np.conjugate(trains.solution.cores[i - 1][:, :, 0, :]), axes=([0, 1], [0, 1]))", "stacks.previous_left[j][i] = np.tensordot(stacks.previous_left[j][i], trains.solution.cores[i - 1][:, :, 0, :], axes=([0, 1], [0, 1]))", 'fn:__construct_left_stacks', 'sesquilinear-structure'),
    ('evp-deflation-right-stack-reads-wrong-core', 'scikit_tt/solvers/evp.py', "stacks.previous_right[j][i] = np.tensordot(trains.previous[j].cores[i + 1][:, :, 0, :], stacks.previous_right[j][i], axes=([1, 2], [1, 2]))", "stacks.previous_right[j][i] = np.tensordot(trains.previous[j].cores[i][:, :, 0, :], stacks.previous_right[j][i], axes=([1, 2], [1, 2]))", 'fn:__construct_right_stacks', ''),
    ('evp-deflation-stacks-shared-between-tensors', 'scikit_tt/solvers/evp.py', "    stacks.previous_right  = [[None] * operator.order for _ in range(len(previous))]", "    stacks.previous_right  = stacks.previous_left", 'fn:evp.als', '*'),
    ('norm-unconjugated-inner-product', F, "            norm = np.linalg.norm(\n                tt_tensor.cores[0].reshape(tt_tensor.row_dims[0] * tt_tensor.col_dims[0] * tt_tensor.ranks[1]))", "            first_core = tt_tensor.cores[0].reshape(tt_tensor.row_dims[0] * tt_tensor.col_dims[0] * tt_tensor.ranks[1])\n            norm = np.sqrt(np.dot(first_core, first_core))", 'TT.norm', 'norm-is-a-real-number'),
    ('norm-via-vdot (harmless)', F, "            norm = np.linalg.norm(\n                tt_tensor.cores[0].reshape(tt_tensor.row_dims[0] * tt_tensor.col_dims[0] * tt_tensor.ranks[1]))", "            first_core = tt_tensor.cores[0].reshape(tt_tensor.row_dims[0] * tt_tensor.col_dims[0] * tt_tensor.ranks[1])\n            norm = np.sqrt(np.real(np.vdot(first_core, first_core)))", 'TT.norm', None),
    ('arr-backward-qr-of-a-reshape-instead-of-a-transpose', 'scikit_tt/data_driven/regression.py', "            [_, q] = lin.rq(\n                solution.cores[i].reshape(solution.ranks[i], solution.row_dims[i] * solution.ranks[i + 1]),\n                overwrite_a=True, mode='economic', check_finite=False)\n", "            [q, _] = lin.qr(\n                solution.cores[i].reshape(solution.row_dims[i] * solution.ranks[i + 1], solution.ranks[i]),\n                overwrite_a=True, mode='economic', check_finite=False)\n            q = q.T\n", 'fn:__arr_update_core', '*'),
    ('arr-backward-rq-via-qr-of-the-transpose (harmless)', 'scikit_tt/data_driven/regression.py', "            [_, q] = lin.rq(\n                solution.cores[i].reshape(solution.ranks[i], solution.row_dims[i] * solution.ranks[i + 1]),\n                overwrite_a=True, mode='economic', check_finite=False)\n", "            [q, _] = lin.qr(\n                solution.cores[i].reshape(solution.ranks[i], solution.row_dims[i] * solution.ranks[i + 1]).T,\n                mode='economic', check_finite=False)\n            q = q.T\n", 'fn:__arr_update_core', None),
]


def main():
    here = os.path.dirname(os.path.dirname(os.path.abspath(__file__)))
    py = os.path.join(here, '.venv312/bin/python')
    only = sys.argv[1:]
    bad = 0
    for (mid, file, old, new, contract, frag) in MUTANTS:
        if only and not any(o in mid for o in only):
            continue
        tmp = tempfile.mkdtemp(prefix='e1mut_')
        try:
            shutil.copytree('/repo/scikit_tt', os.path.join(tmp, 'scikit_tt'))
            p = os.path.join(tmp, file)
            s = open(p).read()
            if old not in s:
                print('%-45s SKIP (pattern not found)' % mid)
                continue
            open(p, 'w').write(s.replace(old, new))
            if contract is None:
                print('%-45s SKIP (renaming needs invariant keys; see DESIGN)' % mid)
                continue
            code = ("import json,sys\nfrom vt.e1.registry import all_contracts\nfrom vt.e1.contract import verify_function\nreg=all_contracts()\nc=reg[%r]\nout=[]\n"
                    "for inst in c.instances():\n    r=verify_function(c,inst,reg)\n    out.append({'inst':r['inst'],'unsupported':r.get('unsupported'),'bad':[(o['name'],o['status']) for o in r['obligations'] if o['status']!='ok']})\nprint(json.dumps(out))" % contract)
            env = dict(os.environ, VERIF_REPO=tmp, PYTHONPATH=here, PYTHONWARNINGS='ignore')
            try:
                r = subprocess.run([py, '-c', code], capture_output=True, text=True, env=env, timeout=3600)
            except subprocess.TimeoutExpired:
                print('%-45s TIMEOUT (no verdict within an hour: counts as a problem)' % mid)
                bad += 1
                continue
            try:
                res = json.loads(r.stdout.strip().splitlines()[-1])
            except Exception:
                print('%-45s ENGINE-ERROR %s' % (mid, r.stderr[-300:]))
                bad += 1
                continue
            failing = [n for x in res for (n, st) in x['bad'] if st == 'fail']
            unsup = [x['unsupported'] for x in res if x['unsupported']]
            if frag is None:
                ok = not failing and not unsup and not any(x['bad'] for x in res)
                print('%-45s %s (harmless change %s)' % (mid, 'OK' if ok else 'FALSE-ALARM', 'stays green' if ok else 'flagged: %s %s' % (failing[:3], unsup[:1])))
            else:
                hit = [n for n in failing if frag in n] if frag != '*' else (failing or unsup or [n for x in res for (n, st) in x['bad']])
                ok = bool(hit)
                print('%-45s %s %s' % (mid, 'CAUGHT' if ok else 'MISSED', (hit[:2] if ok else 'failing=%s unsupported=%s' % (failing[:3], unsup[:1]))))
            bad += not ok
        finally:
            shutil.rmtree(tmp, ignore_errors=True)
    print('selftest: %d problem(s)' % bad)
    return 1 if bad else 0


if __name__ == '__main__':
    sys.exit(main())
