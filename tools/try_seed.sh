#!/bin/sh
# usage: tools/try_seed.sh <patch.diff> <pid> [<pid> ...]   -- applies the patch to /repo, runs the quick checks, reverts
P="$1"; shift
cd /repo || exit 3
if ! git diff --quiet; then echo "/repo has uncommitted changes"; exit 3; fi
git apply "$P" || { echo "patch does not apply"; exit 3; }
cd /verif
for pid in "$@"; do
  out=$(timeout 1800 ./check "$pid" --tier "${TIER:-quick}" 2>&1); rc=$?
  echo "== $pid rc=$rc"; echo "$out" | grep -E "VIOLATION|KNOWN|tier=" | cut -c1-260 | head -${LINES_MAX:-6}
done
git -C /repo checkout -- .
