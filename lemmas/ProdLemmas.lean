/-
Machine-checked versions of the arithmetic lemmas that the E1 contracts of /verif assume about the uninterpreted slice
products  P(a, b) = prod(l[a:b])  and cumulative sums (vt/e1/calls.py: prod_range / prod_instance, vt/e1/tt_contracts.py:
Qtt2tt, Full).  A Python list of integers is a function  f : ℕ → ℤ ; a slice product is a product over  Finset.Ico a b.
Checked with  `lean lemmas/ProdLemmas.lean`  (Lean 4 + Mathlib); run by `./check C06` when lean is on the PATH.
-/
import Mathlib

open Finset

/-- L-prod-pos: a product of positive integers is positive (`>= 1`). -/
theorem L_prod_pos (f : ℕ → ℤ) (a b : ℕ) (h : ∀ i ∈ Ico a b, 1 ≤ f i) : 1 ≤ ∏ i ∈ Ico a b, f i := by
  have hpos : 0 < ∏ i ∈ Ico a b, f i := Finset.prod_pos (fun i hi => by have := h i hi; omega)
  omega

/-- the defining unfolding at the upper end (ground instances are asserted by the engine): P(a, b+1) = P(a, b) * l[b]. -/
theorem L_prod_back (f : ℕ → ℤ) (a b : ℕ) (h : a ≤ b) :
    ∏ i ∈ Ico a (b + 1), f i = (∏ i ∈ Ico a b, f i) * f b :=
  Finset.prod_Ico_succ_top h f

/-- L-prod-front: the first factor split off, P(a, b) = l[a] * P(a+1, b). -/
theorem L_prod_front (f : ℕ → ℤ) (a b : ℕ) (h : a < b) :
    ∏ i ∈ Ico a b, f i = f a * ∏ i ∈ Ico (a + 1) b, f i :=
  Finset.prod_eq_prod_Ico_succ_bot h f

/-- L-prod-split: P(0, n) = P(0, k) * P(k, n) (stated for any lower end). -/
theorem L_prod_split (f : ℕ → ℤ) (m k n : ℕ) (h1 : m ≤ k) (h2 : k ≤ n) :
    ∏ i ∈ Ico m n, f i = (∏ i ∈ Ico m k, f i) * ∏ i ∈ Ico k n, f i :=
  (Finset.prod_Ico_consecutive f h1 h2).symm

/-- L-cumsum-mono: with positive summands the cumulative sums grow by at least one per step:
    C(a) + (b - a) <= C(b) for a <= b, where C(n) = g 0 + ... + g (n-1). -/
theorem L_cumsum_mono (g : ℕ → ℤ) (hg : ∀ i, 1 ≤ g i) (a b : ℕ) (h : a ≤ b) :
    (∑ i ∈ range a, g i) + ((b : ℤ) - a) ≤ ∑ i ∈ range b, g i := by
  induction b, h using Nat.le_induction with
  | base => simp
  | succ n hn ih =>
    rw [Finset.sum_range_succ]
    have := hg n
    push_cast
    linarith

/-- L-prod-interleave: prod(p) = prod(p[0::2]) * prod(p[1::2]) for a list of even length 2n. -/
theorem L_prod_interleave (p : ℕ → ℤ) (n : ℕ) :
    ∏ i ∈ range (2 * n), p i = (∏ j ∈ range n, p (2 * j)) * ∏ j ∈ range n, p (2 * j + 1) := by
  induction n with
  | zero => simp
  | succ n ih =>
    have h2 : 2 * (n + 1) = 2 * n + 1 + 1 := by ring
    rw [h2, Finset.prod_range_succ, Finset.prod_range_succ, ih, Finset.prod_range_succ, Finset.prod_range_succ]
    ring
